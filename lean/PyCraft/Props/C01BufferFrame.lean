import PyCraft.Props.C01Buffer
/-!
# C01 (extension) — the exact operation sequences `read_packet` and `Packet.write` issue

`Props/C01Buffer` gives the two disciplines on a fresh buffer.  Here are the complete sequences of
the real callers, with every intermediate `get_writable` of the reassembly loop (two per further segment) and the
compressed path's second episode (`reset`, `send(decompressed)`, `reset_cursor`), so that the byte
lists the frame model (`Model/Frame.lean`) computes with are what the real buffer returns.
-/
namespace PyCraft.C01BufferFrame
open PyCraft PyCraft.PBuf PyCraft.C01Buffer

/-- The operations of `packet_data.send(stream.read(length))` followed by the reassembly loop
`while len(packet_data.get_writable()) < length: data = stream.read(length - len(packet_data.get_writable())); …;
packet_data.send(data)`: the first segment `v` is sent unconditionally, then every further segment
costs TWO `get_writable` calls (loop test, size of the next read), the `send`, and the loop test
that follows.  (The correspondence run found the second `get_writable`: a first version of this
model had one per segment and its traces did not match the real reader's.) -/
def tailOps (vs : List Bytes) : List Op := vs.flatMap (fun v => [.getw, .send v, .getw])
def loopOps (v : Bytes) (vs : List Bytes) : List Op := .send v :: .getw :: tailOps vs

/-- What the `get_writable` calls of the loop return: before and after every further segment. -/
def seen (acc : Bytes) : List Bytes → List Bytes
  | [] => []
  | v :: vs => acc :: (acc ++ v) :: seen (acc ++ v) vs

theorem tail_sees (vs : List Bytes) : ∀ s, s.pos = s.buf.length →
    run s (tailOps vs) =
      (⟨s.buf ++ vs.flatten, s.buf.length + vs.flatten.length⟩, seen s.buf vs) := by
  induction vs with
  | nil => intro s h; cases s; simp_all [run, tailOps, seen]
  | cons v vs ih =>
    intro s h
    have hs : (step ⟨s.buf, s.pos⟩ (.send v)) = (⟨s.buf ++ v, s.buf.length + v.length⟩, none) := by
      simp [step, h]
    have ih' := ih ⟨s.buf ++ v, s.buf.length + v.length⟩ (by simp)
    simp only [tailOps, List.flatMap_cons, List.cons_append, List.nil_append, run] at ih' ⊢
    simp only [step] at hs ⊢
    rw [show List.flatMap (fun v => [Op.getw, Op.send v, Op.getw]) vs = tailOps vs from rfl] at ih' ⊢
    simp only [tailOps] at ih'
    simp only [tailOps, h, List.take_length, Nat.le_add_right, List.drop_eq_nil_of_le, List.append_nil]
    rw [ih']
    simp [seen, List.append_assoc, Nat.add_assoc]

/-- The loop on a fresh buffer: the buffer ends as the concatenation of all segments with the cursor
at the end, and the loop saw the running concatenations. -/
theorem loop_sees_prefixes (v : Bytes) (vs : List Bytes) :
    run init (loopOps v vs) =
      (⟨v ++ vs.flatten, v.length + vs.flatten.length⟩, v :: seen v vs) := by
  have h := tail_sees vs ⟨v, v.length⟩ rfl
  simp only [loopOps, run, step, init, List.take_zero, List.nil_append, Nat.zero_add, List.drop_nil,
    List.append_nil, h]

/-- The uncompressed path of `read_packet` on a fresh buffer: reassembly loop, `reset_cursor`, then
the sized reads of the packet parser — the parser reads the consecutive pieces of the frame body. -/
theorem read_packet_plain (v : Bytes) (vs : List Bytes) (ns : List Nat) :
    (run init (loopOps v vs ++ [.rewind] ++ ns.map (fun n => .read (some n)))).2
      = (v :: seen v vs) ++ chunks (v ++ vs.flatten) ns := by
  rw [List.append_assoc, run_append, loop_sees_prefixes]
  simp only [List.cons_append, List.nil_append, run, step]
  rw [(reads_chunk ns ⟨v ++ vs.flatten, 0⟩).1]
  simp

private theorem drop_take_length {α} (l : List α) (n : Nat) : l.drop (l.take n).length = l.drop n := by
  rw [List.length_take]
  by_cases h : n ≤ l.length
  · rw [Nat.min_eq_left h]
  · have h' : l.length ≤ n := by omega
    rw [Nat.min_eq_right h', List.drop_eq_nil_of_le (Nat.le_refl _), List.drop_eq_nil_of_le h']

/-- Where sized reads leave the cursor: advanced by exactly the number of bytes returned. -/
theorem reads_state (ns : List Nat) : ∀ s,
    (run s (ns.map (fun n => .read (some n)))).1
      = ⟨s.buf, s.pos + (chunks (s.buf.drop s.pos) ns).flatten.length⟩ := by
  induction ns with
  | nil => intro s; simp [run, chunks]
  | cons n ns ih =>
    intro s
    simp only [List.map_cons, run, step, chunks]
    rw [ih]
    simp only [List.flatten_cons, List.length_append]
    rw [← List.drop_drop, drop_take_length, Nat.add_assoc]

/-- The compressed path: after the loop and `reset_cursor`, `k` one-byte reads (the data-length
VarInt), `read()` for the deflated rest, then `reset`, `send(d)`, `reset_cursor` and the parser's
reads.  The VarInt reader sees the first `k` bytes one at a time, zlib gets exactly the rest, and the
parser reads the consecutive pieces of the inflated packet `d` — nothing of the compressed body
survives the `reset`. -/
theorem read_packet_compressed (v : Bytes) (vs : List Bytes) (k : Nat) (d : Bytes) (ns : List Nat) :
    (run init (loopOps v vs ++ [.rewind] ++ (List.replicate k 1).map (fun n => .read (some n))
        ++ [.read none, .reset, .send d, .rewind] ++ ns.map (fun n => .read (some n)))).2
      = (v :: seen v vs) ++ chunks (v ++ vs.flatten) (List.replicate k 1)
          ++ [((v ++ vs.flatten).drop ((chunks (v ++ vs.flatten) (List.replicate k 1)).flatten.length))]
          ++ chunks d ns := by
  have e1 : loopOps v vs ++ [Op.rewind] ++ (List.replicate k 1).map (fun n => Op.read (some n))
        ++ [Op.read none, Op.reset, Op.send d, Op.rewind] ++ ns.map (fun n => Op.read (some n))
      = loopOps v vs ++ ([Op.rewind] ++ ((List.replicate k 1).map (fun n => Op.read (some n))
        ++ ([Op.read none, Op.reset, Op.send d, Op.rewind] ++ ns.map (fun n => Op.read (some n))))) := by
    simp [List.append_assoc]
  rw [e1, run_append, loop_sees_prefixes]
  simp only [List.cons_append, List.nil_append, run, step]
  rw [run_append, reads_state, (reads_chunk (List.replicate k 1) ⟨v ++ vs.flatten, 0⟩).1]
  simp only [List.drop_zero, Nat.zero_add, run, step, init, List.take_zero, List.nil_append,
    List.drop_nil]
  rw [(reads_chunk ns ⟨d ++ [], 0⟩).1]
  simp [List.append_assoc]

/-- The COMPLETE operation sequence `read_packet` issues on its buffer, as one definition (the driver
prints it — `pbuf.rp` — and the harness compares it token by token with the operations recorded on
the live buffer): loop, `reset_cursor`, the compressed episode if a data length `k` bytes long and an
inflated packet `d` occur, then the parser's reads (`none` = `read()`). -/
def readPacketOps (v : Bytes) (vs : List Bytes) (comp : Option (Nat × Bytes))
    (rs : List (Option Nat)) : List Op :=
  loopOps v vs ++ [.rewind] ++
    (match comp with
     | none => []
     | some (k, d) =>
       (List.replicate k 1).map (fun n => .read (some n)) ++ [.read none, .reset, .send d, .rewind])
    ++ rs.map .read

/-- … and it is the sequence the two theorems above speak about. -/
theorem readPacketOps_plain (v : Bytes) (vs : List Bytes) (ns : List Nat) :
    readPacketOps v vs none (ns.map some)
      = loopOps v vs ++ [.rewind] ++ ns.map (fun n => .read (some n)) := by
  simp [readPacketOps, List.map_map, Function.comp_def]

theorem readPacketOps_compressed (v : Bytes) (vs : List Bytes) (k : Nat) (d : Bytes) (ns : List Nat) :
    readPacketOps v vs (some (k, d)) (ns.map some)
      = loopOps v vs ++ [.rewind] ++ (List.replicate k 1).map (fun n => .read (some n))
        ++ [.read none, .reset, .send d, .rewind] ++ ns.map (fun n => .read (some n)) := by
  simp [readPacketOps, List.map_map, Function.comp_def, List.append_assoc]

/-- The writer (`Packet.write` → `_write_buffer` with a threshold): the fields are sent into a fresh
buffer, `get_writable` fetches the payload, `reset`, the header and body pieces `hs` (data length,
then the deflated or the plain payload) are sent, and `get_writable` is asked twice (for the length
prefix and for the bytes handed to the socket).  The payload is exactly the fields' concatenation,
and both later calls return exactly the new pieces — nothing of the payload survives the `reset`. -/
theorem write_packet_ops (fs hs : List Bytes) :
    (run init (fs.map .send ++ [.getw, .reset] ++ hs.map .send ++ [.getw, .getw])).2
      = [fs.flatten, hs.flatten, hs.flatten] := by
  have e : fs.map Op.send ++ [Op.getw, Op.reset] ++ hs.map Op.send ++ [Op.getw, Op.getw]
      = fs.map Op.send ++ ([Op.getw, Op.reset] ++ (hs.map Op.send ++ [Op.getw, Op.getw])) := by
    simp [List.append_assoc]
  rw [e, run_append, sends_append fs init rfl]
  simp only [init, List.nil_append, List.length_nil, Nat.zero_add, List.cons_append, run, step]
  rw [run_append, sends_append hs ⟨[], 0⟩ rfl]
  simp [run, step]

-- non-vacuity: a frame arriving in three segments, plain and compressed
example : (run init (loopOps [5, 1] [[2], [3, 4]] ++ [.rewind] ++ [1, 2, 9].map (fun n => .read (some n)))).2
    = [[5, 1], [5, 1], [5, 1, 2], [5, 1, 2], [5, 1, 2, 3, 4], [5], [1, 2], [3, 4]] := by decide
example : (run init (loopOps [0x81] [[0x01, 7, 8]] ++ [.rewind]
      ++ (List.replicate 2 1).map (fun n => .read (some n))
      ++ [.read none, .reset, .send [9, 9, 9], .rewind] ++ [1, 5].map (fun n => .read (some n)))).2
    = [[0x81], [0x81], [0x81, 0x01, 7, 8], [0x81], [0x01], [7, 8], [9], [9, 9]] := by decide
example : (run init ([[5], [1, 2]].map .send ++ [.getw, .reset] ++ [[0], [5, 1, 2]].map .send
    ++ [.getw, .getw])).2 = [[5, 1, 2], [0, 5, 1, 2], [0, 5, 1, 2]] := by decide

end PyCraft.C01BufferFrame
