import PyCraft.Lemmas.FrameViews
/-!
# C15 (core) — a stream that ends at any byte offset: the reader terminates, delivers exactly the
complete frames, raises end-of-stream, and issues a bounded number of reads after the end

Model: `PyCraft/Model/Frame.lean` (`readPacketK`, `readAllK` = `PacketReactor.read_packet` in a
loop, over a socket that counts `read` calls and `read` calls that returned `b''`).

**Termination is by construction**: `readVarIntK`, `readMoreK` (the reassembly loop) and
`readAllFuel` are total Lean functions; Lean's termination checker accepted the measures
`max_bytes + 1 - bytes_encountered`, `length - len(data)` (it strictly decreases because an empty
chunk raises `EOFError` — exactly the argument the loop lacked before the `fix:` commit) and the
fuel `bytes + 1` of `readAllK`, which is never exhausted (`readAll_total`).
Only property theorems and non-vacuity examples live here.
-/
namespace PyCraft.C15
open PyCraft

/-- Cut the byte stream of a conversation `ps` after ANY number `k` of bytes, deliver those bytes in
ANY segmentation, then end of stream: the reader delivers exactly the first `n` packets, where `n`
is the number of frames lying wholly inside the first `k` bytes (`n` frames fit, `n + 1` do not),
then raises `EOFError` — never another exception, never a partial packet.  Any zlib, any
threshold (compression on or off). -/
theorem prefix_delivers_complete_only (z : Zlib) (thr : Option Int) (ps : List (Nat × Bytes))
    (hok : ∀ p ∈ ps, FrameOK z.toZlibOps thr p) (k : Nat)
    (hk : k ≤ (ps.map (packetFrame z.toZlibOps thr)).flatten.length) (segs : Segs)
    (hseg : segs.flatten = (ps.map (packetFrame z.toZlibOps thr)).flatten.take k) :
    ∃ n, n ≤ ps.length ∧
      readAll z.toZlibOps thr.isSome segs = (ps.take n, .eof) ∧
      (((ps.take n).map (packetFrame z.toZlibOps thr)).flatten).length ≤ k ∧
      (n < ps.length →
        k < (((ps.take (n + 1)).map (packetFrame z.toZlibOps thr)).flatten).length) := by
  rw [readAll_spec, hseg]
  exact parseAll_take z thr ps hok k hk

/-- The same on an encrypted connection: the cipher text of the conversation (encrypted from
context `s0` by any cipher pair) is cut after `k` bytes and arrives in any segmentation. -/
theorem prefix_delivers_complete_only_encrypted {σ : Type} (cp : CipherPair σ) (s0 : σ)
    (z : Zlib) (thr : Option Int) (ps : List (Nat × Bytes))
    (hok : ∀ p ∈ ps, FrameOK z.toZlibOps thr p) (k : Nat)
    (hk : k ≤ (ps.map (packetFrame z.toZlibOps thr)).flatten.length) (segs : Segs)
    (hseg : segs.flatten =
      (cp.enc.update s0 (ps.map (packetFrame z.toZlibOps thr)).flatten).2.take k) :
    ∃ n, n ≤ ps.length ∧
      readAllEnc cp.dec s0 z.toZlibOps thr.isSome segs = (ps.take n, .eof) ∧
      (((ps.take n).map (packetFrame z.toZlibOps thr)).flatten).length ≤ k ∧
      (n < ps.length →
        k < (((ps.take (n + 1)).map (packetFrame z.toZlibOps thr)).flatten).length) := by
  rw [readAllEnc_spec, hseg, xform_take, (cp.inv s0 _).1]
  exact parseAll_take z thr ps hok k hk

/-- Reads after the end of the stream are bounded, for ANY stream content (well-formed or not),
any cipher, compression on or off:
* a `read` issued when nothing is left to arrive returns `b''`, so it is counted in `empties`;
* one `read_packet` call sees at most TWO empty reads;
* a call that delivers a packet sees none;
* the whole loop until the exception sees at most two. -/
theorem reads_after_eof_le_two {σ : Type} (x : StreamXform σ) (z : ZlibOps) (c : Bool)
    (k : Sock σ) :
    (∀ n, k.segs.flatten = [] → (k.read x n).1 = []) ∧
    (readPacketK x z c k).2.empties ≤ k.empties + 2 ∧
    (∀ p, (readPacketK x z c k).1 = .ok p → (readPacketK x z c k).2.empties = k.empties) ∧
    (readAllK x z c k).2.empties ≤ k.empties + 2 := by
  obtain ⟨-, h2, h3, -⟩ := readPacketK_tally x z c k
  refine ⟨?_, h2, h3, (readAllFuel_tally x z c _ k).2⟩
  intro n h
  exact Sock.read_exhausted x k n (by unfold Sock.rem; rw [h]; rfl)

/-
The statement planned in DESIGN.md,

  theorem reads_after_eof_le_one : (readPacketK x z c k).2.empties ≤ k.empties + 1

is FALSE for the code as written (see the last `example` below): when the stream ends exactly
behind a length prefix whose value is > 0, `stream.read(length)` returns `b''` and the `while`
loop then issues `stream.read(length)` once more before raising `EOFError`.  What holds:
-/

/-- At most ONE empty read per `read_packet` call — unless what is left of the stream is exactly a
VarInt length prefix with a value `> 0` and nothing behind it (then, and only then, two). -/
theorem reads_after_eof_le_one_partial {σ : Type} (x : StreamXform σ) (z : ZlibOps) (c : Bool)
    (k : Sock σ)
    (h : ¬ ∃ len, 0 < len ∧ decVarInt 5 (x.update k.st k.segs.flatten).2 = .ok (len, [])) :
    (readPacketK x z c k).2.empties ≤ k.empties + 1 := by
  obtain ⟨-, -, -, h4⟩ := readPacketK_tally x z c k
  rcases Nat.lt_or_ge (k.empties + 1) (readPacketK x z c k).2.empties with hlt | hge
  · exact absurd (h4 (by omega)) h
  · exact hge

/-- Called when the stream is already exhausted, `read_packet` issues at most one `read` and
raises `EOFError`. -/
theorem read_packet_on_exhausted {σ : Type} (x : StreamXform σ) (z : ZlibOps) (c : Bool)
    (k : Sock σ) (h : k.segs.flatten = []) :
    (readPacketK x z c k).1 = .error .eof ∧ (readPacketK x z c k).2.reads ≤ k.reads + 1 := by
  have ha : ahead x k = [] := by unfold ahead; rw [h]; exact xform_nil x _
  constructor
  · obtain ⟨k', e1⟩ := (readPacketK_spec x z c k).2 .eof
      (by rw [ha]; simp [parsePacket, parseFrame, decVarInt, decVarIntAux])
    rw [e1]
  · obtain ⟨⟨m1, m2, m3⟩, -, -, h4⟩ := readPacketK_tally x z c k
    have hrem : k.rem = 0 := by unfold Sock.rem; rw [h]; rfl
    have : (readPacketK x z c k).2.empties ≤ k.empties + 1 := by
      rcases Nat.lt_or_ge (k.empties + 1) (readPacketK x z c k).2.empties with hlt | hge
      · obtain ⟨len, _, hd⟩ := h4 (by omega)
        rw [ha] at hd; simp [decVarInt, decVarIntAux] at hd
      · exact hge
    omega

/-- Progress: a `read_packet` call that delivers a packet has consumed at least one byte of the
stream (cipher text or plain) — the measure that makes the loop of `readAllK` terminate. -/
theorem read_packet_consumes {σ : Type} (x : StreamXform σ) (z : ZlibOps) (c : Bool) (k : Sock σ)
    (p : Nat × Bytes) (h : (readPacketK x z c k).1 = .ok p) :
    (readPacketK x z c k).2.segs.flatten.length < k.segs.flatten.length :=
  readPacketK_consumes x z c k p h

/-- Explicit bound on the work of the whole loop on ANY stream of `N` bytes (any content, any
segmentation, any cipher): at most `N + 2` reads in total, at most two of them empty; giving the
loop more fuel than `N + 1` calls changes nothing (the fuel is never the reason to stop), and the
exception that ends the loop is one of `EOFError`, the VarInt `ValueError`, `zlib.error`,
`AssertionError`. -/
theorem readAll_total {σ : Type} (x : StreamXform σ) (s0 : σ) (z : ZlibOps) (c : Bool)
    (segs : Segs) :
    (readAllK x z c (Sock.enc s0 segs)).2.reads ≤ segs.flatten.length + 2 ∧
    (readAllK x z c (Sock.enc s0 segs)).2.empties ≤ 2 ∧
    (∀ fuel, segs.flatten.length < fuel →
      (readAllFuel x z c fuel (Sock.enc s0 segs)).1 = (readAllK x z c (Sock.enc s0 segs)).1) ∧
    ((readAllK x z c (Sock.enc s0 segs)).1.2 = .eof ∨
     (readAllK x z c (Sock.enc s0 segs)).1.2 = .tooLong ∨
     (readAllK x z c (Sock.enc s0 segs)).1.2 = .zlib ∨
     (readAllK x z c (Sock.enc s0 segs)).1.2 = .assertion) := by
  obtain ⟨⟨m1, m2, m3⟩, h2⟩ := readAllFuel_tally x z c (segs.flatten.length + 1) (Sock.enc s0 segs)
  have hrem : (Sock.enc s0 segs).rem = segs.flatten.length := rfl
  have hr : (Sock.enc s0 segs).reads = 0 := rfl
  have he : (Sock.enc s0 segs).empties = 0 := rfl
  refine ⟨?_, ?_, ?_, ?_⟩
  · show (readAllFuel x z c (segs.flatten.length + 1) (Sock.enc s0 segs)).2.reads ≤ _
    omega
  · show (readAllFuel x z c (segs.flatten.length + 1) (Sock.enc s0 segs)).2.empties ≤ _
    omega
  · intro fuel hf
    exact readAllK_fuel_free x z c _ fuel (by rw [hrem]; exact hf)
  · rw [readAllK_spec]
    exact parseAllFuel_err z c _ _ (Nat.lt_succ_self _)

-- non-vacuity: a two-packet conversation (threshold 1, both compressed by the identity zlib) cut
-- inside the second frame; and the stream `05` (a length prefix, then end of stream) on which
-- `read_packet` sees TWO empty reads — the counterexample to the `≤ 1` statement.
example := prefix_delivers_complete_only Zlib.ident (some 1) [(5, [0x61, 0x62]), (7, [])]
  (by decide +kernel) 7 (by decide +kernel) [[0x04, 0x03], [0x05, 0x61, 0x62, 0x02], [0x00]]
  (by decide +kernel)
example : readAll Zlib.ident.toZlibOps true [[0x04, 0x03], [0x05, 0x61, 0x62, 0x02], [0x00]]
    = ([(5, [0x61, 0x62])], .eof) := by decide +kernel
example : (readPacketK idXform Zlib.ident.toZlibOps false (Sock.plain [[0x05]])).2.empties = 2 := by
  decide +kernel
example : (readPacketK idXform Zlib.ident.toZlibOps false (Sock.plain [[0x05, 0x61]])).2.empties = 1
    ∧ (readPacketK idXform Zlib.ident.toZlibOps false (Sock.plain [[0x05, 0x61]])).1 = .error .eof := by
  decide +kernel
example : ¬ ∃ len, 0 < len ∧
    decVarInt 5 (idXform.update () ([[0x05, 0x61]] : Segs).flatten).2 = .ok (len, []) := by
  intro ⟨len, _, h⟩
  have : decVarInt 5 (idXform.update () ([[0x05, 0x61]] : Segs).flatten).2 = .ok (5, [0x61]) := by
    decide +kernel
  rw [this] at h; cases h

end PyCraft.C15
