import PyCraft.Lemmas.C08Live
import PyCraft.Props.C08
import PyCraft.Generated.Versions
import PyCraft.Generated.C08Live
/-!
# C08 — closing audit gap 25: what the title promises about the LIVE data and about sharing

Property C08: "Protocol versions are totally ordered by publication; derived tables agree".
`Props/C08.lean` proves the order and projection laws for ALL record lists.  The audit found four
things stated nowhere; this file states and proves them.

(a) **The name tables agree.**  `SUPPORTED[id] = KNOWN[id]` is not a consequence of the projection
    laws: a list that re-uses an id for a different protocol number breaks it (`C08.sample`).  The
    missing hypothesis is `IdsFunctional recs` (an id always carries the same number); it is
    EQUIVALENT to "`KNOWN[r.id] = r.protocol` for every record" (`ids_functional_iff`), it gives
    agreement of all three name tables with the records and with each other (`records_agree`,
    `tables_agree`), and under it all five derived tables are first-occurrence projections of the
    RECORDS themselves, not merely of one another (`projections_of_records`).  The live records
    satisfy it (`live_ids_functional`, checked by the kernel on the regenerated data), hence
    `live_tables_agree`.
(b) **Numeric order for ordinary numbers** as a statement about `protocol_earlier` and the four
    other predicates (`numeric_on_sorted_class`, `live_ordinary_numeric`, `live_pre_numeric`).
(c) **The release list is chronological** on the live data (`live_release_chronological`), again
    composed with `protocol_earlier`; the three number lists are nested sublists.
(d) **Sharing by reference** (`Model/C08Live.lean`): for every history of run-time edits and
    re-initialisations the real code keeps every module looking at the same objects and these show
    the value model's tables (`by_reference_transparent`); after a rebuild every context, old or
    new, answers by the rebuilt order (`rebuild_after_history`, `context_answers_current`).  The two
    seeded changes that passed every earlier theorem are refuted on small instances.  Insertion in
    the middle of the list: comparisons between versions other than the inserted ones never change
    (`insert_order_unchanged`); with new numbers the old list is kept with the new block spliced in
    and the later indices shift by its length (`insert_fresh`) — which is exactly what a remembered
    index gets wrong.  `model_eq_live_runs` ties the by-reference model to histories observed on the
    live code.

Only property theorems and non-vacuity examples live here.
-/
namespace PyCraft.C08Live
open PyCraft PyCraft.VerRef

/-! ## (a) The name tables agree -/

/-- An id is used for one protocol number only  ⇔  the known-names table gives every record's id
the record's own number. -/
theorem ids_functional_iff (recs : List Rec) :
    IdsFunctional recs ↔
      ∀ r ∈ recs, odGet (initKnown recs).knownVersions r.id = some r.protocol := by
  constructor
  · intro h r hr
    rw [(C08.known_versions_projection recs).2.2]
    exact lastVal_of_functional (recPairs recs) h.pairs (r.id, r.protocol)
      (List.mem_map.2 ⟨r, hr, rfl⟩)
  · intro h r hr s hs e
    have h1 := h r hr
    have h2 := h s hs
    rw [e, h2] at h1
    exact (Option.some.inj h1).symm

/-- With functional ids every table agrees with every record: `KNOWN[r.id] = r.protocol`; for a
supported record also `SUPPORTED[r.id] = r.protocol` and the number is in
`SUPPORTED_PROTOCOL_VERSIONS`; for a supported record with a release name also
`RELEASE[r.id] = r.protocol` and the number is in `RELEASE_PROTOCOL_VERSIONS`. -/
theorem records_agree (recs : List Rec) (h : IdsFunctional recs) :
    ∀ r ∈ recs,
      odGet (initKnown recs).knownVersions r.id = some r.protocol ∧
      (r.supported = true →
        odGet (initKnown recs).supportedVersions r.id = some r.protocol ∧
        r.protocol ∈ (initKnown recs).supportedProtocols) ∧
      (r.supported = true → isRelease r.id = true →
        odGet (initKnown recs).releaseVersions r.id = some r.protocol ∧
        r.protocol ∈ (initKnown recs).releaseProtocols) := by
  intro r hr
  have hsup : r.supported = true →
      odGet (initKnown recs).supportedVersions r.id = some r.protocol := by
    intro hs
    rw [(C08.supported_projection recs).1, odGet_odFromList]
    exact lastVal_of_functional _ (h.filter _).pairs (r.id, r.protocol)
      (List.mem_map.2 ⟨r, List.mem_filter.2 ⟨hr, hs⟩, rfl⟩)
  have hnd : ((initKnown recs).supportedVersions.map (·.1)).Nodup := by
    rw [(C08.supported_projection recs).1]; exact odFromList_keys_nodup _
  have hrel : r.supported = true → isRelease r.id = true →
      odGet (initKnown recs).releaseVersions r.id = some r.protocol := by
    intro hs hrl
    rw [(C08.release_projection recs).1, odGet_filter _ hnd]
    exact ⟨hsup hs, hrl⟩
  refine ⟨(ids_functional_iff recs).1 h r hr, fun hs => ⟨hsup hs, ?_⟩,
    fun hs hrl => ⟨hrel hs hrl, ?_⟩⟩
  · rw [(C08.supported_projection recs).2.2.2.1, mem_dedup]
    exact List.mem_map.2 ⟨(r.id, r.protocol), (mem_iff_odGet _ hnd _ _).2 (hsup hs), rfl⟩
  · rw [(C08.release_projection recs).2.2.2.1, mem_dedup]
    have hnd' : ((initKnown recs).releaseVersions.map (·.1)).Nodup := by
      rw [(C08.release_projection recs).1]; exact filter_keys_nodup _ _ hnd
    exact List.mem_map.2 ⟨(r.id, r.protocol), (mem_iff_odGet _ hnd' _ _).2 (hrel hs hrl), rfl⟩

/-- The derived tables agree with each other.  With functional ids `SUPPORTED ⊆ KNOWN` as maps
(`SUPPORTED[id] = KNOWN[id]` wherever the left side exists), also item by item.  `RELEASE ⊆
SUPPORTED` as maps holds for every record list. -/
theorem tables_agree (recs : List Rec) :
    (IdsFunctional recs →
      (∀ k v, odGet (initKnown recs).supportedVersions k = some v →
        odGet (initKnown recs).knownVersions k = some v) ∧
      (∀ e ∈ (initKnown recs).supportedVersions, e ∈ (initKnown recs).knownVersions)) ∧
    (∀ k v, odGet (initKnown recs).releaseVersions k = some v →
      odGet (initKnown recs).supportedVersions k = some v) := by
  have hnd : ((initKnown recs).supportedVersions.map (·.1)).Nodup := by
    rw [(C08.supported_projection recs).1]; exact odFromList_keys_nodup _
  have hndk : ((initKnown recs).knownVersions.map (·.1)).Nodup := by
    rw [(C08.known_versions_projection recs).1]; exact odFromList_keys_nodup _
  refine ⟨fun h => ?_, ?_⟩
  · have key : ∀ k v, odGet (initKnown recs).supportedVersions k = some v →
        odGet (initKnown recs).knownVersions k = some v := by
      intro k v hkv
      rw [(C08.supported_projection recs).1, odGet_odFromList] at hkv
      obtain ⟨r, hr, hrk⟩ := List.mem_map.1 (lastVal_mem _ _ _ hkv)
      have := (records_agree recs h r (List.mem_filter.1 hr).1).1
      simp only [Prod.mk.injEq] at hrk
      rw [hrk.1, hrk.2] at this
      exact this
    refine ⟨key, ?_⟩
    rintro ⟨k, v⟩ he
    exact (mem_iff_odGet _ hndk k v).2 (key k v ((mem_iff_odGet _ hnd k v).1 he))
  · intro k v hkv
    rw [(C08.release_projection recs).1, odGet_filter _ hnd] at hkv
    exact hkv.1

/-- With functional ids each derived table is the order-preserving, duplicate-free projection of
the RECORDS (first occurrences): the known names are the distinct `(id, protocol)` pairs, the
supported names those of the supported records, the release names those of the supported records
with a release name, and the supported / release number lists are the distinct protocol numbers of
those same records — not merely of the dict built before them. -/
theorem projections_of_records (recs : List Rec) (h : IdsFunctional recs) :
    (initKnown recs).knownVersions = dedup (recPairs recs) ∧
    (initKnown recs).supportedVersions = dedup (recPairs (recs.filter (·.supported))) ∧
    (initKnown recs).supportedProtocols = dedup ((recs.filter (·.supported)).map (·.protocol)) ∧
    (initKnown recs).releaseVersions
      = dedup (recPairs (recs.filter fun r => r.supported && isRelease r.id)) ∧
    (initKnown recs).releaseProtocols
      = dedup ((recs.filter fun r => r.supported && isRelease r.id).map (·.protocol)) := by
  have hk : (initKnown recs).knownVersions = dedup (recPairs recs) := by
    rw [(C08.known_versions_projection recs).1]; exact odFromList_eq_dedup _ h.pairs
  have hs : (initKnown recs).supportedVersions = dedup (recPairs (recs.filter (·.supported))) := by
    rw [(C08.supported_projection recs).1]; exact odFromList_eq_dedup _ (h.filter _).pairs
  have hr : (initKnown recs).releaseVersions
      = dedup (recPairs (recs.filter fun r => r.supported && isRelease r.id)) := by
    rw [(C08.release_projection recs).1, hs, ← dedup_filter]
    congr 1
    simp only [recPairs, List.filter_map, List.filter_filter]
    congr 1
    apply List.filter_congr
    intro r _
    simp [Bool.and_comm]
  refine ⟨hk, hs, ?_, hr, ?_⟩
  · rw [(C08.supported_projection recs).2.2.2.1, hs, dedup_map_dedup, recPairs, List.map_map]
    rfl
  · rw [(C08.release_projection recs).2.2.2.1, hr, dedup_map_dedup, recPairs, List.map_map]
    rfl

/-! ## (b) Numeric order, as a statement about the predicates -/

/-- If the known versions selected by `p` appear in strictly increasing numeric order, then on
them all five predicates are the numeric comparisons: `earlier a b` is `a < b`, `earlier_eq` is
`≤`, `later` is `>`, `later_eq` is `≥`, and `in_range v start end` is `start ≤ v < end`. -/
theorem numeric_on_sorted_class (recs : List Rec) (p : Nat → Bool)
    (hs : ((initKnown recs).knownProtocols.filter p).Pairwise (· < ·)) :
    (∀ a ∈ (initKnown recs).knownProtocols, ∀ b ∈ (initKnown recs).knownProtocols,
      p a = true → p b = true →
        earlier (initKnown recs) a b = .ok (decide (a < b)) ∧
        earlierEq (initKnown recs) a b = .ok (decide (a ≤ b)) ∧
        later (initKnown recs) a b = .ok (decide (b < a)) ∧
        laterEq (initKnown recs) a b = .ok (decide (b ≤ a))) ∧
    (∀ v ∈ (initKnown recs).knownProtocols, ∀ s ∈ (initKnown recs).knownProtocols,
      ∀ e ∈ (initKnown recs).knownProtocols, p v = true → p s = true → p e = true →
        inRange (initKnown recs) v s e = .ok (decide (s ≤ v ∧ v < e))) := by
  have base : ∀ a ∈ (initKnown recs).knownProtocols, ∀ b ∈ (initKnown recs).knownProtocols,
      p a = true → p b = true →
        earlier (initKnown recs) a b = .ok (decide (a < b)) ∧
        earlierEq (initKnown recs) a b = .ok (decide (a ≤ b)) := by
    intro a ha b hb hpa hpb
    have h1 := idxOf_lt_iff_of_filter_sorted _ p hs a b ha hb hpa hpb
    have h2 := idxOf_lt_iff_of_filter_sorted _ p hs b a hb ha hpb hpa
    rw [(earlier_known recs a b ha hb).1, (earlier_known recs a b ha hb).2]
    refine ⟨congrArg _ (decide_eq_decide.2 h1), congrArg _ (decide_eq_decide.2 ?_)⟩
    omega
  refine ⟨fun a ha b hb hpa hpb =>
    ⟨(base a ha b hb hpa hpb).1, (base a ha b hb hpa hpb).2, (base b hb a ha hpb hpa).1,
      (base b hb a ha hpb hpa).2⟩, ?_⟩
  intro v hv s hs' e he hpv hps hpe
  unfold inRange
  rw [(base v hv e he hpv hpe).1, (base s hs' v hv hps hpv).2]
  by_cases hve : v < e <;> simp [hve, bind, Except.bind, pure, Except.pure]

/-- LIVE DATA: on the ordinary protocol numbers (no 2^30 bit) of the shipped version list the
five predicates are the numeric comparisons. -/
theorem live_ordinary_numeric :
    (∀ a ∈ liveTables.knownProtocols, ∀ b ∈ liveTables.knownProtocols, a < 2 ^ 30 → b < 2 ^ 30 →
        earlier liveTables a b = .ok (decide (a < b)) ∧
        earlierEq liveTables a b = .ok (decide (a ≤ b)) ∧
        later liveTables a b = .ok (decide (b < a)) ∧
        laterEq liveTables a b = .ok (decide (b ≤ a))) ∧
    (∀ v ∈ liveTables.knownProtocols, ∀ s ∈ liveTables.knownProtocols,
      ∀ e ∈ liveTables.knownProtocols, v < 2 ^ 30 → s < 2 ^ 30 → e < 2 ^ 30 →
        inRange liveTables v s e = .ok (decide (s ≤ v ∧ v < e))) := by
  have h := numeric_on_sorted_class liveRecords (fun x => decide (x < 2 ^ 30))
    (by rw [C08.model_eq_live]; exact C08.ordinary_numbers_monotone)
  rw [C08.model_eq_live] at h
  exact ⟨fun a ha b hb ha' hb' => h.1 a ha b hb (decide_eq_true ha') (decide_eq_true hb'),
    fun v hv s hs e he hv' hs' he' =>
      h.2 v hv s hs e he (decide_eq_true hv') (decide_eq_true hs') (decide_eq_true he')⟩

/-- LIVE DATA: the pre-release numbers (2^30 bit set) of the shipped list are compared by
publication order, which for them coincides with the numeric order of the flagged numbers. -/
theorem live_pre_numeric :
    (∀ a ∈ liveTables.knownProtocols, ∀ b ∈ liveTables.knownProtocols, 2 ^ 30 ≤ a → 2 ^ 30 ≤ b →
        earlier liveTables a b = .ok (decide (a < b)) ∧
        earlierEq liveTables a b = .ok (decide (a ≤ b)) ∧
        later liveTables a b = .ok (decide (b < a)) ∧
        laterEq liveTables a b = .ok (decide (b ≤ a))) ∧
    (∀ v ∈ liveTables.knownProtocols, ∀ s ∈ liveTables.knownProtocols,
      ∀ e ∈ liveTables.knownProtocols, 2 ^ 30 ≤ v → 2 ^ 30 ≤ s → 2 ^ 30 ≤ e →
        inRange liveTables v s e = .ok (decide (s ≤ v ∧ v < e))) := by
  have h := numeric_on_sorted_class liveRecords (fun x => decide (2 ^ 30 ≤ x))
    (by rw [C08.model_eq_live]; exact C08.pre_numbers_monotone)
  rw [C08.model_eq_live] at h
  exact ⟨fun a ha b hb ha' hb' => h.1 a ha b hb (decide_eq_true ha') (decide_eq_true hb'),
    fun v hv s hs e he hv' hs' he' =>
      h.2 v hv s hs e he (decide_eq_true hv') (decide_eq_true hs') (decide_eq_true he')⟩

/-! ## (c) Chronological lists -/

/-- A list of known versions whose ranks increase is chronological in the sense of
`protocol_earlier`: every element is earlier than every later element of the list. -/
theorem earlier_of_rank_sorted (recs : List Rec) (l : List Nat)
    (hsub : ∀ p ∈ l, p ∈ (initKnown recs).knownProtocols)
    (h : (l.map fun v => (initKnown recs).knownProtocols.idxOf v).Pairwise (· < ·)) :
    l.Pairwise (fun a b => earlier (initKnown recs) a b = .ok true ∧
      later (initKnown recs) b a = .ok true) := by
  rw [List.pairwise_map] at h
  refine h.imp_of_mem ?_
  intro a b ha hb hab
  have := (earlier_known recs a b (hsub a ha) (hsub b hb)).1
  rw [decide_eq_true hab] at this
  exact ⟨this, this⟩

/-- LIVE DATA: `RELEASE_PROTOCOL_VERSIONS` is in chronological order (strictly increasing rank in
`KNOWN_PROTOCOL_VERSIONS`) — the twin of `C08.supported_sorted_by_index`. -/
theorem live_release_sorted_by_index :
    (liveTables.releaseProtocols.map fun v => liveTables.knownProtocols.idxOf v).Pairwise (· < ·) := by
  decide +kernel

/-- LIVE DATA: in both number lists every element is `protocol_earlier` than every element after
it. -/
theorem live_release_chronological :
    liveTables.releaseProtocols.Pairwise (fun a b => earlier liveTables a b = .ok true ∧
      later liveTables b a = .ok true) ∧
    liveTables.supportedProtocols.Pairwise (fun a b => earlier liveTables a b = .ok true ∧
      later liveTables b a = .ok true) := by
  have h1 := earlier_of_rank_sorted liveRecords liveTables.releaseProtocols
  have h2 := earlier_of_rank_sorted liveRecords liveTables.supportedProtocols
  have hr := C08.release_projection liveRecords
  have hsp := C08.supported_projection liveRecords
  rw [C08.model_eq_live] at h1 h2 hr hsp
  exact ⟨h1 (fun p hp => hsp.2.2.2.2.1 p (hr.2.2.2.2 p hp)) live_release_sorted_by_index,
    h2 (fun p hp => hsp.2.2.2.2.1 p hp) C08.supported_sorted_by_index⟩

/-- LIVE DATA: the release numbers are ordinary numbers in strictly increasing numeric order, and
the three number lists are nested as SUBLISTS (same relative order, nothing repeated). -/
theorem live_lists_nested :
    liveTables.releaseProtocols.Pairwise (· < ·) ∧
    (∀ p ∈ liveTables.releaseProtocols, p < 2 ^ 30) ∧
    liveTables.releaseProtocols.Sublist liveTables.supportedProtocols ∧
    liveTables.supportedProtocols.Sublist liveTables.knownProtocols := by
  decide +kernel

/-! ## (a) on the live data -/

/-- LIVE DATA: no id of the shipped record list is used for two protocol numbers (the list does
repeat an id: `'14w29a'` occurs twice with the same number). -/
theorem live_ids_functional : IdsFunctional liveRecords := by
  rw [ids_functional_iff, C08.model_eq_live]
  exact idsAgreeB_sound liveRecords liveTables.knownVersions (by decide +kernel)

/-- LIVE DATA: the shipped tables agree: `SUPPORTED[id] = KNOWN[id]` and `RELEASE[id] =
SUPPORTED[id]` wherever the left side exists, every supported item is a known item, and every
record's id maps to the record's own number. -/
theorem live_tables_agree :
    (∀ k v, odGet liveTables.supportedVersions k = some v →
      odGet liveTables.knownVersions k = some v) ∧
    (∀ e ∈ liveTables.supportedVersions, e ∈ liveTables.knownVersions) ∧
    (∀ k v, odGet liveTables.releaseVersions k = some v →
      odGet liveTables.supportedVersions k = some v) ∧
    (∀ r ∈ liveRecords, odGet liveTables.knownVersions r.id = some r.protocol) := by
  have h := tables_agree liveRecords
  have h2 := (ids_functional_iff liveRecords).1 live_ids_functional
  rw [C08.model_eq_live] at h h2
  exact ⟨(h.1 live_ids_functional).1, (h.1 live_ids_functional).2, h.2, h2⟩

/-- LIVE DATA: the five derived name/number tables are the first-occurrence projections of the
shipped records themselves. -/
theorem live_projections :
    liveTables.knownVersions = dedup (recPairs liveRecords) ∧
    liveTables.supportedVersions = dedup (recPairs (liveRecords.filter (·.supported))) ∧
    liveTables.supportedProtocols = dedup ((liveRecords.filter (·.supported)).map (·.protocol)) ∧
    liveTables.releaseVersions
      = dedup (recPairs (liveRecords.filter fun r => r.supported && isRelease r.id)) ∧
    liveTables.releaseProtocols
      = dedup ((liveRecords.filter fun r => r.supported && isRelease r.id).map (·.protocol)) := by
  have h := projections_of_records liveRecords live_ids_functional
  rw [C08.model_eq_live] at h
  exact h

/-! ## (d) Sharing by reference -/

/-- THE REAL CODE IS TRANSPARENT.  After ANY history `ops` of record edits, in-place edits of the
supported dict, re-initialisations in either mode, and context actions, started from an import with
ANY record list:
1. every module still has the bindings it got at import time and no object was created;
2. `utility` and `connection` name the very objects `minecraft` names;
3. the seven tables `minecraft` shows, and the record list, are those of the value model of
   `Props/C08.lean` run over the same history;
4. the dict `utility.protocol_earlier` subscripts, and the four tables `connection` uses, are those
   same tables. -/
theorem by_reference_transparent (recs0 : List Rec) (ops : List Op) :
    let w := runW Code.real (boot Code.real recs0) ops
    (w.mc = (boot Code.real recs0).mc ∧ w.utilIdx = (boot Code.real recs0).utilIdx ∧
      w.conn = (boot Code.real recs0).conn ∧
      w.heap.ods.length = 3 ∧ w.heap.lsts.length = 3 ∧ w.heap.idxs.length = 1) ∧
    (w.utilIdx = w.mc.indices ∧
      w.conn = ⟨w.mc.knownVersions, w.mc.supportedVersions, w.mc.supportedProtocols,
                w.mc.indices⟩) ∧
    (tablesOf w = (valRun recs0 ops).tables ∧ w.records = (valRun recs0 ops).records) ∧
    (utilDict w = (valRun recs0 ops).tables.indices ∧
      w.heap.od w.conn.knownVersions = (valRun recs0 ops).tables.knownVersions ∧
      w.heap.od w.conn.supportedVersions = (valRun recs0 ops).tables.supportedVersions ∧
      w.heap.lst w.conn.supportedProtocols = (valRun recs0 ops).tables.supportedProtocols ∧
      w.heap.idx w.conn.indices = (valRun recs0 ops).tables.indices) := by
  intro w
  obtain ⟨hw, ht, hr⟩ := runW_real (boot Code.real recs0) (wf_boot recs0) ops
  rw [tablesOf_boot, records_boot] at ht hr
  have hv := views_of_wf w hw
  have hb := wf_boot recs0
  refine ⟨⟨hw.mc.trans hb.mc.symm, hw.util.trans hb.util.symm, hw.conn.trans hb.conn.symm,
    hw.ods, hw.lsts, hw.idxs⟩, ⟨?_, ?_⟩, ⟨ht, hr⟩, ?_⟩
  · rw [hw.util, hw.mc]; rfl
  · rw [hw.conn, hw.mc]; rfl
  · have ht' : tablesOf w = (valRun recs0 ops).tables := ht
    rw [← ht']
    exact hv

/-- In the real code a context answers — at ANY point of ANY history, however long ago it was
created and whatever it was asked before — exactly what the value model says for its CURRENT
version on the tables as they are NOW; the call changes nothing.  The same holds for the two
functions of `utility` called directly. -/
theorem context_answers_current (recs0 : List Rec) (ops : List Op) :
    let w := runW Code.real (boot Code.real recs0) ops
    (∀ c cx, w.ctxs[c]? = some cx → ∀ p a b,
      step Code.real w (.call c p a b)
        = (w, some (predVal (valRun recs0 ops).tables cx.pv p a b))) ∧
    (∀ a b, utilEarlier w a b = earlier (valRun recs0 ops).tables a b ∧
      utilEarlierEq w a b = earlierEq (valRun recs0 ops).tables a b) := by
  intro w
  obtain ⟨hw, ht, _⟩ := runW_real (boot Code.real recs0) (wf_boot recs0) ops
  rw [tablesOf_boot, records_boot] at ht
  have ht' : tablesOf w = (valRun recs0 ops).tables := ht
  refine ⟨fun c cx hc p a b => ?_, fun a b => ?_⟩
  · rw [← ht']; exact call_real w hw c cx hc p a b
  · have h1 := ctxCallReal_eq (tablesOf w) (some a) .earlier b 0
    have h2 := ctxCallReal_eq (tablesOf w) (some a) .earlierEq b 0
    rw [← (views_of_wf w hw).1, ht'] at h1 h2
    exact ⟨h1, h2⟩

/-- EXTENSION AT RUN TIME, END TO END.  Whatever happened before (`ops`), once the user has put
`recs` into the record list and called `initglobals(use_known_records=True)`, and whatever context
actions follow (`tail`): `minecraft` shows exactly `initKnown recs` — so every theorem of
`Props/C08.lean` applies —, `utility` compares by it, and EVERY context that exists, including all
those created during `ops` (they are all still there), answers by it. -/
theorem rebuild_after_history (recs0 : List Rec) (ops : List Op) (recs : List Rec)
    (tail : List Op) (htail : ∀ op ∈ tail, Op.isCtx op = true) :
    let w := runW Code.real (boot Code.real recs0) (ops ++ .setRecords recs :: .init true :: tail)
    tablesOf w = initKnown recs ∧
    utilDict w = (initKnown recs).indices ∧
    (∀ a b, utilEarlier w a b = earlier (initKnown recs) a b ∧
      utilEarlierEq w a b = earlierEq (initKnown recs) a b) ∧
    (∀ c cx, w.ctxs[c]? = some cx → ∀ p a b,
      step Code.real w (.call c p a b) = (w, some (predVal (initKnown recs) cx.pv p a b))) ∧
    (runW Code.real (boot Code.real recs0) (ops ++ [.setRecords recs, .init true])).ctxs
      = (runW Code.real (boot Code.real recs0) ops).ctxs := by
  intro w
  have hval : (valRun recs0 (ops ++ .setRecords recs :: .init true :: tail)).tables
      = initKnown recs := by
    unfold valRun
    rw [List.foldl_append, List.foldl_cons, List.foldl_cons, foldl_valStep_ctx _ tail htail]
    show initKnownFrom _ recs = initKnown recs
    exact (C08.init_idempotent recs).1 _
  have h1 := by_reference_transparent recs0 (ops ++ .setRecords recs :: .init true :: tail)
  have h2 := context_answers_current recs0 (ops ++ .setRecords recs :: .init true :: tail)
  simp only [hval] at h1 h2
  refine ⟨h1.2.2.1.1, h1.2.2.2.1, h2.2, h2.1, ?_⟩
  rw [runW_append]
  rfl

/-- For the real code, replacing the records and re-initialising produces LITERALLY the state of
an import with those records (same heap, same bindings): nothing of the earlier list survives
anywhere. -/
theorem restart_is_import (recs0 recs : List Rec) :
    runW Code.real (boot Code.real recs0) [.setRecords recs, .init true] = boot Code.real recs :=
  restart_eq_boot recs0 recs

/-- Why seeded change C08-m2 passed every earlier check: at import time it is invisible — for EVERY
record list the state after import shows the same tables to every module as the real code
does. -/
theorem m2_invisible_at_import (recs : List Rec) :
    tablesOf (boot Code.m2 recs) = initKnown recs ∧
    utilDict (boot Code.m2 recs) = (initKnown recs).indices ∧
    (boot Code.m2 recs).heap.idx (boot Code.m2 recs).conn.indices = (initKnown recs).indices ∧
    (boot Code.m2 recs).utilIdx = (boot Code.m2 recs).mc.indices := by
  have h : initglobals true recs (deref ⟨[[], [], []], [[], [], []], [[]]⟩ ⟨0, 0, 1, 0, 1, 2, 2⟩)
      = initKnown recs := rfl
  have hf := fresh_idx_eq recs
  refine ⟨?_, ?_, ?_, rfl⟩
  · simp only [boot, initCore, Code.m2, Bool.and_self, if_true, h, hf]
    rfl
  · simp only [boot, initCore, Code.m2, Bool.and_self, if_true, h, hf]
    rfl
  · simp only [boot, initCore, Code.m2, Bool.and_self, if_true, h, hf]
    rfl

/-! ### Insertion in the middle of the record list -/

/-- Inserting records anywhere in the list never changes a comparison between two versions that
are not among the inserted numbers — as results, `KeyError` included — and hence no `in_range`
among three such versions. -/
theorem insert_order_unchanged (pre ins post : List Rec) (a b : Nat)
    (ha : a ∉ ins.map (·.protocol)) (hb : b ∉ ins.map (·.protocol)) :
    earlier (initKnown (pre ++ ins ++ post)) a b = earlier (initKnown (pre ++ post)) a b ∧
    earlierEq (initKnown (pre ++ ins ++ post)) a b = earlierEq (initKnown (pre ++ post)) a b ∧
    (∀ c, c ∉ ins.map (·.protocol) →
      inRange (initKnown (pre ++ ins ++ post)) a b c = inRange (initKnown (pre ++ post)) a b c) := by
  have key : ∀ x y, x ∉ ins.map (·.protocol) → y ∉ ins.map (·.protocol) →
      earlier (initKnown (pre ++ ins ++ post)) x y = earlier (initKnown (pre ++ post)) x y ∧
      earlierEq (initKnown (pre ++ ins ++ post)) x y
        = earlierEq (initKnown (pre ++ post)) x y := by
    intro x y hx hy
    have hmem : ∀ z, z ∉ ins.map (·.protocol) →
        (z ∈ (pre ++ ins ++ post).map (·.protocol) ↔ z ∈ (pre ++ post).map (·.protocol)) := by
      intro z hz
      simp only [List.map_append, List.mem_append]
      constructor
      · rintro ((h | h) | h)
        · exact Or.inl h
        · exact absurd h hz
        · exact Or.inr h
      · rintro (h | h)
        · exact Or.inl (Or.inl h)
        · exact Or.inr h
    have hi := idxOf_lt_insert (pre.map (·.protocol)) (ins.map (·.protocol))
      (post.map (·.protocol)) x y hx hy
    rw [earlier_raw, earlier_raw, earlierEq_raw, earlierEq_raw]
    simp only [hmem x hx, hmem y hy]
    simp only [List.map_append] at hi ⊢
    by_cases hxy : (x ∈ pre.map (·.protocol) ∨ x ∈ post.map (·.protocol)) ∧
        (y ∈ pre.map (·.protocol) ∨ y ∈ post.map (·.protocol))
    · simp only [List.mem_append, hxy, and_self, if_true, hi.1, hi.2]
    · simp only [List.mem_append, hxy, if_false, and_self]
  refine ⟨(key a b ha hb).1, (key a b ha hb).2, fun c hc => ?_⟩
  unfold inRange
  rw [(key a c ha hc).1, (key b a hb ha).2]

/-- Inserting records whose protocol numbers are all NEW (`fresh`): with `A` the known list of the
records before the insertion point, the old known list is `A ++ X` and the new one is
`A ++ N ++ X` with `N` the distinct inserted numbers; every comparison and `in_range` among
previously known versions is unchanged; and the index of a previously known version is unchanged
inside `A` and grows by `|N|` after it. -/
theorem insert_fresh (pre ins post : List Rec)
    (fresh : ∀ p ∈ ins.map (·.protocol), p ∉ (initKnown (pre ++ post)).knownProtocols) :
    (∃ X, (initKnown (pre ++ post)).knownProtocols = (initKnown pre).knownProtocols ++ X ∧
      (initKnown (pre ++ ins ++ post)).knownProtocols
        = (initKnown pre).knownProtocols ++ dedup (ins.map (·.protocol)) ++ X) ∧
    (∀ a ∈ (initKnown (pre ++ post)).knownProtocols,
      ∀ b ∈ (initKnown (pre ++ post)).knownProtocols,
      earlier (initKnown (pre ++ ins ++ post)) a b = earlier (initKnown (pre ++ post)) a b ∧
      earlierEq (initKnown (pre ++ ins ++ post)) a b = earlierEq (initKnown (pre ++ post)) a b ∧
      (∀ c ∈ (initKnown (pre ++ post)).knownProtocols,
        inRange (initKnown (pre ++ ins ++ post)) a b c
          = inRange (initKnown (pre ++ post)) a b c)) ∧
    (∀ a i, index (initKnown (pre ++ post)) a = some i →
      index (initKnown (pre ++ ins ++ post)) a
        = some (if i < (initKnown pre).knownProtocols.length then i
                else i + (dedup (ins.map (·.protocol))).length)) := by
  have hfresh : ∀ p ∈ ins.map (·.protocol),
      p ∉ pre.map (·.protocol) ∧ p ∉ post.map (·.protocol) := by
    intro p hp
    have := fresh p hp
    rw [knownProtocols_eq, mem_dedup, List.map_append, List.mem_append, not_or] at this
    exact this
  have hnot : ∀ a ∈ (initKnown (pre ++ post)).knownProtocols, a ∉ ins.map (·.protocol) :=
    fun a ha hm => fresh a hm ha
  obtain ⟨c1, c2⟩ := dedup_insert_fresh (pre.map (·.protocol)) (ins.map (·.protocol))
    (post.map (·.protocol)) hfresh
  have hold : (initKnown (pre ++ post)).knownProtocols = (initKnown pre).knownProtocols ++
      (dedup (post.map (·.protocol))).filter
        (fun y => decide (y ∉ dedup (pre.map (·.protocol)))) := by
    rw [knownProtocols_eq, knownProtocols_eq, List.map_append]; exact c1
  have hnew : (initKnown (pre ++ ins ++ post)).knownProtocols = (initKnown pre).knownProtocols ++
      dedup (ins.map (·.protocol)) ++ (dedup (post.map (·.protocol))).filter
        (fun y => decide (y ∉ dedup (pre.map (·.protocol)))) := by
    rw [knownProtocols_eq, knownProtocols_eq, List.map_append, List.map_append]; exact c2
  refine ⟨⟨_, hold, hnew⟩, ?_, ?_⟩
  · intro a ha b hb
    have h := insert_order_unchanged pre ins post a b (hnot a ha) (hnot b hb)
    exact ⟨h.1, h.2.1, fun c hc => h.2.2 c (hnot c hc)⟩
  · intro a i hi
    rw [index_spec] at hi
    by_cases ha : a ∈ (initKnown (pre ++ post)).knownProtocols
    · rw [if_pos ha] at hi
      have hi' := Option.some.inj hi
      have hanew : a ∈ (initKnown (pre ++ ins ++ post)).knownProtocols := by
        rw [hnew]; rw [hold] at ha
        rcases List.mem_append.1 ha with h | h
        · exact List.mem_append_left _ (List.mem_append_left _ h)
        · exact List.mem_append_right _ h
      rw [index_spec, if_pos hanew, hnew, ← hi', hold]
      congr 1
      exact idxOf_insert_shift _ _ _ a (fun h => hnot a ha ((mem_dedup _ _).1 h))
    · rw [if_neg ha] at hi; cases hi

/-! ## Non-vacuity and the refutations of the changed code -/

/-- a list with a repeated id and a repeated protocol that IS functional -/
def good : List Rec :=
  [⟨"1.17", 755, true⟩, ⟨"21w44a", 1073741872, false⟩, ⟨"1.18", 757, true⟩, ⟨"1.18.1", 757, true⟩,
   ⟨"1.18", 757, false⟩, ⟨"1.19", 759, true⟩]

example : IdsFunctional good ∧ ¬ IdsFunctional C08.sample := by decide +kernel

-- the agreement theorems are not vacuous: `good` has supported and release entries …
example : odGet (initKnown good).supportedVersions "1.18" = some 757 ∧
    odGet (initKnown good).knownVersions "1.18" = some 757 ∧
    odGet (initKnown good).releaseVersions "1.18.1" = some 757 ∧
    (initKnown good).supportedProtocols = [755, 757, 759] := by decide +kernel

-- … and the hypothesis cannot be dropped.  THE CHANGE THE AUDIT DESCRIBES (a supported id listed
-- again later with another number, `C08.sample`) passes every theorem of `Props/C08.lean`, but
-- violates the conclusions of `records_agree`, `tables_agree` and `projections_of_records`:
example :
    ¬ (∀ k v, odGet (initKnown C08.sample).supportedVersions k = some v →
        odGet (initKnown C08.sample).knownVersions k = some v) :=
  fun h => absurd (h "1.18" 757 (by decide +kernel)) (by decide +kernel)

example : ¬ (∀ r ∈ C08.sample, odGet (initKnown C08.sample).knownVersions r.id = some r.protocol) := by
  decide +kernel

example : (initKnown C08.sample).supportedVersions
    ≠ dedup (recPairs (C08.sample.filter (·.supported))) := by decide +kernel

-- (b) hypotheses satisfiable, and the predicates are NOT numeric across the two classes
example : 47 ∈ liveTables.knownProtocols ∧ 757 ∈ liveTables.knownProtocols ∧
    1073741825 ∈ liveTables.knownProtocols ∧ 1073741884 ∈ liveTables.knownProtocols := by
  decide +kernel
example : earlier liveTables 1073741825 754 = .ok true ∧ earlier liveTables 754 1073741825 = .ok false ∧
    earlier liveTables 47 757 = .ok true ∧ inRange liveTables 340 47 757 = .ok true := by
  decide +kernel
-- a list on which the selected class is NOT increasing fails the conclusion
example : earlier (initKnown [⟨"b", 20, true⟩, ⟨"a", 10, true⟩]) 10 20 = .ok false := by
  decide +kernel

-- (c) non-trivial lists
example : liveTables.releaseProtocols.length = 32 ∧ 100 ≤ liveTables.supportedProtocols.length := by
  decide +kernel
-- a (made-up) list whose release numbers come out of chronological order exists, so (c) is a fact
-- about the data, not about `initglobals`
example : (initKnown [⟨"x", 5, true⟩, ⟨"1.1", 6, true⟩, ⟨"1.0", 5, true⟩]).releaseProtocols = [6, 5] ∧
    (initKnown [⟨"x", 5, true⟩, ⟨"1.1", 6, true⟩, ⟨"1.0", 5, true⟩]).supportedProtocols = [5, 6] := by
  decide +kernel

/-! ### (d): the two seeded changes -/

def r2 : List Rec := [⟨"1.17", 755, true⟩, ⟨"1.18", 757, true⟩]
def r2' : List Rec := r2 ++ [⟨"1.19", 759, true⟩]

/-- the history of `rebuild_after_history` with a context made before and one made after -/
def h2 : List Op := [.newCtx (some 757)] ++ .setRecords r2' :: .init true :: [.newCtx (some 759)]

-- the real code on this instance: as the theorems say
example :
    let w := runW Code.real (boot Code.real r2) h2
    tablesOf w = initKnown r2' ∧ utilDict w = (initKnown r2').indices ∧
    utilEarlier w 757 759 = .ok true ∧
    (step Code.real w (.call 0 .earlier 759 0)).2 = some (.ok true) ∧
    (step Code.real w (.call 1 .later 757 0)).2 = some (.ok true) ∧
    w.utilIdx = w.mc.indices := by decide +kernel

/-- SEEDED CHANGE C08-m2 (index dict rebound instead of updated in place) violates
`by_reference_transparent` (2., 4.) and `rebuild_after_history`: all seven tables of `minecraft`
are right, but `utility` still holds the import-time dict, so comparisons with the new version
raise `KeyError` — for the old context and for a context created after the rebuild. -/
example :
    let w := runW Code.m2 (boot Code.m2 r2) h2
    tablesOf w = initKnown r2' ∧
    utilDict w ≠ (initKnown r2').indices ∧
    w.utilIdx ≠ w.mc.indices ∧
    utilEarlier w 757 759 = .error .other ∧ earlier (initKnown r2') 757 759 = .ok true ∧
    (step Code.m2 w (.call 0 .earlier 759 0)).2 = some (.error .other) ∧
    predVal (initKnown r2') (some 757) .earlier 759 0 = .ok true ∧
    (step Code.m2 w (.call 1 .later 757 0)).2 = some (.error .other) ∧
    predVal (initKnown r2') (some 759) .later 757 0 = .ok true := by decide +kernel

def r3 : List Rec := [⟨"a", 10, true⟩, ⟨"b", 20, true⟩, ⟨"c", 30, false⟩, ⟨"d", 40, true⟩]
def r3' : List Rec :=
  [⟨"a", 10, true⟩, ⟨"x", 15, false⟩, ⟨"b", 20, true⟩, ⟨"c", 30, false⟩, ⟨"d", 40, true⟩]

/-- a context for version 20 is created and USED, then 15 is inserted before it and the tables
are rebuilt -/
def h3 : List Op :=
  [.newCtx (some 20), .call 0 .earlier 30 0] ++ .setRecords r3' :: .init true :: []

example :
    let w := runW Code.real (boot Code.real r3) h3
    (step Code.real w (.call 0 .earlier 20 0)).2 = some (.ok false) ∧
    (step Code.real w (.call 0 .laterEq 20 0)).2 = some (.ok true) ∧
    (step Code.real w (.call 0 .later 15 0)).2 = some (.ok true) := by decide +kernel

/-- SEEDED CHANGE C08-m3 (a context remembers the index of its own version) violates
`context_answers_current` / `rebuild_after_history`: the old context says 20 is earlier than 20,
not later-or-equal to 20, and both earlier-or-equal and later-or-equal to 15, where the rebuilt
order (`predVal (initKnown r3')`) says the opposite.  `insert_fresh` explains the off-by-one: the
index of 20 moved from 1 to 2. -/
example :
    let w := runW Code.m3 (boot Code.m3 r3) h3
    (step Code.m3 w (.call 0 .earlier 20 0)).2 = some (.ok true) ∧
    predVal (initKnown r3') (some 20) .earlier 20 0 = .ok false ∧
    (step Code.m3 w (.call 0 .laterEq 20 0)).2 = some (.ok false) ∧
    predVal (initKnown r3') (some 20) .laterEq 20 0 = .ok true ∧
    (step Code.m3 w (.call 0 .earlierEq 15 0)).2 = some (.ok true) ∧
    predVal (initKnown r3') (some 20) .earlierEq 15 0 = .ok false ∧
    index (initKnown r3) 20 = some 1 ∧ index (initKnown r3') 20 = some 2 := by decide +kernel

-- `insert_fresh` / `insert_order_unchanged`: hypotheses satisfiable (15 is new), conclusion
-- non-trivial (an index does move); and freshness is needed for the closed form: inserting a number
-- that occurs LATER in the list moves that version forward
example : (∀ p ∈ ([⟨"x", 15, false⟩] : List Rec).map (·.protocol),
      p ∉ (initKnown ([⟨"a", 10, true⟩] ++ [⟨"b", 20, true⟩, ⟨"c", 30, false⟩])).knownProtocols) ∧
    index (initKnown ([⟨"a", 10, true⟩] ++ [⟨"x", 15, false⟩] ++ [⟨"b", 20, true⟩])) 20 = some 2 := by
  decide +kernel
example : earlier (initKnown ([⟨"a", 10, true⟩] ++ [⟨"y", 30, false⟩] ++
      [⟨"b", 20, true⟩, ⟨"c", 30, false⟩])) 30 20 = .ok true ∧
    earlier (initKnown ([⟨"a", 10, true⟩] ++ [⟨"b", 20, true⟩, ⟨"c", 30, false⟩])) 30 20
      = .ok false := by decide +kernel

/-! ### The by-reference model against the live code

`Generated/C08Live.lean` (written by `harness/gen/c08live.py`) holds histories that were performed
on the REAL library, each on a fresh interpreter: import (shipped records), then
`KNOWN_MINECRAFT_VERSION_RECORDS[:] = recs; initglobals(True)`, then the listed actions; and what
the three modules showed at the end (answers of the calls, `KeyError` included; all tables as
`minecraft`, `utility` and `connection` see them; the `is` tests between their objects). -/

/-- The by-reference model of the real code, started from an import with the shipped records and
run over each recorded history, reproduces exactly what the live code showed — re-established on
every run from the regenerated table.  (A library with C08-m2 or C08-m3 applied yields a table
on which this fails.) -/
theorem model_eq_live_runs :
    ∀ h ∈ Gen.C08Live.liveRuns,
      observe Code.real liveRecords (.setRecords h.1 :: .init true :: h.2.1) = h.2.2 := by
  decide +kernel

example : Gen.C08Live.liveRuns.length ≥ 20 := by decide +kernel

-- the same table is NOT reproduced by the models of the two seeded changes (for C08-m2 the model is
-- imported with the history's own records instead of the 450 shipped ones, to keep the kernel
-- evaluation short; for the real code that makes no difference, `restart_is_import`)
example : ¬ ∀ h ∈ Gen.C08Live.liveRuns,
    observe Code.m2 h.1 (.setRecords h.1 :: .init true :: h.2.1) = h.2.2 := by
  decide +kernel
example : ¬ ∀ h ∈ Gen.C08Live.liveRuns,
    observe Code.m3 liveRecords (.setRecords h.1 :: .init true :: h.2.1) = h.2.2 := by
  decide +kernel

end PyCraft.C08Live
