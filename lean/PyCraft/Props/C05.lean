import PyCraft.Lemmas.Custom
import PyCraft.Lemmas.Layout
import PyCraft.Lemmas.LayoutTables
import PyCraft.Props.C02
/-!
# C05 (generic part) — packets declared as a list of typed fields round-trip

Model: `Model/Layout.lean` (`Packet.read` / `Packet.write_fields` over a `definition`), on top of
`Model/Wire.lean` (the field types, arbitrarily nested arrays included) and `Model/Custom.lean` (the
real codec of `Position`, `ChunkSectionPos`, the two `Record`s, `EffectPosition`, `Pitch`).  Helper
lemmas are in `Lemmas/Custom.lean`, `Lemmas/Layout.lean`, `Lemmas/LayoutTables.lean`.

A layout is a PROGRAM: any list of fields, of any length, with any nesting of arrays — this covers
user-defined packets.  The generic theorems hold for any custom codec `cc` with domain `cw` obeying
`CustomLaw`; they are instantiated for the real codec (`…_real`) and, through `decide +kernel` on
Bool checkers, for every layout tabulated from the live code (`Generated/Layouts.lean`).

NBT (`pynbt`) is outside the model: `realDom .nbt _ = False`, so for a layout with an NBT field the
round-trip theorems are vacuous; those layouts are exactly the ones of `nbtClasses`.
The hand-written codecs (`none` in the table) are the other agent's `C05Hand`.
-/
namespace PyCraft.C05
open PyCraft PyCraft.Gen PyCraft.LayoutCheck

/-! ## the custom codecs obey the law C02 asks for, and C02 instantiated for them -/

/-- `Position`, `ChunkSectionPos`, both `Record` formats, `ExplosionPacket.Record`,
`EffectPosition` and `Pitch`: every in-domain value encodes to a NON-EMPTY byte string that is read
back exactly whatever follows, and every strict prefix of which makes the reader raise. -/
theorem real_custom_law : CustomLaw realCustom realDom := realCustomLaw

/-- C02 round trip with the real custom codec plugged in: any self-delimiting type (arrays of
positions, of records, … included), any in-domain value, any continuation. -/
theorem dec_enc_real (t : WType) (hs : t.selfDelimiting = true) (v : Value)
    (hw : WellTyped realDom t v) (rest : Bytes) :
    ∃ bs, encode realCustom t v = .ok bs ∧ decode realCustom t (bs ++ rest) = .ok (v, rest) :=
  C02.dec_enc realCustomLaw t hs v hw rest

theorem enc_total_real (t : WType) (v : Value) (hw : WellTyped realDom t v) :
    ∃ bs, encode realCustom t v = .ok bs := C02.enc_total realCustomLaw t v hw

theorem enc_nonempty_real (t : WType) (hs : t.selfDelimiting = true) (v : Value)
    (hw : WellTyped realDom t v) (bs : Bytes) (he : encode realCustom t v = .ok bs) : bs ≠ [] :=
  C02.enc_nonempty realCustomLaw t hs v hw bs he

theorem dec_prefix_err_real (t : WType) (hs : t.selfDelimiting = true) (v : Value)
    (hw : WellTyped realDom t v) (bs : Bytes) (he : encode realCustom t v = .ok bs)
    (p : Bytes) (hp : p <+: bs) (hne : p ≠ bs) : ∃ e, decode realCustom t p = .error e :=
  C02.dec_prefix_err realCustomLaw t hs v hw bs he p hp hne

/-- NBT is not modelled: both directions are an (unspecific) error and nothing is in its domain. -/
theorem nbt_not_modelled (v : Value) (bs : Bytes) :
    realCustom.enc .nbt v = .error .other ∧ realCustom.dec .nbt bs = .error .other ∧
    ¬ realDom .nbt v := ⟨rfl, rfl, fun h => h⟩

/-! ## every layout (= every program) -/

section generic
variable {cc : CustomCodec} {cw : CustomT → Value → Prop}

/-- Round trip of a packet body.  For ANY admissible layout (every field but the last
self-delimiting, the last self-delimiting or a bare trailing byte array) and any in-domain values:
writing succeeds; reading the written bytes returns exactly the values and consumes the payload
EXACTLY (nothing left); and when every field is self-delimiting, reading the bytes followed by
anything returns the values and leaves exactly what followed. -/
theorem layout_rt (law : CustomLaw cc cw) (L : Layout) (vals : List Value)
    (hok : L.ok = true) (hw : WellTypedFields cw L vals) :
    ∃ bs, encodeFields cc L vals = .ok bs ∧
      (L.allSD = true → ∀ rest, decodeFields cc L (bs ++ rest) = .ok (vals, rest)) ∧
      decodeFields cc L bs = .ok (vals, []) := by
  obtain ⟨bs, h1, h2⟩ := fields_exact law L vals hok hw
  refine ⟨bs, h1, fun hs rest => ?_, h2⟩
  obtain ⟨bs', e1, e2, _⟩ := fields_item law L vals hs hw
  rw [h1] at e1; cases e1
  exact e2 rest

/-- Writing never fails on in-domain values — for any layout at all, admissible or not. -/
theorem layout_enc_total (law : CustomLaw cc cw) (L : Layout) (vals : List Value)
    (hw : WellTypedFields cw L vals) : ∃ bs, encodeFields cc L vals = .ok bs :=
  fields_enc_total law L vals hw

/-- Truncation is detected: when every field is self-delimiting, reading ANY strict prefix of a
written body raises — it never yields a packet. -/
theorem layout_prefix_err (law : CustomLaw cc cw) (L : Layout) (vals : List Value)
    (hs : L.allSD = true) (hw : WellTypedFields cw L vals) (bs : Bytes)
    (he : encodeFields cc L vals = .ok bs) (p : Bytes) (hp : p <+: bs) (hne : p ≠ bs) :
    ∃ e, decodeFields cc L p = .error e := by
  obtain ⟨bs', e1, _, e3⟩ := fields_item law L vals hs hw
  rw [he] at e1; cases e1
  exact e3 p hp hne

/-- The body is the concatenation of the field encodings, in field order: nothing is added between
fields (`f v` names the encoding of the value at each position). -/
theorem layout_bytes (L : Layout) (vals : List Value) (f : WType → Value → Bytes)
    (h : ∀ p ∈ L.zip vals, encode cc p.1.2 p.2 = .ok (f p.1.2 p.2)) (hl : vals.length = L.length) :
    encodeFields cc L vals = .ok ((L.zip vals).map fun p => f p.1.2 p.2).flatten := by
  induction L generalizing vals with
  | nil =>
    cases vals with
    | nil => rfl
    | cons v vs => simp at hl
  | cons g L ih =>
    obtain ⟨n, t⟩ := g
    cases vals with
    | nil => simp at hl
    | cons v vs =>
      have h1 := h ((n, t), v) (by simp)
      have h2 := ih vs (fun p hp => h p (by simp [hp])) (by simpa using hl)
      rw [encodeFields_cons n t L v vs _ _ h1 h2]
      simp

/-- A value list whose length differs from the number of fields is never written. -/
theorem layout_length (L : Layout) (vals : List Value) (bs : Bytes)
    (h : encodeFields cc L vals = .ok bs) : vals.length = L.length :=
  encodeFields_length L vals bs h

/-- The same round trip at the level of the packet OBJECT (`getattr` / `setattr`): if every field's
attribute is set to an in-domain value, `write_fields` succeeds, and `read` of the written bytes
into ANY other instance (attributes `other`) consumes them exactly and leaves every field's attribute
equal to the original's — also when a name occurs in several fields — and every other attribute of
the instance untouched. -/
theorem packet_rt (law : CustomLaw cc cw) (L : Layout) (attrs other : Attrs) (hok : L.ok = true)
    (hw : ∀ f ∈ L, ∃ v, attrs.lookup f.1 = some v ∧ WellTyped cw f.2 v) :
    ∃ bs, writeFields cc attrs L = .ok bs ∧
      ∃ attrs', readFields cc L other bs = .ok (attrs', []) ∧
        (∀ f ∈ L, attrs'.lookup f.1 = attrs.lookup f.1) ∧
        (∀ n, n ∉ L.map (·.1) → attrs'.lookup n = other.lookup n) := by
  have hsome : ∀ f ∈ L, (attrs.lookup f.1).isSome = true := fun f hf => by
    obtain ⟨v, hv, _⟩ := hw f hf; simp [hv]
  obtain ⟨bs, h1, h2⟩ := fields_exact law L _ hok (wtf_fieldValues attrs L hw)
  obtain ⟨z1, z2⟩ := zip_fieldValues attrs L hsome
  refine ⟨bs, by rw [writeFields_eq cc attrs L hsome, h1], _, readFields_eq cc L other bs _ _ h2,
    fun f hf => ?_, fun n hn => ?_⟩
  · rw [lookup_setAll attrs _ other z1 f.1, z2, if_pos (List.mem_map.mpr ⟨f, hf, rfl⟩)]
  · rw [lookup_setAll attrs _ other z1 n, z2, if_neg hn]

/-- `write_fields` on an instance lacking the attribute of some field raises (`AttributeError`, or
the error of an earlier field's `send`) — it never produces a packet body. -/
theorem packet_missing_attr (L : Layout) (attrs : Attrs) (f : String × WType) (hf : f ∈ L)
    (hn : attrs.lookup f.1 = none) : ∃ e, writeFields cc attrs L = .error e :=
  writeFields_missing cc attrs L ⟨f, hf, hn⟩

end generic

/-! ### with the real custom codec -/

theorem layout_rt_real (L : Layout) (vals : List Value) (hok : L.ok = true)
    (hw : WellTypedFields realDom L vals) :
    ∃ bs, encodeFields realCustom L vals = .ok bs ∧
      (L.allSD = true → ∀ rest, decodeFields realCustom L (bs ++ rest) = .ok (vals, rest)) ∧
      decodeFields realCustom L bs = .ok (vals, []) := layout_rt realCustomLaw L vals hok hw

theorem layout_enc_total_real (L : Layout) (vals : List Value)
    (hw : WellTypedFields realDom L vals) : ∃ bs, encodeFields realCustom L vals = .ok bs :=
  layout_enc_total realCustomLaw L vals hw

theorem layout_prefix_err_real (L : Layout) (vals : List Value) (hs : L.allSD = true)
    (hw : WellTypedFields realDom L vals) (bs : Bytes)
    (he : encodeFields realCustom L vals = .ok bs) (p : Bytes) (hp : p <+: bs) (hne : p ≠ bs) :
    ∃ e, decodeFields realCustom L p = .error e :=
  layout_prefix_err realCustomLaw L vals hs hw bs he p hp hne

/-! ## the layouts tabulated from the live code -/

/-- (table, class, versions) of the generated layouts that contain an NBT field — the layouts about
which the model says nothing.  Computed from the table; reported, not asserted away. -/
def nbtClasses : List (String × String × List Nat) := nbtClassesOf layoutTables

/-- the classes of `nbtClasses` -/
def nbtClassNames : List (String × String) := [("cbPlay", "JoinGamePacket"), ("cbPlay", "RespawnPacket")]

/-- the classes with a hand-written `read` / `write_fields` (a class counts as hand-written when its
`read` or `write_fields` is not `Packet`'s own; the three `SpecialisedCombatEventPacket` subclasses
re-bind the generic ones and so have field layouts) -/
def handWrittenExpected : List (String × String) :=
  [("cbPlay", "CombatEventPacket"), ("cbPlay", "FacePlayerPacket"), ("cbPlay", "MapPacket"),
   ("cbPlay", "PlayerListItemPacket"), ("cbPlay", "SpawnObjectPacket"),
   ("sbLogin", "PluginResponsePacket")]

theorem checkEntries_ok : checkEntries idTables layoutTables = true := by decide +kernel
theorem checkCover_ok : checkCover idTables layoutTables = true := by decide +kernel
theorem checkLayouts_ok : checkLayouts layoutTables nbtClassNames = true := by decide +kernel

/-- For every state/direction table, every SUPPORTED protocol version and every packet class
registered for it: the class has an integer id, and the layout table has, under the same table name,
a row for the class with a variant — a list of typed fields, or `none` for a hand-written codec —
that lists this version.  So every packet the library can send or receive on a supported version is
covered either by the generic theorems of this file or by a hand-written model. -/
theorem every_supported_class_has_layout_or_hand_codec_and_id :
    ∀ t ∈ idTables, ∀ r ∈ t.2, r.2.1 = true → ∀ e ∈ r.2.2,
      (∃ i : Int, e.2 = some i) ∧
      ∃ rows, layoutTables.lookup t.1 = some rows ∧
        ∃ row ∈ rows, row.1 = e.1 ∧ ∃ var ∈ row.2, r.1 ∈ var.2 :=
  covered_of_checks idTables layoutTables checkEntries_ok checkCover_ok

/-- Every generated field layout is admissible (`Layout.ok`: a trailing byte array only in last
position, no array of trailing byte arrays), and contains an NBT field — the only type outside the
model — only for the classes of `nbtClassNames`. -/
theorem generated_layouts_ok :
    ∀ t ∈ layoutTables, ∀ row ∈ t.2, ∀ var ∈ row.2, ∀ L, var.1 = some L →
      Layout.ok L = true ∧ (Layout.hasNbt L = true → (t.1, row.1) ∈ nbtClassNames) :=
  checkLayouts_sound layoutTables nbtClassNames checkLayouts_ok

/-- … and both listed classes do have NBT layouts: the list is exact. -/
theorem nbt_classes_exact :
    ∀ x, x ∈ nbtClasses.map (fun y => (y.1, y.2.1)) ↔ x ∈ nbtClassNames :=
  sameSet_iff _ _ (by decide +kernel)

/-- The set of classes with a hand-written codec in the generated table is exactly
`handWrittenExpected`, and none of them also has a field layout in another version. -/
theorem hand_written_classes :
    (∀ x, x ∈ handWrittenOf layoutTables ↔ x ∈ handWrittenExpected) ∧
    ∀ x ∈ handWrittenOf layoutTables, x ∉ fieldClassesOf layoutTables := by
  have h : sameSet (handWrittenOf layoutTables) handWrittenExpected = true ∧
      ((handWrittenOf layoutTables).all fun x => !(fieldClassesOf layoutTables).contains x) = true := by
    decide +kernel
  refine ⟨sameSet_iff _ _ h.1, fun x hx hc => ?_⟩
  have := List.all_eq_true.mp h.2 x hx
  simp [hc] at this

/-- C05, generic part, on the live tables: EVERY generated field layout — every packet class of every
table whose codec is the generic one, under every protocol version it is registered for — round-trips
with the real custom codecs: writing in-domain values succeeds and reading them back yields equal
values and consumes the payload exactly.  (Vacuous exactly for the NBT layouts of `nbtClasses`, which
have no in-domain values; see `generated_layouts_inhabited` for all the others.) -/
theorem generated_layouts_rt :
    ∀ t ∈ layoutTables, ∀ row ∈ t.2, ∀ var ∈ row.2, ∀ L, var.1 = some L →
      ∀ vals, WellTypedFields realDom L vals →
        ∃ bs, encodeFields realCustom L vals = .ok bs ∧
          (Layout.allSD L = true → ∀ rest,
            decodeFields realCustom L (bs ++ rest) = .ok (vals, rest)) ∧
          decodeFields realCustom L bs = .ok (vals, []) := fun t ht row hrow var hvar L hL vals hw =>
  layout_rt_real L vals (generated_layouts_ok t ht row hrow var hvar L hL).1 hw

/-- Non-vacuity on the live tables: every generated layout WITHOUT an NBT field has in-domain
values (an explicit sample), so `generated_layouts_rt` says something about each of them. -/
theorem generated_layouts_inhabited :
    ∀ t ∈ layoutTables, ∀ row ∈ t.2, ∀ var ∈ row.2, ∀ L, var.1 = some L →
      (t.1, row.1) ∉ nbtClassNames → ∃ vals, WellTypedFields realDom L vals := by
  intro t ht row hrow var hvar L hL hn
  refine ⟨L.map fun f => sampleVal f.2, sample_wellTypedFields L ?_⟩
  cases h : Layout.hasNbt L with
  | false => rfl
  | true => exact absurd ((generated_layouts_ok t ht row hrow var hvar L hL).2 h) hn

/-! ## non-vacuity -/

/-- a three-field layout with a nested array and a custom type; in-domain values; the body -/
private def exL : Layout :=
  [("id", .varint), ("grid", .array .varint (.array .u8 (.custom (.position true)))),
   ("data", .trailing)]
private def exV : List Value :=
  [.int 300, .list [.list [Value.ofInts [1, 2, 3], Value.ofInts [-1, -2, -3]], .list []],
   .bytes [0xde, 0xad]]
private def exB : Bytes :=
  [0xac, 0x02, 2, 2, 0, 0, 0, 0x40, 0, 0, 0x30, 0x02, 0xff, 0xff, 0xff, 0xff, 0xff, 0xff, 0xdf, 0xfe,
   0, 0xde, 0xad]

private theorem exW : WellTypedFields realDom exL exV := by
  refine ⟨?_, ?_, ?_, True.intro⟩
  · show (0 : Int) ≤ 300 ∧ (300 : Int) < 2 ^ 32; omega
  · simp [WellTyped]; decide
  · exact True.intro

example : exL.ok = true ∧ exL.allSD = false := by decide
example : encodeFields realCustom exL exV = .ok exB := by decide +kernel
example : ∃ bs, encodeFields realCustom exL exV = .ok bs ∧ decodeFields realCustom exL bs = .ok (exV, []) := by
  obtain ⟨bs, h1, _, h3⟩ := layout_rt_real exL exV (by decide) exW
  exact ⟨bs, h1, h3⟩
example : ∃ bs, encodeFields realCustom exL exV = .ok bs := layout_enc_total_real exL exV exW

/-- the same without the trailing field: all fields self-delimiting -/
private def exL2 : Layout := exL.take 2
private theorem exW2 : WellTypedFields realDom exL2 (exV.take 2) := ⟨exW.1, exW.2.1, True.intro⟩
example : exL2.allSD = true := by decide
example : ∃ e, decodeFields realCustom exL2 (exB.take 10) = .error e :=
  layout_prefix_err_real exL2 (exV.take 2) (by decide) exW2 (exB.take 21) (by decide +kernel)
    (exB.take 10) (by decide) (by decide)
example : decodeFields realCustom exL2 (exB.take 21 ++ [9, 9]) = .ok (exV.take 2, [9, 9]) := by
  obtain ⟨bs, h1, h2, _⟩ := layout_rt_real exL2 (exV.take 2) (by decide) exW2
  have e : encodeFields realCustom exL2 (exV.take 2) = .ok (exB.take 21) := by decide +kernel
  rw [e] at h1; cases h1
  exact h2 (by decide) [9, 9]

/-- why `Layout.ok` excludes an ARRAY of trailing byte arrays even in last position: the first
element swallows the second -/
example : encodeFields noCustomCodec [("a", .array .varint .trailing)] [.list [.bytes [1], .bytes [2]]]
      = .ok [2, 1, 2] ∧
    decodeFields noCustomCodec [("a", .array .varint .trailing)] [2, 1, 2]
      = .ok ([.list [.bytes [1, 2], .bytes []]], []) := ⟨by decide +kernel, rfl⟩
/-- … and a trailing byte array that is not last: it swallows the following field -/
example : ∃ e, decodeFields noCustomCodec [("a", .trailing), ("b", .bool)] [7, 1] = .error e :=
  ⟨.struct, rfl⟩

/-- a packet object: attributes in any order, an unrelated attribute, a name used twice -/
example : ∃ bs, writeFields realCustom [("y", .int 2), ("zzz", .bool true), ("x", .int 1)]
      [("x", .varint), ("y", .int .i8), ("x", .varint)] = .ok bs ∧ bs = [1, 2, 1] :=
  ⟨_, by decide +kernel, rfl⟩
example : ∃ e, writeFields realCustom [("y", .int 2)] [("y", .int .i8), ("x", .varint)] = .error e :=
  packet_missing_attr _ _ ("x", .varint) (by decide) (by decide)

-- the generated tables are not trivial
example : (fieldLayouts layoutTables).length ≥ 80 := by decide +kernel
example : ∃ t ∈ idTables, ∃ r ∈ t.2, r.1 = 757 ∧ r.2.1 = true ∧ r.2.2.length ≥ 20 :=
  ⟨("cbPlay", cbPlay), by decide +kernel, by decide +kernel⟩

end PyCraft.C05
