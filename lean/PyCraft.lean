import PyCraft.Basic
import PyCraft.Model.VarInt
