"""Forced interleavings at line granularity (development of the scheduler idea for code that has no lock or I/O call to
hook): run `fa()` under `sys.settrace` and, at the k-th traced line event inside the files selected by `in_scope`, run
`fb()` to completion — what a second thread preempting `fa` at that point and running undisturbed would do — then let
`fa` continue.  Sound as a simulation of two threads as long as `fb` needs no lock that `fa` holds at that point and
neither relies on thread-local state; deterministic; bounded by the number of line events of `fa`."""
import sys


def run_interrupted(fa, fb, k, in_scope, when=None):
    """returns (fired, n_events, result_of_fa, result_of_fb)"""
    count = [0]
    fired = [False]
    out = [None, None]

    def tracer(frame, event, arg):
        if not in_scope(frame.f_code.co_filename):
            return None
        if event == 'line' and (when is None or when()):
            if count[0] == k and not fired[0]:
                fired[0] = True
                sys.settrace(None)
                try:
                    out[1] = fb()
                finally:
                    sys.settrace(tracer)
            count[0] += 1
        return tracer
    old = sys.gettrace()
    sys.settrace(tracer)
    try:
        out[0] = fa()
    finally:
        sys.settrace(old)
    return fired[0], count[0], out[0], out[1]


def every_point(make, in_scope, limit=400, when_of=None):
    """`make()` -> (fa, fb, judge): fresh state per interleaving point; yields (k, judge()) for k = 0, 1, … while the
    interruption point exists"""
    k = 0
    while k < limit:
        made = make()
        fa, fb, judge = made[:3]
        fired, n, _, _ = run_interrupted(fa, fb, k, in_scope, made[3] if len(made) > 3 else None)
        if not fired:
            judge()             # (lets the scenario clean up after itself; the result is that of an undisturbed run)
            return
        yield k, judge()
        k += 1
