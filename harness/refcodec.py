"""Small independent encoder/decoder written from the protocol description.  Imports nothing from
`minecraft`.  Used as the property oracle's notion of "what the protocol prescribes", to play the
server, and to parse what the client wrote."""
import struct
import zlib


def varint(n):
    assert n >= 0
    out = bytearray()
    while True:
        g = n % 128
        n //= 128
        if n:
            out.append(g + 128)
        else:
            out.append(g)
            return bytes(out)


def read_varint(buf, pos=0, maxlen=5):
    """-> (value, newpos); raises EOFError / ValueError."""
    val = 0
    for i in range(maxlen + 1):
        if pos >= len(buf):
            raise EOFError
        b = buf[pos]
        pos += 1
        val += (b % 128) * (128 ** i)
        if b < 128:
            return val, pos
    raise ValueError('too long')


def string(s):
    b = s.encode('utf-8')
    return varint(len(b)) + b


def read_string(buf, pos):
    n, pos = read_varint(buf, pos)
    if pos + n > len(buf):
        raise EOFError
    return buf[pos:pos + n].decode('utf-8'), pos + n


def be(n, width):
    """big-endian two's complement of n in `width` bytes"""
    return (n % (1 << (8 * width))).to_bytes(width, 'big')


def frame(payload, threshold=None, ge=False):
    """payload = id varint + fields.  threshold None = compression disabled.
    ge=False: deflate when len > threshold (pyCraft's own writer); ge=True: when len >= threshold (what
    vanilla servers and proxies do -- both are valid streams, a reader must accept either)."""
    if threshold is None:
        body = payload
    elif threshold >= 0 and (len(payload) >= threshold if ge else len(payload) > threshold):
        body = varint(len(payload)) + zlib.compress(payload)
    else:
        body = varint(0) + payload
    return varint(len(body)) + body


def parse_frames(buf, compressed=False):
    """Split a byte stream into (id, payload-after-id) pairs; returns (frames, leftover)."""
    out = []
    pos = 0
    while pos < len(buf):
        try:
            n, p2 = read_varint(buf, pos)
        except EOFError:
            break
        if p2 + n > len(buf):
            break
        body = buf[p2:p2 + n]
        pos = p2 + n
        if compressed:
            dl, q = read_varint(body, 0)
            body = body[q:]
            if dl:
                body = zlib.decompress(body)
                assert len(body) == dl
        pid, q = read_varint(body, 0)
        out.append((pid, body[q:]))
    return out, buf[pos:]


# ----------------------------------------------------------------------------------------------
# AES-128 (encryption direction only, FIPS-197) and CFB8, written from the standards; independent
# of `cryptography` and of the Lean model.

def _xtime(a):
    a <<= 1
    return (a ^ 0x11b) & 0xff if a & 0x100 else a


def _gmul(a, b):
    r = 0
    while b:
        if b & 1:
            r ^= a
        a = _xtime(a)
        b >>= 1
    return r


def _make_sbox():
    # multiplicative inverse in GF(2^8) followed by the affine map
    inv = [0] * 256
    for a in range(1, 256):
        for b in range(1, 256):
            if _gmul(a, b) == 1:
                inv[a] = b
                break
    box = []
    for a in range(256):
        x = inv[a]
        y = x
        for i in range(1, 5):
            y ^= ((x << i) | (x >> (8 - i))) & 0xff
        box.append(y ^ 0x63)
    return box


_SBOX = _make_sbox()
_MUL2 = [_gmul(x, 2) for x in range(256)]      # tables of the same field arithmetic (speed only)
_MUL3 = [_gmul(x, 3) for x in range(256)]
_RK_CACHE = {}


def _round_keys(key):
    rk = _RK_CACHE.get(key)
    if rk is None:
        w = [list(key[4 * i:4 * i + 4]) for i in range(4)]
        rcon = 1
        for i in range(4, 44):
            t = list(w[i - 1])
            if i % 4 == 0:
                t = t[1:] + t[:1]
                t = [_SBOX[x] for x in t]
                t[0] ^= rcon
                rcon = _xtime(rcon)
            w.append([a ^ b for a, b in zip(w[i - 4], t)])
        rk = [sum((w[4 * r + c] for c in range(4)), []) for r in range(11)]
        if len(_RK_CACHE) > 64:
            _RK_CACHE.clear()
        _RK_CACHE[key] = rk
    return rk


def aes128_encrypt_block(key, block):
    assert len(key) == 16 and len(block) == 16
    rk = _round_keys(bytes(key))
    s = [b ^ k for b, k in zip(block, rk[0])]
    for r in range(1, 11):
        s = [_SBOX[x] for x in s]
        s = [s[(i + 4 * (i % 4)) % 16] for i in range(16)]          # ShiftRows (column-major state)
        if r != 10:
            t = []
            for c in range(4):
                a = s[4 * c:4 * c + 4]
                t += [_MUL2[a[0]] ^ _MUL3[a[1]] ^ a[2] ^ a[3],
                      a[0] ^ _MUL2[a[1]] ^ _MUL3[a[2]] ^ a[3],
                      a[0] ^ a[1] ^ _MUL2[a[2]] ^ _MUL3[a[3]],
                      _MUL3[a[0]] ^ a[1] ^ a[2] ^ _MUL2[a[3]]]
            s = t
        s = [b ^ k for b, k in zip(s, rk[r])]
    return bytes(s)


class CFB8:
    """one direction of an AES-128-CFB8 stream (encrypt=True/False), key = iv = secret by default"""

    def __init__(self, key, iv=None, encrypt=True):
        self.key = bytes(key)
        self.reg = bytes(iv if iv is not None else key)
        self.encrypt = encrypt

    def update(self, data):
        out = bytearray()
        for b in data:
            k = aes128_encrypt_block(self.key, self.reg)[0]
            o = b ^ k
            c = o if self.encrypt else b
            self.reg = self.reg[1:] + bytes([c])
            out.append(o)
        return bytes(out)


def rsa_pkcs1v15_decrypt(key, ct):
    """key: dict(n, e, d). Textbook RSA + PKCS#1 v1.5 type-2 unpadding."""
    k = (key['n'].bit_length() + 7) // 8
    assert len(ct) == k
    m = pow(int.from_bytes(ct, 'big'), key['d'], key['n']).to_bytes(k, 'big')
    if m[0] != 0 or m[1] != 2:
        raise ValueError('bad padding')
    i = m.index(0, 2)
    if i < 10:
        raise ValueError('padding too short')
    return m[i + 1:]
