"""Small independent encoder/decoder written from the protocol description.  Imports nothing from
`minecraft`.  Used as the property oracle's notion of "what the protocol prescribes", to play the
server, and to parse what the client wrote."""
import struct
import zlib


def varint(n):
    assert n >= 0
    out = bytearray()
    while True:
        g = n % 128
        n //= 128
        if n:
            out.append(g + 128)
        else:
            out.append(g)
            return bytes(out)


def read_varint(buf, pos=0, maxlen=5):
    """-> (value, newpos); raises EOFError / ValueError."""
    val = 0
    for i in range(maxlen + 1):
        if pos >= len(buf):
            raise EOFError
        b = buf[pos]
        pos += 1
        val += (b % 128) * (128 ** i)
        if b < 128:
            return val, pos
    raise ValueError('too long')


def string(s):
    b = s.encode('utf-8')
    return varint(len(b)) + b


def read_string(buf, pos):
    n, pos = read_varint(buf, pos)
    if pos + n > len(buf):
        raise EOFError
    return buf[pos:pos + n].decode('utf-8'), pos + n


def be(n, width):
    """big-endian two's complement of n in `width` bytes"""
    return (n % (1 << (8 * width))).to_bytes(width, 'big')


def frame(payload, threshold=None):
    """payload = id varint + fields.  threshold None = compression disabled."""
    if threshold is None:
        body = payload
    elif threshold >= 0 and len(payload) > threshold:
        body = varint(len(payload)) + zlib.compress(payload)
    else:
        body = varint(0) + payload
    return varint(len(body)) + body


def parse_frames(buf, compressed=False):
    """Split a byte stream into (id, payload-after-id) pairs; returns (frames, leftover)."""
    out = []
    pos = 0
    while pos < len(buf):
        try:
            n, p2 = read_varint(buf, pos)
        except EOFError:
            break
        if p2 + n > len(buf):
            break
        body = buf[p2:p2 + n]
        pos = p2 + n
        if compressed:
            dl, q = read_varint(body, 0)
            body = body[q:]
            if dl:
                body = zlib.decompress(body)
                assert len(body) == dl
        pid, q = read_varint(body, 0)
        out.append((pid, body[q:]))
    return out, buf[pos:]
