"""Shared machinery of the pyCraft checks: Lean build + stranger's audit, the line-protocol
driver, case bookkeeping, known findings, the decision rule (DESIGN.md section 3.4) and evidence.

Runs under /venv/bin/python (pyCraft's own interpreter).  Nothing here imports `minecraft`;
the per-property modules in corr/ do.
"""
import fcntl
import hashlib
import json
import os
import random
import re
import subprocess
import sys
import time

sys.dont_write_bytecode = True

VERIF = os.path.dirname(os.path.dirname(os.path.abspath(__file__)))
LEAN = os.path.join(VERIF, 'lean')
REPO = os.environ.get('PYCRAFT_REPO', '/repo')
EVIDENCE = os.path.join(VERIF, 'evidence')
REPLAYS = os.path.join(VERIF, 'replays')
CORPUS = os.path.join(VERIF, 'corpus')
LOCK = os.path.join(LEAN, '.build.lock')

ALLOWED_AXIOMS = {'propext', 'Classical.choice', 'Quot.sound'}
FORBIDDEN = re.compile(
    r'\bsorry\b|\badmit\b|^\s*axiom\s|native_decide|bv_decide|implemented_by|\bunsafe\s'
    r'|maxHeartbeats\s+0\b', re.M)

TRUSTED_BASE = [
    "Lean 4.33.0 kernel; axioms of every property theorem within {propext, Classical.choice, "
    "Quot.sound} (audited by #print axioms on every run); no sorry/native_decide/bv_decide",
    "the hand-written Lean model is tied to the Python code only by the correspondence run "
    "(differential testing; volumes in this file) and, for tables, by total tabulation "
    "(harness/extract.py evaluating the live functions on the whole finite domain)",
    "CPython, struct, zlib, json, re, hashlib, cryptography, requests, pynbt taken as given",
]


def repo_setup():
    """Make `import minecraft` resolve to REPO's working tree, without writing bytecode."""
    if REPO not in sys.path:
        sys.path.insert(0, REPO)
    for k in [k for k in sys.modules if k == 'minecraft' or k.startswith('minecraft.')]:
        del sys.modules[k]
    import minecraft  # noqa
    assert os.path.abspath(minecraft.__file__).startswith(os.path.abspath(REPO)), minecraft.__file__
    return minecraft


class InfraError(Exception):
    """The checker's own environment failed (exit code 2, never a violation)."""


# --------------------------------------------------------------------------- Lean side

class BuildLock:
    def __enter__(self):
        self.f = open(LOCK, 'w')
        fcntl.flock(self.f, fcntl.LOCK_EX)
        return self

    def __exit__(self, *a):
        fcntl.flock(self.f, fcntl.LOCK_UN)
        self.f.close()


def _run(cmd, cwd=LEAN, timeout=3600, input=None):
    try:
        p = subprocess.run(cmd, cwd=cwd, capture_output=True, text=True, timeout=timeout,
                           input=input)
    except FileNotFoundError as e:
        raise InfraError('cannot run %r: %s' % (cmd, e))
    except subprocess.TimeoutExpired:
        raise InfraError('timeout running %r' % (cmd,))
    return p.returncode, p.stdout + p.stderr


def write_if_changed(path, content):
    try:
        if open(path).read() == content:
            return False
    except OSError:
        pass
    os.makedirs(os.path.dirname(path), exist_ok=True)
    tmp = path + '.tmp%d' % os.getpid()
    with open(tmp, 'w') as f:
        f.write(content)
    os.replace(tmp, path)
    return True


def strip_comments(src):
    """Remove Lean block comments (nested) and line comments."""
    out, i, depth = [], 0, 0
    while i < len(src):
        if src.startswith('/-', i):
            depth += 1
            i += 2
        elif depth and src.startswith('-/', i):
            depth -= 1
            i += 2
        elif depth:
            if src[i] == '\n':
                out.append('\n')
            i += 1
        elif src.startswith('--', i):
            j = src.find('\n', i)
            i = len(src) if j < 0 else j
        else:
            out.append(src[i])
            i += 1
    return ''.join(out)


def lean_sources():
    """the Lean files that are part of the library: everything reachable through imports from
    PyCraft/All.lean and Driver.lean (a file that nothing imports cannot influence any theorem)"""
    seen, todo = set(), [os.path.join(LEAN, 'PyCraft', 'All.lean'), os.path.join(LEAN, 'Driver.lean'),
                         os.path.join(LEAN, 'PyCraft.lean')]
    while todo:
        p = todo.pop()
        if p in seen or not os.path.exists(p):
            continue
        seen.add(p)
        for m in re.finditer(r'^import\s+(PyCraft(?:\.[A-Za-z0-9_]+)*)', open(p).read(), re.M):
            todo.append(os.path.join(LEAN, *m.group(1).split('.')) + '.lean')
    return sorted(seen)


def grep_forbidden():
    hits = []
    for p in lean_sources():
        if '/Audit/' in p:
            continue
        src = strip_comments(open(p).read())
        for m in FORBIDDEN.finditer(src):
            line = src.count('\n', 0, m.start()) + 1
            hits.append('%s:%d: %s' % (os.path.relpath(p, LEAN), line, m.group(0).strip()))
    return hits


THEOREM_RE = re.compile(r'^theorem\s+([^\s:({\[]+)', re.M)   # `private theorem` = example helper, not a property theorem
NAMESPACE_RE = re.compile(r'^namespace\s+(\S+)', re.M)


def theorems_of(prop_file):
    """(qualified name, line) of every theorem in a Props file (single leading namespace)."""
    src = open(prop_file).read()
    stripped = strip_comments(src)
    ns = NAMESPACE_RE.search(stripped)
    prefix = (ns.group(1) + '.') if ns else ''
    res = []
    for m in THEOREM_RE.finditer(stripped):
        line = stripped.count('\n', 0, m.start()) + 1
        res.append((prefix + m.group(1), line))
    n_examples = len(re.findall(r'^example\b', stripped, re.M))
    return res, n_examples


def lake_build(targets):
    """Build under the lock.  Returns (ok, output)."""
    with BuildLock():
        rc, out = _run(['lake', 'build'] + list(targets), timeout=3000)
    return rc == 0, out


def build_and_audit(pid, extra_targets=(), extra_props=()):
    """Build Props/<pid>.lean and audit its theorems.

    Returns dict: theorems (list of names), failed (dict name -> reason), axioms (dict name -> list),
    examples (int), build_output (str, on failure), forbidden (list)."""
    prop_mod = 'PyCraft.Props.%s' % pid
    prop_file = os.path.join(LEAN, 'PyCraft', 'Props', '%s.lean' % pid)
    thms, n_examples = theorems_of(prop_file)
    prop_mods = [prop_mod]
    for ep in extra_props:      # further Props files belonging to the same property (e.g. C05Hand)
        t2, n2 = theorems_of(os.path.join(LEAN, 'PyCraft', 'Props', '%s.lean' % ep))
        thms += t2
        n_examples += n2
        prop_mods.append('PyCraft.Props.%s' % ep)
    res = {'theorems': [t for t, _ in thms], 'failed': {}, 'axioms': {}, 'examples': n_examples,
           'forbidden': grep_forbidden(), 'build_output': ''}
    ok, out = lake_build(prop_mods + ['driver'] + list(extra_targets))
    if not ok:
        res['build_output'] = out[-6000:]
        # attribute errors: positions inside the Props file -> the enclosing theorem; errors in any
        # other module (a regenerated table that no longer satisfies a `decide`, a generated file
        # that no longer type-checks) -> every theorem of this property is unproved
        rel = os.path.join('PyCraft', 'Props', '%s.lean' % pid)
        here, elsewhere = [], []
        for m in re.finditer(r'^(?:error: )?(\S+\.lean):(\d+):(\d+): error', out, re.M):
            (here if m.group(1).endswith(rel) else elsewhere).append((m.group(1), int(m.group(2))))
        if elsewhere or not here:
            why = 'dependency failed: ' + ', '.join(sorted({f for f, _ in elsewhere})[:4]) \
                if elsewhere else 'build failed'
            # theorems of the Props file itself cannot be checked when an import fails
            for t, _ in thms:
                res['failed'][t] = why
        else:
            for f, line in here:
                owner = None
                for t, l in thms:
                    if l <= line:
                        owner = t
                res['failed'][owner or '<example/other at line %d>' % line] = \
                    'does not check (line %d)' % line
        return res
    # audit axioms
    audit = ''.join('import %s\n' % m for m in prop_mods) + ''.join('#print axioms %s\n' % t for t, _ in thms)
    apath = os.path.join(LEAN, 'PyCraft', 'Audit', '%s.lean' % pid)
    write_if_changed(apath, audit)
    with BuildLock():
        rc, out = _run(['lake', 'env', 'lean', apath], timeout=900)
    if rc != 0:
        res['build_output'] = out[-4000:]
        for t, _ in thms:
            res['failed'][t] = 'axiom audit failed to run'
        return res
    # parse "'name' depends on axioms: [a, b]" / "'name' does not depend on any axioms"
    flat = re.sub(r'\s+', ' ', out)
    for t, _ in thms:
        m = re.search(r"'%s' depends on axioms: \[([^\]]*)\]" % re.escape(t), flat)
        if m:
            ax = [a.strip() for a in m.group(1).split(',') if a.strip()]
        elif re.search(r"'%s' does not depend on any axioms" % re.escape(t), flat):
            ax = []
        else:
            res['failed'][t] = 'no axiom report'
            continue
        res['axioms'][t] = ax
        bad = [a for a in ax if a not in ALLOWED_AXIOMS]
        if bad:
            res['failed'][t] = 'depends on non-standard axioms %s' % bad
    for h in res['forbidden']:
        res['failed']['<source audit> ' + h] = 'forbidden token'
    return res


def leanchecker(pid):
    """Thorough tier: independent replay of the compiled property module."""
    rc, out = _run(['lake', 'env', 'leanchecker', 'PyCraft.Props.%s' % pid], timeout=3000)
    return rc == 0, out[-2000:]


class Driver:
    """Batch access to the Lean model's executable definitions."""

    def __init__(self):
        self.exe = os.path.join(LEAN, '.lake', 'build', 'bin', 'driver')
        self.lines = 0

    def ask(self, lines):
        if not lines:
            return []
        for l in lines:
            assert '\n' not in l
        data = '\n'.join(lines) + '\n'
        if os.path.exists(self.exe):
            cmd = [self.exe]
        else:
            cmd = ['lake', 'env', 'lean', '--run', 'Driver.lean']
        rc, out = _run(cmd, input=data, timeout=3000)
        outs = out.split('\n')
        if outs and outs[-1] == '':
            outs.pop()
        if rc != 0 or len(outs) != len(lines):
            raise InfraError('driver failed rc=%s: got %d lines for %d requests: %s'
                             % (rc, len(outs), len(lines), out[-500:]))
        self.lines += len(lines)
        return outs


def hx(b):
    b = bytes(b)
    return b.hex() if b else '-'


def unhx(s):
    return b'' if s == '-' else bytes.fromhex(s)


# --------------------------------------------------------------------------- bookkeeping

class Ctx:
    def __init__(self, pid, tier, seed):
        self.pid, self.tier, self.seed = pid, tier, seed
        self.rng = random.Random('%s/%s' % (pid, seed))
        self.t0 = time.time()
        self.driver = Driver()
        self.evaluations = 0
        self.distinct = set()
        self.samples = []
        self.dist = {}            # input-distribution counters
        self.disagreements = []   # model vs implementation
        self.violations = []      # property oracle false on the implementation
        self.known_hits = []
        self.notes = []
        self.extra = {}
        self.searching = False
        self.known = load_known(pid)

    @property
    def thorough(self):
        return self.tier == 'thorough'

    def scale(self, quick, thorough):
        # the failing-input search after a broken proof/correspondence uses the thorough volumes
        return thorough if (self.thorough or self.searching) else quick

    def count(self, key, n=1):
        self.dist[key] = self.dist.get(key, 0) + n

    def case(self, key, nontrivial=True, sample=None):
        """Record one explored case; `key` identifies it for the distinct count."""
        self.evaluations += 1
        if nontrivial:
            self.distinct.add(hashlib.blake2b(repr(key).encode(), digest_size=8).digest())
        if sample is not None and len(self.samples) < 12 and \
                (len(self.samples) < 4 or self.rng.random() < 0.02):
            self.samples.append(sample)

    def disagree(self, what, case, model, impl):
        if len(self.disagreements) < 50:
            self.disagreements.append({'what': what, 'case': case, 'model': model, 'impl': impl})
        self.count('disagreements')

    def violation(self, what, case, key=None):
        """The property itself fails on the implementation for `case`.  `key` is matched against
        known_findings.json (entries with kind == 'known')."""
        for k in self.known:
            if k.get('kind') == 'known' and key is not None and k.get('key') == key:
                hit = (json.dumps(key, sort_keys=True), k.get('what', what))
                if hit not in self.known_hits:
                    self.known_hits.append(hit)
                return
        if len(self.violations) < 50:
            self.violations.append({'what': what, 'case': case, 'key': key})
        self.count('violations')


def load_known(pid):
    p = os.path.join(VERIF, 'known_findings.json')
    try:
        data = json.load(open(p))
    except OSError:
        return []
    return [e for e in data.get('findings', []) if e.get('property') == pid]


def finish(ctx, audit, level_extra=None, checker_cmd=None):
    """Apply the decision rule, write evidence and replay, print the verdict, return exit code."""
    pid = ctx.pid
    os.makedirs(EVIDENCE, exist_ok=True)
    thms = audit['theorems']
    failed = audit['failed']
    obligations = len(thms) + audit['examples']
    if any(str(w).startswith(('dependency failed', 'build failed', 'axiom audit')) for w in failed.values()):
        discharged = 0
    else:
        discharged = max(0, obligations - len(failed))
    for key, what in ctx.known_hits:
        print('KNOWN-FINDING: property=%s %s' % (pid, what))
    broken_tie = bool(failed) or bool(ctx.disagreements)
    code = 0
    replay = None
    if ctx.violations:
        code = 1
        replay = {'property': pid, 'kind': 'concrete-violation', 'violations': ctx.violations[:10],
                  'seed': ctx.seed, 'tier': ctx.tier}
        tail = ''
    elif broken_tie:
        code = 1
        replay = {'property': pid, 'kind': 'unproved', 'seed': ctx.seed, 'tier': ctx.tier,
                  'theorems_not_checking': failed,
                  'correspondence_disagreements': ctx.disagreements[:10],
                  'build_output': audit.get('build_output', '')[-3000:],
                  'note': 'the property is no longer shown to hold; the search over the '
                          'implementation found no concrete failing input'}
        tail = ' no-failing-input-found'
    if replay is not None:
        os.makedirs(REPLAYS, exist_ok=True)
        rp = os.path.join(REPLAYS, '%s_%s_%d.json' % (pid, ctx.tier, ctx.seed))
        with open(rp, 'w') as f:
            json.dump(replay, f, indent=1, default=str)
    cov = {
        'obligations': obligations,
        'discharged': discharged,
        'checker_cmd': checker_cmd or
        'cd lean && lake build PyCraft.Props.%s && lake env lean PyCraft/Audit/%s.lean' % (pid, pid),
        'trusted_base': TRUSTED_BASE,
        'theorems': thms,
        'axioms': audit['axioms'],
        'theorems_failed': failed,
        'evaluations': ctx.evaluations,
        'distinct_nontrivial': len(ctx.distinct),
        'rule': ctx.extra.pop('rule', 'see DESIGN.md section 5'),
        'samples': ctx.samples[:12] or ['(no correspondence cases ran)'],
        'traces_validated_against_impl': ctx.extra.pop('traces', ctx.evaluations),
        'model_driver_lines': ctx.driver.lines,
        'input_distribution': dict(sorted(ctx.dist.items())),
        'correspondence_disagreements': len(ctx.disagreements),
        'known_findings_hit': [w for _, w in ctx.known_hits],
        'notes': ctx.notes,
    }
    cov.update(ctx.extra)
    if level_extra:
        cov.update(level_extra)
    ev = {'property_id': pid, 'tier': ctx.tier, 'seed': ctx.seed, 'level': 'proof',
          'coverage': cov,
          'assumptions': TRUSTED_BASE,
          'wall_s': round(time.time() - ctx.t0, 2),
          'violations': len(ctx.violations) + (1 if (broken_tie and not ctx.violations) else 0)}
    with open(os.path.join(EVIDENCE, '%s.json' % pid), 'w') as f:
        json.dump(ev, f, indent=1, default=str)
    if code:
        print('VIOLATION property=%s replay=%s%s' % (pid, os.path.relpath(rp, VERIF), tail))
        for v in ctx.violations[:3]:
            print('  violation:', v['what'], json.dumps(v['case'], default=str)[:300])
        for t, why in list(failed.items())[:5]:
            print('  theorem not checking:', t, '-', why)
        for d in ctx.disagreements[:3]:
            print('  model/impl disagree:', json.dumps(d, default=str)[:400])
    else:
        print('OK property=%s tier=%s seed=%d obligations=%d/%d cases=%d distinct=%d wall=%.1fs'
              % (pid, ctx.tier, ctx.seed, discharged, obligations, ctx.evaluations,
                 len(ctx.distinct), time.time() - ctx.t0))
    return code
