#!/venv/bin/python
"""Source fingerprints of the files each property is anchored in (properties.jsonl `anchors.files`).

The fingerprint (hash of the AST with docstrings removed — insensitive to comments/formatting) is NOT
a verdict: a mismatch only tells a check that modelled code has changed since the models were last
validated, and the check then runs its correspondence and oracle with the thorough-tier volumes (the
failing-input search) even in the quick tier.  `fingerprint.py --update` records the current state
(run when the models have been re-validated against the tree)."""
import ast
import hashlib
import json
import os
import sys

V = os.path.dirname(os.path.dirname(os.path.abspath(__file__)))
STORE = os.path.join(V, 'harness', 'fingerprints.json')
REPO = os.environ.get('PYCRAFT_REPO', '/repo')


def strip_docstrings(tree):
    for node in ast.walk(tree):
        if isinstance(node, (ast.Module, ast.ClassDef, ast.FunctionDef, ast.AsyncFunctionDef)):
            b = node.body
            if b and isinstance(b[0], ast.Expr) and isinstance(getattr(b[0], 'value', None), ast.Constant) \
                    and isinstance(b[0].value.value, str):
                node.body = b[1:] or [ast.Pass()]
    return tree


def file_hash(path):
    try:
        src = open(path, encoding='utf-8').read()
        return hashlib.sha256(ast.dump(strip_docstrings(ast.parse(src))).encode()).hexdigest()[:16]
    except (OSError, SyntaxError) as e:
        return 'unreadable:%s' % type(e).__name__


def anchors():
    res = {}
    for line in open(os.path.join(V, 'properties.jsonl')):
        p = json.loads(line)
        res[p['id']] = sorted(set(p['anchors']['files']))
    return res


def current():
    return {pid: {f: file_hash(os.path.join(REPO, f)) for f in files} for pid, files in anchors().items()}


def changed(pid):
    """files of property `pid` whose fingerprint differs from the recorded one"""
    try:
        rec = json.load(open(STORE))
    except OSError:
        return ['<no fingerprints recorded>']
    cur = current().get(pid, {})
    old = rec.get(pid, {})
    return sorted(f for f in set(cur) | set(old) if cur.get(f) != old.get(f))


if __name__ == '__main__':
    if '--update' in sys.argv:
        json.dump(current(), open(STORE, 'w'), indent=1, sort_keys=True)
        print('recorded fingerprints of', sum(len(v) for v in current().values()), 'anchor files')
    else:
        for pid in sorted(anchors()):
            c = changed(pid)
            if c:
                print(pid, 'changed:', c)
