"""Reference table of the CORE packets (ids and field layouts) for every Minecraft release protocol
that pyCraft's README lists as supported, written from the published protocol documentation
(wiki.vg protocol pages and their version history) — from memory, offline.  It imports nothing from
`minecraft` and shares no code with pyCraft.  Used by C07 (compared with pyCraft's tables in the
Lean kernel and byte-for-byte through the real writer/reader) and by the stand-in server.

Type names: bool u8 i8 i16 u16 i32 i64 f32 f64 varint varlong string uuid bytesv nbt,
('arr', lentype, elem).
"""

RELEASES = [47, 107, 108, 109, 110, 210, 315, 316, 335, 338, 340, 393, 401, 404, 477, 480, 485, 490,
            498, 573, 575, 578, 735, 736, 751, 753, 754, 755, 756, 757]


def _ge(v, k):
    return RELEASES.index(v) >= RELEASES.index(k)


def _band(v, table):
    """table: [(first release, value)] ascending; value of the last band whose start <= v"""
    out = None
    for start, val in table:
        if _ge(v, start):
            out = val
    return out


# ------------------------------------------------------------------------------ ids
CB_PLAY_IDS = {
    'keep_alive_cb': [(47, 0x00), (107, 0x1F), (393, 0x21), (477, 0x20), (573, 0x21), (735, 0x20),
                      (751, 0x1F), (755, 0x21)],
    'join_game': [(47, 0x01), (107, 0x23), (393, 0x25), (573, 0x26), (735, 0x25), (751, 0x24),
                  (755, 0x26)],
    'chat_cb': [(47, 0x02), (107, 0x0F), (393, 0x0E), (573, 0x0F), (735, 0x0E), (755, 0x0F)],
    'position_look_cb': [(47, 0x08), (107, 0x2E), (338, 0x2F), (393, 0x32), (477, 0x35), (573, 0x36),
                         (735, 0x35), (751, 0x34), (755, 0x38)],
    'disconnect_play': [(47, 0x40), (107, 0x1A), (393, 0x1B), (477, 0x1A), (573, 0x1B), (735, 0x1A),
                        (751, 0x19), (755, 0x1A)],
}
SB_PLAY_IDS = {
    'teleport_confirm': [(107, 0x00)],
    'chat_sb': [(47, 0x01), (107, 0x02), (335, 0x03), (338, 0x02), (477, 0x03)],
    'keep_alive_sb': [(47, 0x00), (107, 0x0B), (335, 0x0C), (338, 0x0B), (393, 0x0E), (477, 0x0F),
                      (735, 0x10), (755, 0x0F)],
    'position_look_sb': [(47, 0x06), (107, 0x0D), (335, 0x0F), (338, 0x0E), (393, 0x11), (477, 0x12),
                         (735, 0x13), (755, 0x12)],
}
FIXED_IDS = {
    'handshake': 0x00, 'status_request': 0x00, 'status_ping': 0x01, 'status_response': 0x00,
    'status_pong': 0x01, 'login_start': 0x00, 'encryption_response': 0x01, 'login_disconnect': 0x00,
    'encryption_request': 0x01, 'login_success': 0x02, 'set_compression': 0x03,
}

# which pyCraft table + class the reference packet corresponds to (names only; used by the comparer)
PYCRAFT_NAME = {
    'handshake': ('sbHandshake', 'HandShakePacket'),
    'status_request': ('sbStatus', 'RequestPacket'), 'status_ping': ('sbStatus', 'PingPacket'),
    'status_response': ('cbStatus', 'ResponsePacket'), 'status_pong': ('cbStatus', 'PingResponsePacket'),
    'login_start': ('sbLogin', 'LoginStartPacket'),
    'encryption_response': ('sbLogin', 'EncryptionResponsePacket'),
    'login_disconnect': ('cbLogin', 'DisconnectPacket'),
    'encryption_request': ('cbLogin', 'EncryptionRequestPacket'),
    'login_success': ('cbLogin', 'LoginSuccessPacket'),
    'set_compression': ('cbLogin', 'SetCompressionPacket'),
    'keep_alive_cb': ('cbPlay', 'KeepAlivePacket'), 'join_game': ('cbPlay', 'JoinGamePacket'),
    'chat_cb': ('cbPlay', 'ChatMessagePacket'),
    'position_look_cb': ('cbPlay', 'PlayerPositionAndLookPacket'),
    'disconnect_play': ('cbPlay', 'DisconnectPacket'),
    'teleport_confirm': ('sbPlay', 'TeleportConfirmPacket'), 'chat_sb': ('sbPlay', 'ChatPacket'),
    'keep_alive_sb': ('sbPlay', 'KeepAlivePacket'), 'position_look_sb': ('sbPlay', 'PositionAndLookPacket'),
}

CORE = list(PYCRAFT_NAME)


def packet_id(name, v):
    if name in FIXED_IDS:
        return FIXED_IDS[name]
    t = CB_PLAY_IDS.get(name) or SB_PLAY_IDS.get(name)
    return _band(v, t)


# ------------------------------------------------------------------------------ layouts
def layout(name, v):
    """list of (field, type) for release protocol v, or None when the packet does not exist there"""
    S, VI, B = 'string', 'varint', 'bool'
    if name == 'handshake':
        return [('protocol_version', VI), ('server_address', S), ('server_port', 'u16'), ('next_state', VI)]
    if name == 'status_request':
        return []
    if name in ('status_ping', 'status_pong'):
        return [('time', 'i64')]
    if name == 'status_response':
        return [('json_response', S)]
    if name == 'login_start':
        return [('name', S)]
    if name == 'encryption_response':
        return [('shared_secret', 'bytesv'), ('verify_token', 'bytesv')]
    if name == 'login_disconnect':
        return [('json_data', S)]
    if name == 'encryption_request':
        return [('server_id', S), ('public_key', 'bytesv'), ('verify_token', 'bytesv')]
    if name == 'login_success':
        # 1.16 (735) sends the UUID in binary; before that as a string
        return [('UUID', 'uuid' if _ge(v, 735) else S), ('Username', S)]
    if name == 'set_compression':
        return [('threshold', VI)]
    if name in ('keep_alive_cb', 'keep_alive_sb'):
        # 1.12.2 (340) widened the keep-alive id from VarInt to Long
        return [('keep_alive_id', 'i64' if _ge(v, 340) else VI)]
    if name == 'teleport_confirm':
        return [('teleport_id', VI)] if _ge(v, 107) else None
    if name == 'chat_sb':
        return [('message', S)]
    if name == 'chat_cb':
        f = [('json_data', S), ('position', 'i8')]
        if _ge(v, 735):
            f.append(('sender', 'uuid'))
        return f
    if name == 'disconnect_play':
        return [('json_data', S)]
    if name == 'position_look_cb':
        f = [('x', 'f64'), ('y', 'f64'), ('z', 'f64'), ('yaw', 'f32'), ('pitch', 'f32'), ('flags', 'i8')]
        if _ge(v, 107):
            f.append(('teleport_id', VI))
        if _ge(v, 755):
            f.append(('dismount_vehicle', B))
        return f
    if name == 'position_look_sb':
        return [('x', 'f64'), ('feet_y', 'f64'), ('z', 'f64'), ('yaw', 'f32'), ('pitch', 'f32'),
                ('on_ground', B)]
    if name == 'join_game':
        if not _ge(v, 477):      # 1.8 .. 1.13.2
            return [('entity_id', 'i32'), ('game_mode', 'u8'),
                    ('dimension', 'i32' if _ge(v, 108) else 'i8'), ('difficulty', 'u8'),
                    ('max_players', 'u8'), ('level_type', S), ('reduced_debug_info', B)]
        if not _ge(v, 573):      # 1.14.x
            return [('entity_id', 'i32'), ('game_mode', 'u8'), ('dimension', 'i32'),
                    ('max_players', 'u8'), ('level_type', S), ('render_distance', VI),
                    ('reduced_debug_info', B)]
        if not _ge(v, 735):      # 1.15.x
            return [('entity_id', 'i32'), ('game_mode', 'u8'), ('dimension', 'i32'),
                    ('hashed_seed', 'i64'), ('max_players', 'u8'), ('level_type', S),
                    ('render_distance', VI), ('reduced_debug_info', B), ('respawn_screen', B)]
        if not _ge(v, 751):      # 1.16, 1.16.1
            return [('entity_id', 'i32'), ('game_mode', 'u8'), ('previous_game_mode', 'u8'),
                    ('world_names', ('arr', VI, S)), ('dimension_codec', 'nbt'), ('dimension', S),
                    ('world_name', S), ('hashed_seed', 'i64'), ('max_players', 'u8'),
                    ('render_distance', VI), ('reduced_debug_info', B), ('respawn_screen', B),
                    ('is_debug', B), ('is_flat', B)]
        f = [('entity_id', 'i32'), ('is_hardcore', B), ('game_mode', 'u8'), ('previous_game_mode', 'u8'),
             ('world_names', ('arr', VI, S)), ('dimension_codec', 'nbt'), ('dimension', 'nbt'),
             ('world_name', S), ('hashed_seed', 'i64'), ('max_players', VI), ('render_distance', VI)]
        if _ge(v, 757):          # 1.18 added the simulation distance
            f.append(('simulation_distance', VI))
        f += [('reduced_debug_info', B), ('respawn_screen', B), ('is_debug', B), ('is_flat', B)]
        return f
    raise KeyError(name)


def types_only(lay):
    """field names are pyCraft's own choice; the published layout is the type sequence"""
    return None if lay is None else [t for _, t in lay]


# Layout switch points that fall on development snapshots, as documented in the protocol version
# history (and quoted in the C07 property text): first protocol number using the NEW layout.
SNAPSHOT_SWITCH = {
    'keep_alive_long': 339,      # 1.12.2-pre1: keep-alive id VarInt -> Long (both directions)
    'teleport_id': 107,          # 1.9: position-and-look carries a teleport id, confirmed by the client
    'login_uuid_binary': 707,    # 20w12a: login success UUID sent in binary
    'chat_sender': 718,          # 20w21a: clientbound chat carries the sender UUID
}
