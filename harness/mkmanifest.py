#!/usr/bin/env python3
"""Regenerates MANIFEST.json from the table below (keeps it valid and in one place)."""
import json, os
V = os.path.dirname(os.path.dirname(os.path.abspath(__file__)))
props = [json.loads(l) for l in open(os.path.join(V, 'properties.jsonl'))]

CLAIMED = {
 'C02': dict(
   text="Lean model of every wire type (WType incl. arbitrarily nested arrays; custom types plugged in through a law-carrying codec) with theorems by structural induction: in-domain encoding never fails, decode(encode v ++ rest) = (v, rest) for every self-delimiting type, encodings non-empty, EVERY strict prefix of an encoding is rejected, big-endian two's-complement spec stated independently (beValue bs = v mod 256^w), UTF-8 round trip, per-kind prescriptions; Angle/FixedPoint over exact integer arithmetic: step always in 0..255 (the repaired defect), decoded angle within half a quantum circularly, fixed point within one quantum with truncation toward zero, exact on multiples. Correspondence: real send/read of every type in types.basic incl. instance-based ones, exhaustive for 8/16-bit and angle steps, every strict prefix of sampled encodings, malformed inputs.",
   note="struct's float<->pattern conversion, str.encode/decode and uuid are CPython's (compared, not proved); float rounding inside Angle/FixedPoint is not modelled (inputs exactly representable, kept 1e-9 away from rounding boundaries); signalling-NaN float patterns excluded (CPython quiets them); NBT is pynbt's.",
   technique="Lean 4 proof (structural induction over wire types) + correspondence",
   design="5/C02"),
 'C03': dict(
   text="Lean 4 theorems over a model of VarInt.read/send/size, for all byte strings, all naturals/integers and all max_bytes: round trip, bounded reads (<= max_bytes+1), only-EOF/too-long failures, no read past the terminator, canonical and unique encoding, size table = encoded length, totality of send on every int. Tied to the code by a correspondence run (model driver vs real VarInt/VarLong on ~4*10^5 inputs incl. every <=2-byte string and every continuation shape <=13 bytes).",
   note="Model hand-written; the tie is differential testing (volumes in evidence). struct.pack('B') and Python int arithmetic trusted. Hangs are observed under a timer budget.",
   technique="Lean 4 proof (induction on n / on the byte list) + model-vs-code correspondence",
   design="5/C03"),
 'C01': dict(
   text="Lean theorems, for every zlib (as a parameter with inflate(deflate x)=x), every threshold (none / any Int), every packet list, every segmentation of the byte stream and every cipher pair satisfying the stream-cipher laws (CFB8 proved to satisfy them in C18): the reader's result depends only on the concatenated bytes; reading the written frames returns exactly the written (id, payload) list then EOF; any frame is consumed whole whatever its id; the three threshold regimes produce exactly the documented headers. Correspondence: real Packet.write / PacketReactor.read_packet vs the model on sequences x thresholds x cipher x segmentations.",
   note="zlib and the AES block function are parameters; socket.send is all-or-nothing (pyCraft ignores send's return value: assumption, not modelled); payload of unknown-id packets is not retained by pyCraft, so only id + successors are observable for them.",
   technique="Lean 4 proof (induction over streams/segmentations, parametric in zlib and cipher) + correspondence",
   design="5/C01"),
 'C04': dict(
   text="Lean theorems for all in-range triples and both layouts: encode/decode are exact inverses, the 64-bit word has exactly the prescribed x|z|y / x|y|z arithmetic layout (stated with %,*,+ only), every 64-bit word is a position; same for chunk-section (22/22/20) and multi-block records on both sides of 741. Which layout each of the 369 known versions uses is tabulated from the live codec on every run and decided in the kernel: single switch-over, new from 477, old up to 404.",
   note="Hand model tied by byte-level correspondence on versions x boundary product x words; version->layout by total tabulation (probe of the real codec). struct.pack('>Q') trusted.",
   technique="Lean 4 proof (bit-packing lemmas + omega) + kernel decide over the tabulated version table + correspondence",
   design="5/C04"),
 'C05': dict(
   text="Lean theorems: layout_rt for EVERY field-list layout (unbounded, nested arrays, real custom codecs proved to satisfy the codec law) — write succeeds on well-typed values, read returns them and consumes the payload exactly, strict prefixes rejected; object-level packet_rt; over tables regenerated from the live get_definition/get_packets/get_id on all known versions (kernel decide): every supported version x registered class has an id and a layout or hand codec, every generated layout is well-formed and round-trips, hand-written set is exactly the expected one; hand-written codecs (Map, PlayerListItem, SpawnObject, CombatEvent, FacePlayer, PluginResponse) modelled with version flags and proved to round-trip for ALL flag combinations up to an explicit normalise function. Correspondence: real write_fields/read/repr/id for supported versions x classes x values vs the model, hand codecs vs their models, random user-defined field lists, class-level definitions reused across versions. Composition (Props/C05Stream): a list of typed packets written as frames and read back through read_packet under any threshold, lawful zlib, cipher pair and segmentation returns the typed values.",
   note="repr is exercised on the implementation only; NBT fields (JoinGame/Respawn >= 718) are pynbt's: real round trip exercised, not modelled; Map offsets are taken in 0..127 (reader Byte vs writer UnsignedByte asymmetry documented, not alarmed).",
   technique="Lean 4 proof (generic layout round trip + per-class flag-parametric round trips) + kernel decision over tabulated layouts + correspondence",
   design="5/C05"),
 'C06': dict(
   text="The whole finite domain (8 state/direction tables x 369 known versions) of get_packets/get_id is tabulated from the live code on every run; totality and injectivity-except-listed on all supported versions are decided by the Lean kernel (decide +kernel), each listed collision is proved real, and a generic theorem shows a dict built in ANY iteration order over an injective row maps an id to exactly its class.",
   note="Translator harness/extract.py trusted to print what the live functions return (purity smoke-checked by evaluating twice in opposite orders); ids also exercised through the real reactors' dicts. 9 known collisions on supported snapshot versions are listed in known_findings.json.",
   technique="total tabulation by translator + Lean 4 kernel decision (decide +kernel) + generic Lean proof",
   design="5/C06"),
 'C07': dict(
   text="A reference table of ids and field-type sequences for 20 core packets x 30 release protocols, written from the published protocol (harness/refproto.py, no pyCraft code) and rendered to Lean; the kernel decides that pyCraft's tabulated ids and layouts (regenerated from the live code) equal the reference for every release x packet (single-byte signedness identified), and a theorem shows equal normalised layouts give identical bytes and reads. Correspondence: the real Packet.write is byte-identical to an encoder built only from the reference + refcodec, and the real reader decodes the reference bytes to the same fields.",
   note="The reference table is written from memory of the published protocol documentation (no network here); it agreed with pyCraft on all 600 (release, packet) pairs when written. A future disagreement is examined model-first.",
   technique="independent reference + Lean 4 kernel decision over tabulated tables + byte-level correspondence",
   design="5/C07"),
 'C08': dict(
   text="Lean model of initglobals (ordered-dict update-or-append, first-occurrence index, release recogniser) and of the five ConnectionContext predicates; theorems for ALL record lists: derived tables are exactly the order-preserving duplicate-free projections, index = position of first occurrence (injective), 'earlier' is a strict total order coinciding with list position, the five predicates are mutually consistent (as equalities of results incl. the unknown-version error), init is idempotent and independent of previous state, all of it after run-time extension with old indices unchanged. On the ACTUAL data: model(live records) = live tables, ordinary numbers strictly increasing, supported list chronological — decided in the kernel over a file regenerated from the running module on every run. Correspondence: the real initglobals on random record lists/extension histories and the real predicates on all pairs.",
   note="The regex \\d+(\\.\\d+)+$ is mirrored by an explicit recogniser restricted to ASCII digits (Python's \\d also matches other Unicode decimal digits: documented restriction), tied to re.match by correspondence only.",
   technique="Lean 4 proof (fold closed forms) + kernel-checked instantiation on tabulated live data + correspondence",
   design="5/C08"),
 'C09': dict(
   text="Lean model of constructor resolution, connect plan, status evaluation, mismatch message and the plain status reactor; theorems for ALL environments, allowed sets, defaults and replies: connect v only for an allowed reported v or the default on {no version, no protocol key, closed}; disallowed n gives a mismatch naming n with the supported flag correct; empty object invalid; single allowed version => no query; unsupported/unknown refused at construction; handshake fields; status handler exactly once, ping iff requested, latency >= 0 on a monotone clock, one disconnect, exit callback once. Correspondence on the sequential simnet against an independent stand-in server (constructor inputs, negotiation scenarios over the live version tables, four status handler modes). Byte level (Props/C09Wire): the client's first frames (handshake, request/ping or login start) as bytes, an independently written reference server recovers protocol/host/port/next state/name under any segmentation, the encoding is injective, the protocol number in the bytes is the negotiated one, ping/pong and status-response bytes round-trip; driver hswire.first/hswire.parse compared with the raw bytes of every connection opened in the scenarios.",
   note="Non-integer protocol values in the reply are outside the property's quantifier (the model returns what Python does for integers only). Clock values are injected; JSON parsing is CPython's. simnet's socket semantics are part of the trusted base.",
   technique="Lean 4 proof (decision logic, case analysis) + correspondence on an in-process sequential network",
   design="5/C09"),
 'C10': dict(
   text="Lean model of LoginReactor.react with explicit framing state (cipher on/off, threshold, forced vs queued writes, RSA and JSON-text extraction as parameters); theorems for ALL step lists (any order/length of server events and loop write phases): the encryption response is the last plaintext frame, carries rsa(secret)/rsa(token) (RSA law recovers them) and everything written later is encrypted; the announced threshold applies to every later frame; plugin requests are each answered once, in order, unsuccessfully absent a handler; success enters play; a disconnect always records LoginDisconnect(msg) or VersionMismatch(ver) exactly per the two 'Outdated' patterns and stops processing; join called iff online id and token, with the verification hash. Correspondence on the sequential simnet: independent server with textbook RSA and pure-Python AES-CFB8 over versions either side of 385/391/707; the string passed to join is also checked against the Lean SHA-1 hash (C17 link); two logins on one Connection (handler reconnect) must not share framing state. Byte level (Props/C10Wire): the bytes handed to the socket are plaintext frames up to and including the encryption response and AES-CFB8 of the rest, an independent server recovers the outbox and the secret; driver loginwire.run is compared with the raw bytes the real client sent. Whole session (Props/Session): handshake + login + play as one client byte stream and one reference server; the cipher context and the threshold of the login state continue into the play state (restart / forgotten threshold refuted); driver session.run compared with the raw bytes of whole real sessions.",
   note="RSA is a parameter with dec(enc m)=m; JSON parsing and the regex engine are CPython's (the regex is mirrored by an explicit recogniser proved equivalent to a declarative reading). Forced/queued is not observable at the server and is dropped from the comparison; ids of the 1.13 snapshots 385..390 come from pyCraft's own tables.",
   technique="Lean 4 proof (invariants over arbitrary step lists) + correspondence on sequential simnet with an independent crypto peer",
   design="5/C10"),
 'C11': dict(
   text="Lean model of PlayingReactor.react and the NetworkingThread._run batching loop with the 300/50 caps as parameters and the shared packet counter; theorems for ALL inboxes and ALL caps (capR >= 1, proved sharp): termination, keep-alive replies = ids before the first disconnect in order exactly once, teleport confirm / position echo per version, spawned iff a position packet was processed, wire order, unknown packets delivered without reply and removable without effect, clean server disconnect (closed, exit callback once, no error, later events ignored), independence from the caps. Correspondence on the sequential simnet over all release protocols (independent id/layout table) plus rotating snapshots, histories up to 400 packets, compression on/off, peer closing or not. Byte level (Props/C11Wire): for all packet lists, wire profiles, thresholds, lawful zlib, ciphers, segmentations and caps the client decodes the server stream to the inbox, writes exactly the frames of the due replies, an independent reader recovers them, keep-alive / teleport / position echoes carry the request's bytes; driver playwire.run compared byte for byte with the stand-in server's stream and the raw bytes the real client sent.",
   note="When the peer has already closed while more than one read batch is still unread, the client's own writes fail (EPIPE) before it reads the disconnect packet; that realistic limitation is outside the property's clause and the harness keeps closed-peer histories within the first batch. With the peer closed only 'the wire is a prefix' holds (also in the model).",
   technique="Lean 4 proof (loop with measure, cap-independence) + correspondence on sequential simnet",
   design="5/C11"),
 'C12': dict(
   text="Lean transition system of the write path (user threads: queued/forced writes, graceful/immediate disconnect; networking thread's write loop with caps as parameters) at the granularity of lock, queue, socket-send, interrupt and select operations; invariant proved for EVERY program set and EVERY schedule: only the lock holder is inside a frame, the wire is whole duplicate-free frames plus at most the holder's open length prefix, issued = sent + in-flight + queued + failed (disjoint), per-thread FIFO of queued packets, a graceful disconnect flushes everything queued at its lock acquisition then closes, nothing is sent after the close. Trace refinement: the real code runs on real threads under a baton scheduler yielding at exactly those operations; the executed schedule replayed through the model must give the identical event log, wire and final state (500 random walks quick; systematic enumeration with preemption bound + 6000 walks thorough), plain/compressed/encrypted transports; oracle parses the server-side byte stream independently; bulk (>300 queued) and re-entrant outgoing-listener scenarios. Byte level (Props/C12Bytes = C12 o C01 o C18): for all programs, schedules, thresholds, lawful zlib, cipher and read segmentation the peer's read_packet decodes from the wire BYTES exactly the packets sent, once each, per-thread FIFO; each packet's two send arguments are compared with the Lean frameSends. Final states (Props/C12Final): over the event log, every packet of a finished run is sent whole, or queued after the closing graceful disconnect's last empty-queue observation (resp. queued at / after an immediate one's lock acquisition), or a forced write entered after the close; a graceful disconnect sends everything appended before its lock acquisition; nothing is sent or popped from an immediate disconnect's acquisition on.",
   note="Atomicity of deque/attribute operations is the GIL's; preemption between yield points assumed unobservable (all shared state is reached through them); the cipher-swap window in LoginReactor is not claimed; the timing half of the final-state theorem is proved in Props/C12Final (the _partial theorem is kept beside it).",
   technique="Lean 4 proof (inductive invariant over all schedules) + trace refinement on a deterministic scheduler",
   design="5/C12"),
 'C13': dict(
   text="Lean model of the four listener lists, call_packet (first matching type, callback once), _react and _write_packet; theorems for ALL hierarchies (cyclic or not), configurations and histories: call log = early matches ++ reaction ++ ordinary matches in registration order cut after the first ignore; exactly-once; ignore is local to the packet; early ignore suppresses reaction; outgoing early before the write and able to suppress it, ordinary after; the four-way registration target. Correspondence on the sequential simnet: random listener configurations over the real packet class hierarchy, login and play histories, client-written packets.",
   note="The built-in reaction is observed by wrapping (not replacing) the reactors' react methods; a non-IgnorePacket exception in a listener belongs to C14.",
   technique="Lean 4 proof (list folds vs filter/takeWhile specification) + correspondence on sequential simnet",
   design="5/C13"),
 'C14': dict(
   text="Lean model of _handle_exception as the literal for/else loop, proved equal to an independently defined nested try/except chain for ALL handler chains; first matching handler receives; a raising handler's exception is offered to later handlers only; final handler runs exactly once, last (unless the reactor's own handler swallowed the exception); recorded = last exception; re-raised iff nothing caught and final is None. Correspondence on the sequential simnet with fault injection at 7 origins x random chains x 4 final modes, plus teardown and reconnect checks.",
   note="When the reactor's own handler returns True (status EOF fallback) the code returns before the final handler and records nothing; the theorems state this side condition explicitly. BaseException from handlers is outside the model.",
   technique="Lean 4 proof (loop = recursive try/except reference) + fault-injection correspondence on sequential simnet",
   design="5/C14"),
 'C15': dict(
   text="Lean theorems for every packet list, every cut offset k and every segmentation of the first k bytes (also through any cipher pair): the reader delivers exactly the packets whose frames lie wholly inside the prefix and then fails with end-of-stream, never a partial packet; at most 2 reads are issued after the stream is exhausted (1 except right after a bare length prefix); total reads <= bytes+2; termination by construction (total functions, fuel never the stopping reason). Correspondence/fault enumeration: real read_packet on streams cut at EVERY offset x 3 segmentations under a read budget.",
   note="A peer that stalls without closing (blocking read) is OS behaviour outside the model. The planned bound of 1 read after EOF is false for the literal code (length prefix then EOF gives 2); proved as <= 2 with a _partial refinement.",
   technique="Lean 4 proof (prefix theorem over the frame model, instrumented read counter) + fault enumeration at every byte offset as correspondence",
   design="5/C15"),
 'C16': dict(
   text="Lean transition system of the connection lifecycle (connect/status/disconnect atomic under the lock, networking threads with prologue hand-over, unlocked read phase, exception path with the now-atomic cleanup block, epilogue; server behaviours accept/refuse/disconnect/fail; listener/handler reconnect budgets); for ALL programs, environments and schedules: at most one networking thread is in an I/O phase and I/O events of different threads are separated by the first one finishing; connect/status on an active connection returns InvalidState and changes nothing; after any end the object is reusable (also from listeners/handlers); disconnect is total, idempotent and leaves the active thread interrupted; an interrupted thread dies within a bounded number of its own steps and can always be driven to death (fairness part _partial). Correspondence: sequential call histories on real threads under the scheduler vs `life.run`; two user threads under random schedules judged by the oracle. Liveness (Props/C16Live): on every weakly fair infinite schedule every networking thread occupying a slot after a disconnect() call is eventually dead and stays dead, and from a closing state the system reaches a state that never changes (fairness shown necessary and satisfiable).",
   note="Concurrent tie is oracle-only (no event-log equality for C16). select() on a closed file raising ValueError in an idle thread after a user disconnect is real behaviour outside the property (thread still terminates). Known finding: an interrupted thread's pending reaction to the old connection's server-disconnect can close a connection started meanwhile.",
   technique="Lean 4 proof (inductive invariant over all schedules) + correspondence on scheduled real threads",
   design="5/C16"),
 'C17': dict(
   text="Lean theorems for EVERY digest byte string: the printed string parses back (independent signed base-16 parser) to the two's-complement value, '-' iff top bit, no leading zeros, lower-case hex only, and it is the unique canonical numeral (= BigInteger.toString(16)); input order id||secret||key; a complete Lean SHA-1 anchored by kernel-checked FIPS vectors and the three published Minecraft vectors. Correspondence: real generate_verification_hash vs the Lean SHA-1+formatter.",
   note="hashlib.sha1, str.encode, int.from_bytes/format are compared against the Lean implementation, not proved.",
   technique="Lean 4 proof + kernel-evaluated vectors + correspondence against an independent Lean SHA-1",
   design="5/C17"),
 'C18': dict(
   text="Lean theorems for EVERY block function, register, byte string and split: CFB8 chunking (a++b = a then b), n-ary chunk independence, decrypt inverts encrypt under any chunking on either side, output length = input length; the wrapper model over any interleaving of send/recv/read yields per direction exactly CFB8(reg=secret) of the concatenated stream, directions independent; an executable Lean AES-128 with the S-box proved equal to its algebraic definition and kernel-checked FIPS-197 / SP 800-38A CFB8 vectors. Correspondence: real wrappers over `cryptography` vs Lean AES-CFB8 vs a pure-Python AES-CFB8; RSA PKCS#1 v1.5 recovery by an independent textbook decryptor for token lengths 1..64 under 1024/2048-bit keys; secret = one fresh 16-byte os.urandom draw.",
   note="AES/RSA correctness of `cryptography` is compared (three implementations pairwise), not proved; unpredictability is os.urandom's.",
   technique="Lean 4 proof (generic over the block function) + kernel-evaluated NIST vectors + three-way correspondence",
   design="5/C18"),
 'C19': dict(
   text="Lean model of every AuthenticationToken operation as Token -> Reply -> Token x Outcome x Request?; theorems for all tokens/replies/arguments: authenticated-iff, error replies raise with status+fields (or malformed) and preserve the token, validate true iff 204 and never alters, join refuses offline without a request, success stores exactly, payload shape per endpoint, refusals send nothing. Correspondence: the real class against a local http.server stand-in over operation sequences.",
   note="HTTP encoding is requests'; JSON member values restricted to strings/absent in the model; the stand-in serves no body on 204.",
   technique="Lean 4 proof (case analysis over operations/replies) + correspondence via HTTP stand-in",
   design="5/C19"),
 'C20': dict(
   text="Lean theorems for all histories/inputs: player-list replay = independent reference replay (add overwrites, unknown update/remove are no-ops, order semantics of dict), map patch pixel i lands at offset+(i mod w, i div w) and nothing else changes, position update adds/sets per flag and wraps yaw/pitch into [0,360) over exact rationals, flag-name printing parses back (loop invariant; for ANY enum; every library flag enum x 0..255 decided in the kernel over a table regenerated from the live classes), record ==/hash/!= laws, component-wise type-preserving vector arithmetic, alias read-back. Correspondence: live tracker objects vs model on histories; laws checked on live objects.",
   note="Float rounding is outside the exact-rational model: the one-ulp edge -1e-20 % 360 == 360.0 is listed as a known finding. Record/vector/alias laws are tied by oracle checks on live objects (no driver command).",
   technique="Lean 4 proof (folds/invariants) + kernel decision over tabulated enums + correspondence",
   design="5/C20"),
}

def main():
    checks = []
    for p in props:
        c = CLAIMED.get(p['id'])
        if not c:
            continue
        pid = p['id']
        checks.append({
            'property_id': pid,
            'quick_cmd': './check %s quick' % pid,
            'thorough_cmd': './check %s thorough' % pid,
            'evidence_file': 'evidence/%s.json' % pid,
            'replay_cmd_template': '/venv/bin/python harness/check.py %s --replay {path}' % pid,
            'engine': 'lean4-proof+correspondence',
            'level_claimed': {'category': 'proof', 'text': c['text'], 'design_ref': c['design']},
            'level_note': c['note'],
            'technique': c['technique'],
        })
    m = {
     'version': 1,
     'setup_cmd': '/venv/bin/python harness/regen.py && cd lean && lake build PyCraft.All driver',
     'hooks': {'guard': 'PYCRAFT_VERIF',
               'enable': 'no source hooks exist: the harness rebinds module-level names of minecraft.networking.connection inside its own process (DESIGN.md 1.1)',
               'baseline_off_cmd': 'cd /repo && /venv/bin/python -m pytest -q -p no:cacheprovider --timeout=900',
               'source_commits': [], 'add_only': True},
     'engines': [{'name': 'lean4-proof+correspondence', 'path': 'lean/ + harness/',
                  'serves_properties': [c['property_id'] for c in checks],
                  'kind_free_text': 'Lean 4 theorems about executable models (lean/PyCraft), tabulating translator harness/extract.py, correspondence harness harness/corr/*.py driving the real code and the model through a line protocol'}],
     'checks': checks,
     'notes': 'See DESIGN.md. Exit 2 = checker infrastructure failure (never a violation).',
     'not_applicable': [{'property_id': p['id'], 'reason': 'check under construction (DESIGN.md 5b); not claimed yet'}
                        for p in props if p['id'] not in CLAIMED],
    }
    json.dump(m, open(os.path.join(V, 'MANIFEST.json'), 'w'), indent=1)

if __name__ == '__main__':
    main()
