#!/usr/bin/env python3
"""Regenerates MANIFEST.json from the table below (keeps it valid and in one place)."""
import json, os
V = os.path.dirname(os.path.dirname(os.path.abspath(__file__)))
props = [json.loads(l) for l in open(os.path.join(V, 'properties.jsonl'))]

CLAIMED = {
 'C03': dict(
   text="Lean 4 theorems over a model of VarInt.read/send/size, for all byte strings, all naturals/integers and all max_bytes: round trip, bounded reads (<= max_bytes+1), only-EOF/too-long failures, no read past the terminator, canonical and unique encoding, size table = encoded length, totality of send on every int. Tied to the code by a correspondence run (model driver vs real VarInt/VarLong on ~4*10^5 inputs incl. every <=2-byte string and every continuation shape <=13 bytes).",
   note="Model hand-written; the tie is differential testing (volumes in evidence). struct.pack('B') and Python int arithmetic trusted. Hangs are observed under a timer budget.",
   technique="Lean 4 proof (induction on n / on the byte list) + model-vs-code correspondence",
   design="5/C03"),
}

def main():
    checks = []
    for p in props:
        c = CLAIMED.get(p['id'])
        if not c:
            continue
        pid = p['id']
        checks.append({
            'property_id': pid,
            'quick_cmd': './check %s quick' % pid,
            'thorough_cmd': './check %s thorough' % pid,
            'evidence_file': 'evidence/%s.json' % pid,
            'replay_cmd_template': '/venv/bin/python harness/check.py %s --replay {path}' % pid,
            'engine': 'lean4-proof+correspondence',
            'level_claimed': {'category': 'proof', 'text': c['text'], 'design_ref': c['design']},
            'level_note': c['note'],
            'technique': c['technique'],
        })
    m = {
     'version': 1,
     'setup_cmd': 'cd lean && lake build PyCraft.All driver',
     'hooks': {'guard': 'PYCRAFT_VERIF',
               'enable': 'no source hooks exist: the harness rebinds module-level names of minecraft.networking.connection inside its own process (DESIGN.md 1.1)',
               'baseline_off_cmd': 'cd /repo && /venv/bin/python -m pytest -q -p no:cacheprovider --timeout=900',
               'source_commits': [], 'add_only': True},
     'engines': [{'name': 'lean4-proof+correspondence', 'path': 'lean/ + harness/',
                  'serves_properties': [c['property_id'] for c in checks],
                  'kind_free_text': 'Lean 4 theorems about executable models (lean/PyCraft), tabulating translator harness/extract.py, correspondence harness harness/corr/*.py driving the real code and the model through a line protocol'}],
     'checks': checks,
     'notes': 'See DESIGN.md. Exit 2 = checker infrastructure failure (never a violation).',
     'not_applicable': [{'property_id': p['id'], 'reason': 'check under construction (DESIGN.md 5b); not claimed yet'}
                        for p in props if p['id'] not in CLAIMED],
    }
    json.dump(m, open(os.path.join(V, 'MANIFEST.json'), 'w'), indent=1)

if __name__ == '__main__':
    main()
