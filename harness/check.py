#!/venv/bin/python
"""Entry point: check.py <Cxx> [--tier quick|thorough] [--replay file]

exit 0 = property held on everything explored; exit 1 + `VIOLATION property=<id> replay=<path>`;
exit 2 = the checker's own environment failed (never a violation)."""
import argparse
import importlib
import json
import os
import sys
import traceback

sys.dont_write_bytecode = True
sys.path.insert(0, os.path.dirname(os.path.abspath(__file__)))
import lib  # noqa
import builtins as _builtins  # noqa
_REAL_PRINT = _builtins.print       # some scenarios stub `print` in the process; the verdict must never depend on their clean-up
import warnings  # noqa
warnings.filterwarnings('ignore')


class HarnessTimeout(BaseException):
    """the correspondence harness did not finish in time: the code under test hangs somewhere the
    harness has no budget for (reported as a broken tie, never silently)"""


def _watchdog(seconds):
    import signal

    def on_alarm(signum, frame):
        raise HarnessTimeout('correspondence harness still running after %d s' % seconds)
    signal.signal(signal.SIGALRM, on_alarm)
    signal.alarm(seconds)


def main():
    ap = argparse.ArgumentParser()
    ap.add_argument('pid')
    ap.add_argument('--tier', default=os.environ.get('VERIF_TIER', 'quick'))
    ap.add_argument('--replay')
    a = ap.parse_args()
    tier = a.tier if a.tier in ('quick', 'thorough') else 'quick'
    seed = int(os.environ.get('VERIF_SEED', '0') or 0)
    pid = a.pid.upper()
    ctx = lib.Ctx(pid, tier, seed)
    try:
        lib.repo_setup()
        mod = importlib.import_module('corr.%s' % pid.lower())
        if a.replay:
            rp = json.load(open(a.replay))
            ok = mod.replay(ctx, rp)
            print('replay: property %s' % ('HOLDS on this input' if ok else 'VIOLATED'))
            return 0 if ok else 1
        if getattr(mod, 'EXTRACT', None):
            import extract
            try:
                _watchdog(600)
                extract.run(mod.EXTRACT, ctx)
            except (lib.InfraError, KeyboardInterrupt, SystemExit):
                raise
            except BaseException as e:  # a table function raised or hangs: broken tie, handled by the search
                ctx.disagree('extraction failed', repr(e), None, traceback.format_exc()[-1500:])
            finally:
                import signal as _sig
                _sig.alarm(0)
        audit = lib.build_and_audit(pid, getattr(mod, 'EXTRA_TARGETS', ()), getattr(mod, 'EXTRA_PROPS', ()))
        try:
            _watchdog(3600 if tier == 'thorough' else 900)
            mod.run(ctx)
        except (lib.InfraError, KeyboardInterrupt, SystemExit):
            raise
        except BaseException as e:     # incl. simnet's Idle/Stall/ReadBudget escaping a harness
            ctx.disagree('correspondence harness could not run against this tree', repr(e),
                         None, traceback.format_exc()[-2500:])
        import signal
        signal.alarm(0)
        import fingerprint
        drift = fingerprint.changed(pid)
        ctx.extra['anchor_files_changed_since_validation'] = drift
        if drift and not ctx.violations and not (audit['failed'] or ctx.disagreements):
            # modelled code has changed since the models were last validated against it: not a verdict,
            # but a reason to look harder — run the failing-input search (thorough volumes) right away
            ctx.searching = True
            ctx.notes.append('anchor files changed (%s): correspondence and oracle re-run with thorough volumes'
                             % ', '.join(drift))
            try:
                _watchdog(3600)
                (getattr(mod, 'search', None) or mod.run)(ctx)
            except (lib.InfraError, KeyboardInterrupt, SystemExit):
                raise
            except BaseException as e:
                ctx.disagree('correspondence harness could not run against this tree (escalated run)', repr(e),
                             None, traceback.format_exc()[-2500:])
        elif (audit['failed'] or ctx.disagreements) and not ctx.violations:
            # broken proof or correspondence is not by itself a violation: search the
            # implementation for a concrete failing input with a larger budget
            ctx.searching = True
            ctx.notes.append('search phase entered: %s' % (
                'theorems not checking' if audit['failed'] else 'correspondence disagreement'))
            try:
                _watchdog(3600)
                (getattr(mod, 'search', None) or mod.run)(ctx)
            except (lib.InfraError, KeyboardInterrupt, SystemExit):
                raise
            except BaseException as e:
                ctx.notes.append('search aborted: %r' % (e,))
        signal.alarm(0)
        if ctx.thorough and not audit['failed']:
            ok, out = lib.leanchecker(pid)
            ctx.extra['leanchecker'] = 'ok' if ok else out
            if not ok:
                audit['failed']['<leanchecker>'] = out[-500:]
        _builtins.print = _REAL_PRINT
        sys.stdout, sys.stderr = sys.__stdout__, sys.__stderr__
        return lib.finish(ctx, audit)
    except lib.InfraError as e:
        print('INFRA-ERROR property=%s %s' % (pid, e))
        return 2


if __name__ == '__main__':
    rc = main()
    sys.stdout.flush()
    sys.stderr.flush()
    os._exit(rc if isinstance(rc, int) else 0)     # threads left behind by a misbehaving tree must not keep the check alive
