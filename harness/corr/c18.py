"""C18: the encrypted channel is AES-128-CFB8 (key = IV = secret) as one continuous stream per
direction for any split across calls; secret and token reach the key holder exactly.
Three implementations must agree pairwise: pyCraft's wrappers over `cryptography`, the Lean
AES+CFB8 model (driver `chan`/`cfb8.*`), and refcodec's pure-Python AES-CFB8."""
import refcodec
import rsakeys
from lib import hx

EXTRA_PROPS = ['C18Keys', 'C18KeysLive']

EXTRACT = ['gen.c18keys']

RULE = ("random 16-byte secrets; plaintext/ciphertext streams up to 4 KiB (quick: 1.5 KiB) per "
        "direction; random partitions into send/recv/read calls incl. empty and 1-byte chunks, random "
        "interleaving of directions; RSA: tokens of every length 1..64 under 1024- and 2048-bit keys; "
        "distinct by (secret, op sequence)")


class Inner:
    """inner socket + file object: records what the wrappers hand down / serves ciphertext"""

    def __init__(self):
        self.sent = []
        self.inbox = b''

    def send(self, d):
        self.sent.append(bytes(d))
        return len(d)

    def recv(self, n):
        # an unbuffered socket: at most the first arrived segment, possibly fewer bytes than asked for
        if isinstance(self.inbox, list):
            if not self.inbox:
                return b''
            seg = self.inbox[0]
            if n >= len(seg):
                self.inbox.pop(0)
                return seg
            self.inbox[0] = seg[n:]
            return seg[:n]
        r, self.inbox = self.inbox[:n], self.inbox[n:]
        return r

    read = recv


def partition(rng, data):
    out = []
    i = 0
    while i < len(data):
        n = rng.choice([0, 1, 1, 2, 3, 15, 16, 17, 64, 300])
        out.append(data[i:i + n])
        i += n
    if rng.random() < 0.3:
        out.append(b'')
    return out


def run(ctx):
    from minecraft.networking import encryption as E
    ctx.extra['rule'] = RULE
    rng = ctx.rng
    lines, recs = [], []
    for _ in range(ctx.scale(60, 600)):
        secret = bytes(rng.randrange(256) for _ in range(16))
        if rng.random() < 0.1:
            secret = rng.choice([bytes(16), b'\xff' * 16, bytes(range(16))])
        size = rng.choice([0, 1, 15, 16, 17, 100, 600, ctx.scale(1500, 4096)])
        plain = bytes(rng.randrange(256) for _ in range(size))
        incoming_plain = bytes(rng.randrange(256) for _ in range(rng.choice([0, 1, 16, 33, 500])))
        incoming_ct = refcodec.CFB8(secret, encrypt=True).update(incoming_plain)   # what a peer would send
        cipher = E.create_AES_cipher(secret)
        enc, dec = cipher.encryptor(), cipher.decryptor()
        inner = Inner()
        sw = E.EncryptedSocketWrapper(inner, enc, dec)
        fw = E.EncryptedFileObjectWrapper(inner, dec)
        sends = partition(rng, plain)
        recvs = partition(rng, incoming_ct)
        ops = [('s', c) for c in sends] + [(rng.choice('rf'), c) for c in recvs]
        # interleave keeping per-direction order
        order = ['s'] * len(sends) + ['r'] * len(recvs)
        rng.shuffle(order)
        si, ri, seq = iter(sends), iter([o for o in ops if o[0] != 's']), []
        for o in order:
            seq.append(('s', next(si)) if o == 's' else next(ri))
        outs = []
        # incoming ciphertext arrives as segments; every wrapper call asks for MORE than the next segment
        # holds (short reads, as on a real socket): one call must consume and decrypt exactly one segment
        inner.inbox = [c for k, c in seq if k != 's' and c]
        for kind, chunk in seq:
            if kind == 's':
                before = len(inner.sent)
                sw.send(chunk)
                outs.append(b''.join(inner.sent[before:]))
            elif not chunk:
                # a zero-length read in mid-stream (legal on sockets and files): nothing is consumed, b'' comes back, the
                # stream goes on afterwards
                if rng.random() < 0.6:
                    z = sw.recv(0) if kind == 'r' else fw.read(0)
                    ctx.count('zero-length-reads')
                    if z != b'':
                        ctx.violation('a zero-length %s on the decrypting wrapper returned %r' % ('recv' if kind == 'r' else 'read', z),
                                      {'secret': hx(secret)}, key={'kind': 'zero-length-read'})
                outs.append(b'')
            else:
                ask = len(chunk) + rng.choice([0, 1, 7, 4096])
                got = sw.recv(ask) if kind == 'r' else fw.read(ask)
                outs.append(got)
        lines.append('chan %s %s' % (hx(secret), ' '.join('%s:%s' % (k, hx(c)) for k, c in seq)))
        recs.append((secret, seq, outs, plain, incoming_plain, incoming_ct))
    # one-shot references from the Lean model (the property's "one continuous stream")
    one_enc = ctx.driver.ask(['cfb8.enc %s %s %s' % (hx(s), hx(s), hx(p)) for s, _, _, p, _, _ in recs])
    one_dec = ctx.driver.ask(['cfb8.dec %s %s %s' % (hx(s), hx(s), hx(c)) for s, _, _, _, _, c in recs])
    model = ctx.driver.ask(lines)
    for (secret, seq, outs, plain, inc_plain, inc_ct), mo, oe, od in zip(recs, model, one_enc, one_dec):
        got = ('ok ' + ' '.join(hx(o) for o in outs)).rstrip()
        ctx.case((secret, tuple(seq)), sample={'secret': hx(secret), 'ops': len(seq),
                                                'sent_bytes': len(plain), 'recv_bytes': len(inc_ct)})
        ctx.count('ops', len(seq))
        if got != mo.rstrip():
            ctx.disagree('wrappers vs Lean chan', {'secret': hx(secret), 'ops': [(k, hx(c)) for k, c in seq][:20]},
                         mo[:200], got[:200])
        wire = b''.join(o for (k, _), o in zip(seq, outs) if k == 's')
        rcvd = b''.join(o for (k, _), o in zip(seq, outs) if k != 's')
        ref_wire = refcodec.CFB8(secret, encrypt=True).update(plain)
        bad = None
        if wire != ref_wire:
            bad = 'bytes on the wire are not AES-128-CFB8(key=iv=secret) of the plaintext stream'
        elif rcvd != inc_plain:
            bad = 'received stream does not decrypt to what an independent CFB8 peer encrypted'
        if oe.split()[1:] != ([hx(ref_wire)] if plain else ['-']) and not (not plain and oe.strip() in ('ok', 'ok -')):
            ctx.disagree('Lean one-shot cfb8.enc vs refcodec', hx(secret), oe[:80], hx(ref_wire)[:80])
        if od.split()[1:] != ([hx(inc_plain)] if inc_ct else ['-']) and not (not inc_ct and od.strip() in ('ok', 'ok -')):
            ctx.disagree('Lean one-shot cfb8.dec vs refcodec', hx(secret), od[:80], hx(inc_plain)[:80])
        if bad:
            ctx.violation(bad, {'secret': hx(secret), 'ops': [(k, hx(c)) for k, c in seq][:40]},
                          key={'secret': hx(secret), 'n_ops': len(seq)})
    # ---- the whole connection under several writer threads on an ENCRYPTED transport (scheduler scenarios of corr/c12.py:
    # a preemption point between the cipher step and the raw send of every wrapper call): the wire must still be ONE CFB8
    # stream, i.e. decrypt (independent decoder) to whole frames of the issued packets
    import minecraft.networking.connection as C12c
    from corr import c12 as c12s
    for i in range(ctx.scale(30, 300)):
        progs = c12s.gen_programs(rng)
        if not any(k == 'f' for ops_ in progs for k, _ in ops_):
            progs[0] = [('f', 901), ('f', 902)] + list(progs[0])
        bias = rng.random()

        def choose(en, n, bias=bias):
            if 0 in en and rng.random() < bias * 0.5:
                return 0
            return rng.choice(en)
        r = c12s.scenario(C12c, E, progs, choose, 'encrypted')
        ctx.case(('encrypted-writers', c12s.prog_str(progs), tuple(r['ran'])))
        ctx.count('encrypted-writers')
        c12s.oracle(ctx, progs, r, 'encrypted', 'several threads write on the encrypted connection', stream_only=True)
    # ---- a thread switch right after a cipher call returns and before the wrapper has used its result
    # (forced: the cipher contexts are proxies that run ANOTHER wrapper operation at that point -- the other
    # direction of the same connection, or a second connection): directions and connections are independent
    class SwitchCtx:
        def __init__(self, real):
            self.real, self.hook = real, None

        def _switch(self):
            h, self.hook = self.hook, None
            if h is not None:
                h()

        def update(self, data):
            r = self.real.update(data)
            self._switch()
            return r

        def update_into(self, data, buf):
            n = self.real.update_into(data, buf)
            self._switch()
            return n
    for trial in range(ctx.scale(24, 200)):
        sa, sb_ = bytes(rng.randrange(256) for _ in range(16)), bytes(rng.randrange(256) for _ in range(16))
        ca, cb_ = E.create_AES_cipher(sa), E.create_AES_cipher(sb_)
        ia, ib = Inner(), Inner()
        ea, da, eb, db = SwitchCtx(ca.encryptor()), SwitchCtx(ca.decryptor()), SwitchCtx(cb_.encryptor()), SwitchCtx(cb_.decryptor())
        wa, wb = E.EncryptedSocketWrapper(ia, ea, da), E.EncryptedSocketWrapper(ib, eb, db)
        fa = E.EncryptedFileObjectWrapper(ia, da)
        out_a = bytes(rng.randrange(256) for _ in range(rng.choice([1, 5, 40])))
        out_b = bytes(rng.randrange(256) for _ in range(rng.choice([1, 7, 33])))
        in_a = bytes(rng.randrange(256) for _ in range(rng.choice([1, 6, 50])))
        ia.inbox = refcodec.CFB8(sa, encrypt=True).update(in_a)
        got = {}
        kind = ['send|recv', 'recv|send', 'send|other-send', 'read|other-send'][trial % 4]
        if kind == 'send|recv':
            ea.hook = lambda: got.__setitem__('in', wa.recv(len(in_a)))
            wa.send(out_a)
        elif kind == 'recv|send':
            da.hook = lambda: wa.send(out_a)
            got['in'] = wa.recv(len(in_a))
        elif kind == 'send|other-send':
            ea.hook = lambda: wb.send(out_b)
            wa.send(out_a)
        else:
            da.hook = lambda: wb.send(out_b)
            got['in'] = fa.read(len(in_a))
        ctx.case(('switch', trial, kind))
        ctx.count('switch.' + kind)
        bad = None
        if b''.join(ia.sent) != (refcodec.CFB8(sa, encrypt=True).update(out_a) if 'other' not in kind or kind.startswith('send') else b''):
            bad = 'bytes sent on connection A are not the CFB8 encryption of its plaintext'
        elif 'in' in got and got['in'] != in_a:
            bad = 'bytes received on connection A do not decrypt to what the peer encrypted'
        elif 'other' in kind and b''.join(ib.sent) != refcodec.CFB8(sb_, encrypt=True).update(out_b):
            bad = 'bytes sent on connection B are not the CFB8 encryption of its plaintext'
        if bad:
            ctx.violation('thread switch between a cipher call and the use of its result (%s): %s' % (kind, bad),
                          {'kind': kind, 'secret_a': hx(sa), 'secret_b': hx(sb_)}, key={'kind': 'switch', 'schedule': kind})
    # ---- overlapping logins: while the key of server A is being loaded, a complete token/secret encryption
    # for server B runs (another connection's login); afterwards each key holder recovers its own values
    real_load = E.load_der_public_key
    for trial in range(ctx.scale(6, 30)):
        ka, kb = (rsakeys.RSA_1024, rsakeys.RSA_2048) if trial % 2 else (rsakeys.RSA_2048, rsakeys.RSA_1024)
        res = {}
        depth = {'n': 0}

        def load(der, *a, **k):
            depth['n'] += 1
            try:
                if depth['n'] == 1 and der == ka['der']:
                    key = real_load(der, *a, **k) if trial % 3 else None
                    res['b'] = E.encrypt_token_and_secret(kb['der'], b'tokB', b'B' * 16)      # the other login, complete
                    return key if key is not None else real_load(der, *a, **k)
                return real_load(der, *a, **k)
            finally:
                depth['n'] -= 1
        E.load_der_public_key = load
        try:
            for nm_, k_, t_, s_ in (('a', ka, b'tokA', b'A' * 16), ('b2', kb, b'tokB2', b'b' * 16), ('a2', ka, b'tokA2', b'a' * 16)):
                try:                                  # ('b2', 'a2': later logins to B and to A)
                    res[nm_] = E.encrypt_token_and_secret(k_['der'], t_, s_)
                except Exception as e_:
                    res[nm_] = e_                     # judged below: the key holder does not get its values
        finally:
            E.load_der_public_key = real_load
        ctx.case(('overlapping-logins', trial))
        for name, key, tok, sec in (('a', ka, b'tokA', b'A' * 16), ('b', kb, b'tokB', b'B' * 16),
                                    ('b2', kb, b'tokB2', b'b' * 16), ('a2', ka, b'tokA2', b'a' * 16)):
            try:
                if isinstance(res.get(name), Exception):
                    raise res[name]
                et, es = res[name]
                rt, rs = refcodec.rsa_pkcs1v15_decrypt(key, et), refcodec.rsa_pkcs1v15_decrypt(key, es)
            except Exception as e:
                rt = rs = 'encrypt_token_and_secret raised ' + repr(e)
            if rt != tok or rs != sec:
                ctx.violation('overlapping logins to two servers: the holder of key %s does not recover token/secret of login %r'
                              % ('A' if key is ka else 'B', name), {'login': name, 'got_token': repr(rt)[:60]},
                              key={'kind': 'overlapping-logins', 'login': name})
                break
    # ---- a transient failure of the inner socket (EINTR/EAGAIN-style): whatever a wrapper call does
    # about it, the bytes that reach the wire must stay ONE CFB8 stream of the plaintext of the calls
    # that returned normally (a call that raises ends the trial: the channel is then broken by design)
    import errno
    for trial in range(ctx.scale(40, 300)):
        secret = bytes(rng.randrange(256) for _ in range(16))
        cipher = E.create_AES_cipher(secret)
        inner = Inner()
        fail_at = rng.randrange(0, 6)
        kind = rng.choice([errno.EINTR, errno.EAGAIN])
        calls = {'n': 0}
        real_send = inner.send

        def flaky(d, real_send=real_send, calls=calls, fail_at=fail_at, kind=kind):
            calls['n'] += 1
            if calls['n'] - 1 == fail_at:
                raise (InterruptedError if kind == errno.EINTR else BlockingIOError)(kind, 'transient')
            return real_send(d)
        inner.send = flaky
        sw = E.EncryptedSocketWrapper(inner, cipher.encryptor(), cipher.decryptor())
        chunks = [c for c in partition(rng, bytes(rng.randrange(256) for _ in range(rng.choice([20, 100, 400])))) if c]
        ok_plain = b''
        raised = None
        for c in chunks:
            try:
                sw.send(c)
                ok_plain += c
            except OSError as e:
                raised = e
                break
        wire = b''.join(inner.sent)
        ctx.case(('flaky-send', trial, fail_at, kind))
        ctx.count('flaky-send.' + ('raised' if raised else 'returned'))
        if wire != refcodec.CFB8(secret, encrypt=True).update(ok_plain):
            ctx.violation('inner send failed once (errno %d) at call %d; the sends that returned normally carried %d bytes '
                          'but the wire holds %d bytes that are not their CFB8 stream'
                          % (kind, fail_at, len(ok_plain), len(wire)),
                          {'secret': hx(secret), 'fail_at': fail_at, 'errno': kind, 'chunks': [hx(c)[:40] for c in chunks][:10]},
                          key={'kind': 'flaky-send', 'fail_at': fail_at, 'errno': kind})
        # same for the inbound direction: a failed inner read must not consume or duplicate keystream
        inner = Inner()
        plain_in = bytes(rng.randrange(256) for _ in range(120))
        inner.inbox = refcodec.CFB8(secret, encrypt=True).update(plain_in)
        real_recv = inner.recv
        calls2 = {'n': 0}

        def flaky_recv(n, real_recv=real_recv, calls2=calls2, fail_at=fail_at, kind=kind):
            calls2['n'] += 1
            if calls2['n'] - 1 == fail_at:
                raise (InterruptedError if kind == errno.EINTR else BlockingIOError)(kind, 'transient')
            return real_recv(n)
        inner.recv = inner.read = flaky_recv
        cipher = E.create_AES_cipher(secret)
        dec = cipher.decryptor()
        sw = E.EncryptedSocketWrapper(inner, cipher.encryptor(), dec)
        fw = E.EncryptedFileObjectWrapper(inner, dec)
        got = b''
        for _ in range(200):
            if len(got) >= len(plain_in):
                break
            try:
                got += (sw.recv if rng.random() < 0.5 else fw.read)(rng.choice([1, 5, 16, 40]))
            except OSError:
                continue            # the caller tries again later, as select-driven code does
        ctx.case(('flaky-recv', trial, fail_at, kind))
        if got != plain_in:
            ctx.violation('inner read failed once (errno %d) at call %d; the stream read afterwards is not the plaintext'
                          % (kind, fail_at), {'secret': hx(secret), 'fail_at': fail_at}, key={'kind': 'flaky-recv', 'fail_at': fail_at})
    # ---- the REAL installation point: LoginReactor.react on an encryption request, then the inbound
    # stream consumed through BOTH installed wrappers (socket.recv and file_object.read) in a mixed partition
    import simnet
    from refserver import RefServer
    import minecraft.networking.connection as C
    import refproto as rp18
    for trial in range(ctx.scale(12, 60)):
        v18 = [757, 757, 47, 47, 340, 578][trial // 2 % 6]      # an independent server of several releases, 1.8 included
        ka_wide = rp18.layout('keep_alive_cb', v18)[0][1] == 'i64'
        ka_sb = rp18.packet_id('keep_alive_sb', v18)
        cont = trial % 2 == 1      # the server goes on (encrypted) right after the response, in the same batch
        # (sometimes a plugin request precedes the encryption request in the same batch: its queued answer
        # must not get ahead of the forced, plaintext encryption response)
        cfg = {'version': v18, 'script': ([('plugin', 7, 'ch', b'x')] if trial % 5 == 4 and v18 >= 385 else []) +
               [('encrypt', 'srv', b'tok%d' % trial)] +
               ([('compress', 64)] * (trial % 4 == 3) + [('success',), ('keepalive', 77 + trial)] if cont else []),
               'rsa': rng.choice(['1024', '2048'])}
        if cont and trial % 3 == 0:
            import random
            cfg['stream_rng'] = random.Random(rng.getrandbits(32))
        with simnet.Net(lambda s_: RefServer(s_, cfg)) as net:
            excs18 = []
            conn = C.Connection('h', 1, username='u', allowed_versions={v18}, handle_exception=lambda e, i: excs18.append(e))
            conn.connect()
            net.run_threads()                      # login start -> encryption request -> response; then idle
            srv = cfg['servers'][0]
            if cont:
                ctx.case(('install-continue', trial))
                ka = [f for f in srv.frames if f[0] == 'play' and f[1] == ka_sb]
                ka_body = (77 + trial).to_bytes(8, 'big') if ka_wide else refcodec.varint(77 + trial)
                if excs18 or type(conn.reactor).__name__ != 'PlayingReactor' or not ka or \
                        ka[0][2] != ka_body or not ka[0][3] or not getattr(srv, 'token_ok', False):
                    ctx.violation('protocol %d: the server continues encrypted right after the encryption response (success, keep-alive %d): '
                                  'client state %s, exceptions %r, token recovered by the server: %s, play frames seen by the server %r'
                                  % (v18, 77 + trial, type(conn.reactor).__name__, excs18[:1], getattr(srv, 'token_ok', None),
                                     [(f[1], f[2].hex(), f[3]) for f in ka][:2]),
                                  {'trial': trial, 'version': v18}, key={'kind': 'install-continue', 'version': v18})
                    continue
            ctx.case(('install', trial), sample={'installation': 'LoginReactor', 'key': cfg['rsa']})
            if srv.secret is None or type(conn.socket).__name__ != 'EncryptedSocketWrapper' or not getattr(srv, 'token_ok', False):
                ctx.violation('protocol %d, %s-bit key: encryption was not installed after the encryption request (an independent server: '
                              'secret recovered=%s, token matches=%s, client errors %r)'
                              % (v18, cfg['rsa'], srv.secret is not None, getattr(srv, 'token_ok', None), excs18[:1]),
                              {'trial': trial, 'version': v18}, key={'kind': 'install', 'version': v18})
                continue
            plain_in = bytes(rng.randrange(256) for _ in range(rng.choice([40, 300, 1500])))
            net.sockets[0].inbox.feed(srv.enc.update(plain_in))
            got = b''
            try:
                while len(got) < len(plain_in):
                    n = rng.choice([1, 2, 5, 16, 17, 100])
                    piece = conn.socket.recv(n) if rng.random() < 0.5 else conn.file_object.read(n)
                    if not piece:
                        break
                    got += piece
            except simnet.Stall:
                ctx.violation('a wrapper read blocks for bytes that have not been sent (it asked the inner '
                              'stream again after a short read)', {'received': len(got)}, key={'kind': 'install-stall'})
            plain_out = bytes(rng.randrange(256) for _ in range(200))
            fsock = net.sockets[0]
            fsock.server = None                     # just record what reaches the wire from now on
            before = len(fsock.sent)
            for part in partition(rng, plain_out):
                if part:
                    conn.socket.send(part)
            wire_out = bytes(fsock.sent[before:])
            if got != plain_in:
                ctx.violation('after the real installation point, the inbound stream read through socket.recv '
                              'and file_object.read does not decrypt as one CFB8 stream',
                              {'first_bad_offset': next((i for i, (a, b) in enumerate(zip(got, plain_in)) if a != b), len(got))},
                              key={'kind': 'install-recv'})
            if srv.dec.update(wire_out) != plain_out:      # the server's decryptor: the stream continues
                ctx.violation('after the real installation point, sent bytes are not CFB8(secret) of the plaintext',
                              {}, key={'kind': 'install-send'})
            # whole PACKETS through Packet.write on the installed wrapper, small and large (several KiB)
            if not cont and (trial < 4 or ctx.thorough):
                from minecraft.networking.packets import serverbound as sbp_
                for size in (10, 4000, 4096, 4097, 5000, 9000):
                    pm = sbp_.play.PluginMessagePacket(channel='x:y', data=bytes(rng.randrange(256) for _ in range(size)))
                    pm.context = conn.context
                    mark = len(fsock.sent)
                    pm.write(conn.socket)
                    ct = bytes(fsock.sent[mark:])
                    body = refcodec.varint(pm.get_id(conn.context)) + refcodec.string('x:y') + pm.data
                    want_plain = refcodec.varint(len(body)) + body
                    got_plain = srv.dec.update(ct)
                    ctx.case(('install-packet', trial, size))
                    if got_plain != want_plain:
                        k0 = next((i for i, (a, b) in enumerate(zip(got_plain, want_plain)) if a != b), min(len(got_plain), len(want_plain)))
                        ctx.violation('a %d-byte plugin message written through Packet.write on the encrypted connection does not '
                                      'decrypt to its frame at the server (first difference at byte %d of %d; plaintext on the wire: %s)'
                                      % (size, k0, len(want_plain), ct[k0:k0 + 16] == want_plain[k0:k0 + 16]),
                                      {'size': size}, key={'kind': 'install-packet', 'size': size})
                        break
    # ---- every login draws its own secret, also when the SAME Connection object logs in again
    for trial in range(ctx.scale(4, 20)):
        cfg = {'version': 757, 'script': [('encrypt', 'srv', b'again'), ('success',)], 'rsa': '1024'}
        with simnet.Net(lambda s_: RefServer(s_, cfg)) as net:
            conn = C.Connection('h', 1, username='u', allowed_versions={757}, handle_exception=lambda e, i: None)
            secrets = []
            for k in range(3):
                cfg['script'] = [('encrypt', 'srv', b'again%d' % k), ('success',)]
                conn.connect()
                net.run_threads()
                secrets.append(cfg['servers'][-1].secret)
                conn.disconnect()
                net.run_threads()
        ctx.case(('relogin-secrets', trial))
        if any(s_ is None or len(s_) != 16 for s_ in secrets) or len(set(secrets)) != len(secrets):
            ctx.violation('three logins of one Connection object used the shared secrets %r: not fresh per login'
                          % ([s_ and s_.hex() for s_ in secrets],), {'secrets': [s_ and s_.hex() for s_ in secrets]},
                          key={'kind': 'relogin-secret'})
    # ---- AES block function itself: Lean vs cryptography vs refcodec
    from cryptography.hazmat.primitives.ciphers import Cipher, algorithms, modes
    blocks = [(bytes(rng.randrange(256) for _ in range(16)), bytes(rng.randrange(256) for _ in range(16)))
              for _ in range(ctx.scale(100, 1000))]
    outs = ctx.driver.ask(['aes.block %s %s' % (hx(k), hx(b)) for k, b in blocks])
    for (k, b), mo in zip(blocks, outs):
        e = Cipher(algorithms.AES(k), modes.ECB()).encryptor()
        lib_ct = e.update(b)
        ctx.case(('aes', k, b))
        if mo != 'ok ' + lib_ct.hex() or refcodec.aes128_encrypt_block(k, b) != lib_ct:
            ctx.disagree('AES block', [hx(k), hx(b)], mo, lib_ct.hex())
    # ---- secret and token reach the key holder exactly
    for name, key in (('1024', rsakeys.RSA_1024), ('2048', rsakeys.RSA_2048)):
        for tl in range(1, 65):
            token = bytes(rng.randrange(256) for _ in range(tl))
            secret = E.generate_shared_secret()
            ctx.case(('rsa', name, tl), sample={'key_bits': name, 'token_len': tl})
            try:
                et, es = E.encrypt_token_and_secret(key['der'], token, secret)
                rt, rs = refcodec.rsa_pkcs1v15_decrypt(key, et), refcodec.rsa_pkcs1v15_decrypt(key, es)
            except Exception as e:
                rt = rs = repr(e)
            if rt != token or rs != secret:
                ctx.violation('key holder does not recover token/secret (PKCS#1 v1.5, %s-bit key)' % name,
                              {'token': hx(token), 'secret': hx(secret), 'got_token': repr(rt)[:80]},
                              key={'rsa': name, 'token_len': tl})
    # ---- the shared secret is ONE fresh 16-byte draw per call
    draws = []
    import os as _os
    import random as _random
    real = _os.urandom

    def spy(n):
        r = real(n)
        draws.append((n, r))
        return r
    _os.urandom = spy            # the os module itself: whatever name the library reaches it by
    try:
        secrets = []
        for k in range(64):
            if k % 8 == 0:
                _random.seed(1234)          # a process that seeds `random` must not get repeated secrets
            secrets.append(E.generate_shared_secret())
    finally:
        _os.urandom = real
    ctx.case(('secret-draws',))
    if [n for n, _ in draws] != [16] * 64 or [r for _, r in draws] != secrets \
            or any(len(s) != 16 for s in secrets) or len(set(secrets)) != 64:
        ctx.violation('shared secret is not one fresh 16-byte os.urandom draw per login',
                      {'draw_sizes': [n for n, _ in draws][:8], 'distinct': len(set(secrets))},
                      key={'kind': 'secret-draw'})
    keys_tie(ctx)


def keys_tie(ctx):
    """Tie of Model/C18Keys.lean (driver `keys.run`, `kstack`, `kchan`) to the real code.  The observation script
    harness/xcheck/c18keys_xcheck.py <N> <seed> replaces os.urandom process-wide while it runs, hence a subprocess
    (which also bounds the run: a hang of the code under test ends in the timeout and is reported as a
    disagreement).  It prints `request<TAB>expected` lines: the real LoginReactor on recording socket / file
    objects with a table of os.urandom draws (chunks given to the real socket, number of draws, join arguments,
    reactor state, exception, secrets recovered with the raw RSA private-key operation), and the real wrapper
    classes nested 0-3 deep.  All randomness from the seed drawn here from ctx.rng."""
    import os
    import subprocess
    import sys
    import lib
    script = os.path.join(os.path.dirname(os.path.dirname(os.path.abspath(__file__))), 'xcheck', 'c18keys_xcheck.py')
    n = ctx.scale(40, 600)
    seed = ctx.rng.getrandbits(48)
    env = dict(os.environ, PYCRAFT_REPO=lib.REPO, PYTHONDONTWRITEBYTECODE='1')
    try:
        p = subprocess.run([sys.executable, script, str(n), str(seed)], capture_output=True, text=True, env=env,
                           timeout=60 + n)
    except subprocess.TimeoutExpired:
        ctx.disagree('keys.run/kstack: the real-code observation script did not finish in %d s (the code under test '
                     'hangs or spins)' % (60 + n), [script, n, seed], None, 'timeout')
        return
    pairs = [l.split('\t') for l in p.stdout.splitlines()]
    if p.returncode != 0 or len(pairs) < 2 * n or any(len(x) != 2 for x in pairs):
        ctx.disagree('keys.run/kstack: the real-code observation script could not run against this tree',
                     [script, n, seed], None, (p.stderr or p.stdout)[-1500:])
        return
    npairs = {}
    for (req, exp), mo in zip(pairs, ctx.driver.ask([q for q, _ in pairs])):
        cmd = req.split(' ', 1)[0]
        if mo == 'skip:deflate':              # zlib is a parameter of the model: such a run is not rendered
            ctx.count('keys.skipped-deflate')
            continue
        ctx.case(('c18keys', req), sample={'op': cmd, 'impl': exp[:160]} if cmd == 'keys.run' else None)
        ctx.count('keys.' + cmd)
        npairs[cmd] = npairs.get(cmd, 0) + 1
        if cmd == 'keys.run':
            ctx.count('keys.run.requests', sum(t.startswith('enc:') for t in req.split()))
            ctx.count('keys.run.err.' + exp.rsplit(' err=', 1)[-1].split(':')[0].split(' ')[0])
        if mo != exp:
            ctx.disagree({'keys.run': 'keys.run vs the real LoginReactor on a recording socket with stubbed os.urandom',
                          'kstack': 'kstack vs the real wrapper classes nested',
                          'kchan': 'kchan vs the real wrapper classes'}.get(cmd, cmd), req[:3000], mo[:1500], exp[:1500])
    for cmd, k in npairs.items():
        name = 'c18%s_pairs' % cmd.replace('.', '')
        ctx.extra[name] = ctx.extra.get(name, 0) + k


def replay(ctx, rp):
    for v in rp.get('violations', []):
        print(v)
    return not rp.get('violations')
