"""C12: concurrent writers.  The REAL write path (write_packet / _pop_packet / disconnect /
NetworkingThread._run) runs on real threads under the baton scheduler (harness/sched.py), yielding at
exactly the atomic actions of Model/Writers.lean.  The schedule actually executed is replayed through
the Lean model, which must produce the same event log, wire and final state (trace refinement); the
oracle parses the server-side byte stream independently."""
import threading
import types
import zlib

import refcodec as rc
import sched as SC

EXTRA_PROPS = ['C12Bytes', 'C12Final', 'C12Progress']

RULE = ("1..4 user threads with programs over {queued write, forced write, graceful disconnect, "
        "immediate disconnect} (0..5 ops each, distinct packets) against the networking thread's own "
        "write loop; schedules: seeded random walks over the enabled threads with random bias towards or "
        "away from the networking thread (quick), plus systematic enumeration of all schedules of small "
        "scenarios up to a preemption bound (thorough); plain, compressed and encrypted transports; "
        "distinct by (programs, executed schedule)")


def gen_programs(rng, nthreads=None):
    n = nthreads or rng.randint(1, 4)
    pid = 1
    progs = []
    for _ in range(n):
        ops = []
        for _ in range(rng.randint(0, 5)):
            r = rng.random()
            if r < 0.45:
                ops.append(('q', pid))
                pid += 1
            elif r < 0.8:
                ops.append(('f', pid))
                pid += 1
            else:
                ops.append(('d', rng.randint(0, 1)))
        progs.append(ops)
    if not any(k == 'd' for ops in progs for k, _ in ops):
        progs[rng.randrange(n)].append(('d', rng.randint(0, 1)))     # the final disconnect
    return progs


def prog_str(progs):
    return ';'.join(','.join('%s%d' % op for op in ops) or '-' for ops in progs) or '-'


def scenario(C, E, progs, choose, transport='plain', capw=300, capr=50, fine=False, listener=None, fail_prefix=None,
             shutdown_fails=False, stall_w=0, fail_user_body=None):
    """run one scenario to completion; returns dict(log, ran, wire bytes, …)"""
    from minecraft.networking.packets import serverbound
    rng_dummy = None
    S = SC.Sched(rng_dummy)
    pid_of = lambda pk: pk.pid
    ILock = SC.make_lock_class(S)

    class FLock(ILock):            # `fail`: an exception passing through `with lock:` (forced write on a closed socket)
        def __exit__(self, et, ev, tb):
            if et is not None and S.me() is not None:
                S.before('fail')
                S.emit('fail')
            self.release()
            if fine and S.me() is not None:      # fine-grained mode: a preemption point right AFTER the release
                S.before('post')
                S.emit('post')
    IDeque = SC.make_deque_class(S, pid_of)
    saved = (C.RLock, C.deque, C.select, C.Connection._write_packet)
    C.RLock, C.deque, C.select = FLock, IDeque, SC.make_select(S)
    orig_wp = saved[3]

    def _wp(self, packet):          # wrapper (keeps the original body): remember which packet is being written
        S.current_pkt[S.me()] = packet.pid
        return orig_wp(self, packet)
    C.Connection._write_packet = _wp
    INT = SC.make_nt_class(S, C)
    try:
        Conn = C.Connection
        if fine:
            class Conn(C.Connection):        # every access to the shared `socket` attribute is a preemption point
                def _g(self):
                    if S.me() is not None:
                        S.before('sock')
                        S.emit('sock', 'r')
                    return self.__dict__.get('_sock')

                def _s(self, v):
                    if S.me() is not None:
                        S.before('sock')
                        S.emit('sock', 'w')
                    self.__dict__['_sock'] = v
                socket = property(_g, _s)
        conn = Conn('h', 1, username='u', allowed_versions={757})
        attached = isinstance(conn._write_lock, FLock)
        isock = SC.ISock(S)
        isock.fail_prefix = fail_prefix
        isock.shutdown_fails = shutdown_fails
        isock.stall_w = stall_w
        isock.fail_user_body = fail_user_body
        # the transport is set up by the library's own _connect() (queue creation included) against a
        # stand-in for the socket module whose socket() is the instrumented one
        import socket as real_socket
        isock.connect = lambda addr: None
        isock.makefile = lambda *a, **k: SC.IFile()
        fake_mod = types.SimpleNamespace(**{k: getattr(real_socket, k) for k in dir(real_socket) if not k.startswith('__')})
        fake_mod.getaddrinfo = lambda *a, **k: [(real_socket.AF_INET, real_socket.SOCK_STREAM, 6, '', ('127.0.0.1', 1))]
        fake_mod.socket = lambda *a, **k: isock
        saved_socket_mod = C.socket
        C.socket = fake_mod
        try:
            conn._connect()
        finally:
            C.socket = saved_socket_mod
        via_connect = isinstance(conn._outgoing_packet_queue, IDeque) and conn.socket is isock
        conn.socket = isock
        secret = bytes(range(1, 17))
        if transport == 'encrypted':
            ciph = E.create_AES_cipher(secret)
            conn.socket = E.EncryptedSocketWrapper(isock, ciph.encryptor(), ciph.decryptor())
        conn.file_object = SC.IFile()
        conn.connected = True
        if not via_connect:          # _connect() no longer builds the queue from the module-level deque
            conn._outgoing_packet_queue = IDeque()
        conn.reactor = C.PlayingReactor(conn)
        if transport == 'compressed':
            conn.options.compression_enabled = True
            conn.options.compression_threshold = 4
        if listener is not None:
            # a late OUTGOING packet listener that calls back into the connection while the write lock is
            # held re-entrantly: (trigger packet, 'd' graceful disconnect | 'f' forced write | 'q' queued write)
            trig, act = listener

            def on_out(pk):
                if getattr(pk, 'pid', None) != trig:
                    return
                if act == 'x':
                    raise ValueError('listener refuses packet %d' % trig)
                if act == 'd':
                    conn.disconnect()
                else:
                    extra = serverbound.play.ChatPacket(message='m%d' % (900 + trig) + 'x' * ((900 + trig) % 7))
                    extra.pid = 900 + trig
                    conn.write_packet(extra, force=(act == 'f'))
            conn.register_packet_listener(on_out, serverbound.play.ChatPacket, outgoing=True, early=(act == 'x'))
        nt = INT(conn)
        nt.sched_tid = 0
        conn.networking_thread = nt
        S.add(0)
        caller_errors = []
        dmarks = []          # [tid, immediate, log length at the call, log length at the return] of every disconnect() call

        def user(tid, ops):
            def body():
                for kind, arg in ops:
                    if kind == 'z':
                        # what the reactor does when it has read Set Compression (no lock involved)
                        S.before('zon')
                        conn.options.compression_threshold = arg
                        conn.options.compression_enabled = True
                        S.emit('zon')
                    elif kind == 'E':
                        # a caller that falls back to an immediate disconnect whatever the graceful one raised
                        try:
                            conn.disconnect()
                        except Exception:
                            try:
                                conn.disconnect(immediate=True)
                            except Exception as e:
                                caller_errors.append((tid, 'disconnect', repr(e)))
                        S.before('ddone')
                        S.emit('ddone')
                    elif kind == 'D':
                        # what PlayingReactor does on a server disconnect: graceful, and if the flush
                        # fails, immediate
                        try:
                            try:
                                conn.disconnect()
                            except IOError:
                                conn.disconnect(immediate=True)
                        except Exception as e:
                            caller_errors.append((tid, 'disconnect', repr(e)))
                        S.before('ddone')
                        S.emit('ddone')
                    elif kind == 'd':
                        mark = [tid, bool(arg), len(S.log), None]
                        dmarks.append(mark)
                        try:
                            conn.disconnect(immediate=bool(arg))
                        except Exception as e:
                            caller_errors.append((tid, 'disconnect', repr(e)))
                        mark[3] = len(S.log)
                    else:
                        pk = serverbound.play.ChatPacket(message='m%d' % arg + 'x' * (arg % 7))
                        pk.pid = arg
                        try:
                            conn.write_packet(pk, force=(kind == 'f'))
                        except AttributeError:
                            pass                     # forced write after the socket was closed (socket is None)
                        except OSError as e:
                            caller_errors.append((tid, 'write', repr(e)))
                        except Exception as e:
                            caller_errors.append((tid, 'write', repr(e)))
            return SC.user_thread(S, tid, body)
        threads = [nt] + [user(i + 1, ops) for i, ops in enumerate(progs)]
        tids = list(range(len(progs) + 1))
        for t in threads:
            t.start()
        stuck = None
        try:
            ok = S.run(tids, choose)
        except SC.Deadlock as e:
            stuck = str(e)
            S.kill()
        for t in threads:
            t.join(timeout=5)
        import collections
        queue_left = [x.pid for x in collections.deque.__iter__(conn._outgoing_packet_queue)]
        return dict(S=S, log=S.log, ran=S.ran, wire=isock.wire, closed=isock.closed, queue=queue_left,
                    attached=attached and via_connect, errors=S.errors, caller_errors=caller_errors, secret=secret, stuck=stuck,
                    nt_slot=conn.networking_thread, dmarks=dmarks)
    finally:
        C.RLock, C.deque, C.select, C.Connection._write_packet = saved


def fmt_log(log):
    out = []
    for ev in log:
        out.append(':'.join(str(x) for x in ev))
    return ','.join(out) or '-'


def oracle(ctx, progs, r, transport, label, extra_issued=(), stream_only=False):
    """the property on the server-side byte stream"""
    data = b''.join(b for _, _, _, b in r['wire'])
    if transport == 'encrypted':
        data = rc.CFB8(r['secret'], encrypt=False).update(data)
    try:
        frames, left = rc.parse_frames(data, compressed=(transport == 'compressed'))
    except Exception as e:
        frames, left = None, repr(e)
    bad = None
    issued = {arg: (t + 1, k) for t, ops in enumerate(progs) for k, arg in ops if k != 'd'}
    for x in extra_issued:
        issued[x] = (0, 'f')
    if frames is None or left:
        bad = 'byte stream is not a sequence of whole well-formed frames (%r)' % (left[:20] if frames is not None else left,)
    else:
        seen = []
        for pid_, payload in frames:
            try:
                msg, _ = rc.read_string(payload, 0)
                p = int(msg[1:].rstrip('x'))
            except Exception:
                bad = 'a frame does not decode to an issued packet: %r' % payload[:20]
                break
            if msg != 'm%d' % p + 'x' * (p % 7) or p not in issued:
                bad = 'a frame does not decode to an issued packet: %r' % msg
                break
            seen.append(p)
        if not bad and len(seen) != len(set(seen)):
            bad = 'a packet reached the wire twice: %r' % seen
        if not bad:
            for t, ops in enumerate(progs):
                qs = [arg for k, arg in ops if k == 'q']
                pos = [seen.index(p) for p in qs if p in seen]
                if pos != sorted(pos):
                    bad = 'queued packets of thread %d out of order on the wire: %r' % (t + 1, seen)
                sent_flags = [p in seen for p in qs]
                if any(b and not a for a, b in zip(sent_flags, sent_flags[1:])):
                    bad = 'thread %d: a later queued packet was sent but an earlier one was not' % (t + 1)
        if not bad:
            # graceful disconnect: everything queued before its lock acquisition is on the wire when it returns;
            # nothing is sent after the close
            log = r['log']
            cls_at = next((i for i, e in enumerate(log) if e[1] == 'cls'), None)
            if cls_at is not None and any(e[1] == 'snd' for e in log[cls_at:]):
                bad = 'bytes were sent after the socket was closed'
            for t, ops in enumerate(progs if not stream_only else []):
                tid = t + 1
                dcount = 0
                for k, arg in ops:
                    if k == 'd':
                        dcount += 1
                if not any(k == 'd' and not arg for k, arg in ops):
                    continue
                # this thread's disconnect(immediate=False) calls (positions in the log recorded by the harness thread itself):
                # if the call is the one that closes the socket (shut/cls inside its lock section), everything queued and not yet
                # popped when it took the lock has been sent when it releases the lock
                for mtid, mimm, lo, hi in r.get('dmarks', []):
                    if mtid != tid or mimm or bad:
                        continue
                    hi = len(log) if hi is None else hi
                    i = next((x for x in range(lo, hi) if log[x][0] == tid and log[x][1] == 'acq'), None)
                    if i is None:
                        continue
                    j = i + 1
                    kinds = []
                    while j < len(log) and not (log[j][0] == tid and log[j][1] == 'rel'):
                        if log[j][0] == tid:
                            kinds.append(log[j][1])
                        j += 1
                    if 'shut' in kinds or 'cls' in kinds:          # it had a socket to close
                        queued_before = [e[2] for e in log[:i] if e[1] == 'app']
                        popped_before = [e[2] for e in log[:i] if e[1] == 'pop']
                        pending = [p for p in queued_before if p not in popped_before]
                        sent_by_then = [e[2] for e in log[:j] if e[1] == 'snd' and e[3] == 1]
                        missing = [p for p in pending if p not in sent_by_then]
                        if missing:
                            bad = 'graceful disconnect of thread %d returned without sending queued %r' % (tid, missing)
    if r['caller_errors']:
        bad = bad or 'an API call raised to its caller: %r' % (r['caller_errors'][:2],)
    if r.get('stuck'):
        # every program contains a disconnect, after which the networking thread must end
        bad = bad or 'the threads do not come to rest although a disconnect was executed (%s)' % r['stuck']
    if bad:
        ctx.violation('%s: %s' % (label, bad),
                      {'programs': prog_str(progs), 'schedule': r['ran'], 'transport': transport},
                      key={'programs': prog_str(progs), 'schedule': r['ran'], 'transport': transport})


def _direct_scenarios(ctx, C, rng):
    # ---- a forced write that fails while the packet is being serialised (incomplete packet: nothing sent) leaves nothing
    # behind: the packets written afterwards on that connection (queued and forced) are exactly their own frames
    import types as _types
    import simnet
    from refserver import RefServer
    from minecraft.networking.packets import serverbound as sb2_
    for trial in range(ctx.scale(6, 40)):
        wire = []
        conn = C.Connection('h', 1, username='u', allowed_versions={757})
        conn.socket = _types.SimpleNamespace(send=lambda d: wire.append(bytes(d)) or len(d), shutdown=lambda how: None, close=lambda: None)
        conn.connected = True
        if not hasattr(conn, '_outgoing_packet_queue'):
            conn._outgoing_packet_queue = C.deque()         # (created by _connect(), which this scenario does not run)
        thr = [None, 4, 64][trial % 3]
        if thr is not None:
            conn.options.compression_enabled, conn.options.compression_threshold = True, thr
        failed = None
        try:
            conn.write_packet(sb2_.play.ChatPacket(), force=True)          # no `message`: serialisation raises
        except Exception as e:
            failed = type(e).__name__
        msgs = ['after-%d-%d' % (trial, k) for k in range(rng.randint(1, 3))]
        for k, m_ in enumerate(msgs):
            conn.write_packet(sb2_.play.ChatPacket(message=m_), force=(k % 2 == 0))
        conn.disconnect()
        ctx.case(('residue-after-failed-write', trial, thr))
        data = b''.join(wire)
        try:
            frames, left = rc.parse_frames(data, compressed=thr is not None)
            got = [rc.read_string(pl, 0)[0] for _, pl in frames]
        except Exception as e:
            frames, left, got = None, repr(e), None
        if failed is None or left or got is None or sorted(got) != sorted(msgs):
            ctx.violation('a forced write of an incomplete packet raised %s (nothing sent); the %d packets written afterwards (threshold %r) '
                          'arrive as %r, expected exactly %r' % (failed, len(msgs), thr, got if got is not None else left, msgs),
                          {'threshold': thr}, key={'kind': 'residue-after-failed-write', 'thr': thr})
    # ---- the write lock is ONE lock for the life of the object: a writer that was waiting for it while a (re)connect was in
    # progress and a writer that comes afterwards still exclude each other (U's two sends stay adjacent)
    import threading as _th
    import time as _time
    for trial in range(ctx.scale(2, 6)):
        cfg = {'version': 757, 'script': []}
        wire2 = []
        with simnet.Net(lambda s_: RefServer(s_, cfg)) as net:
            conn = C.Connection('h', 1, username='u', allowed_versions={757})
            lock0 = conn._write_lock
            lock0.acquire()                       # a connect() in progress holds the write lock throughout
            u_first, main_done, u_started = _th.Event(), _th.Event(), _th.Event()
            try:
                def u_body():
                    u_started.set()
                    try:
                        conn.write_packet(sb2_.play.ChatPacket(message='from-U'), force=True)
                    except Exception as e:
                        wire2.append(('U', 'raised %r' % (e,)))
                tU = _th.Thread(target=u_body, name='U', daemon=True)
                tU.start()
                u_started.wait(2)
                _time.sleep(0.1)                  # U is now waiting for the lock
                conn._connect()
                real_sock = conn.socket
                state = {'n': 0}

                class Proxy:
                    def send(self_, d):
                        who = _th.current_thread().name
                        wire2.append((who, bytes(d)))
                        if who == 'U':
                            state['n'] += 1
                            if state['n'] == 1:
                                u_first.set()
                                main_done.wait(0.4)      # bounded: gives another writer the chance to get in between
                        return len(d)

                    def __getattr__(self_, a):
                        return getattr(real_sock, a)
                conn.socket = Proxy()
            finally:
                lock0.release()
            u_first.wait(2)
            try:
                conn.write_packet(sb2_.play.ChatPacket(message='from-main'), force=True)
            except Exception as e:
                wire2.append(('main', 'raised %r' % (e,)))
            main_done.set()
            tU.join(3)
        ctx.case(('lock-across-connect', trial))
        who_seq = [w for w, _ in wire2]
        ok = who_seq in (['U', 'U', 'MainThread', 'MainThread'], ['MainThread', 'MainThread', 'U', 'U'])
        if not ok and not (len(who_seq) == 4 and who_seq.count('U') == 2 and who_seq[who_seq.index('U') + 1] == 'U'):
            ctx.violation('thread U waits for the write lock while a connect is in progress, then writes; the main thread writes as soon as '
                          'U has sent its length prefix: order of the sends on the socket %r (U\'s two sends must be adjacent)' % (who_seq,),
                          {'sends': who_seq}, key={'kind': 'lock-across-connect'})


def run(ctx):
    import minecraft.networking.connection as C
    from minecraft.networking import encryption as E
    ctx.extra['rule'] = RULE
    rng = ctx.rng
    lines, impl = [], []
    n_random = ctx.scale(500, 6000)
    for i in range(n_random):
        progs = gen_programs(rng)
        bias = rng.random()
        transport = ['plain', 'plain', 'compressed', 'encrypted'][i % 4]

        def choose(en, n, bias=bias):
            if 0 in en and rng.random() < bias * 0.7:
                return 0
            return rng.choice(en)
        r = scenario(C, E, progs, choose, transport)
        record(ctx, progs, r, transport, lines, impl, 'random walk')
    # ---- fine-grained walks (oracle only, not replayed through the model): extra preemption points right
    # after every lock release and at every access to the shared `socket` attribute, i.e. inside the
    # regions the model treats as atomic
    for i in range(ctx.scale(250, 3000)):
        progs = gen_programs(rng, nthreads=rng.randint(2, 3))
        bias = rng.random()

        def choose(en, n, bias=bias):
            if 0 in en and rng.random() < bias * 0.5:
                return 0
            return rng.choice(en)
        r = scenario(C, E, progs, choose, 'plain', fine=True)
        ctx.case(('fine', prog_str(progs), tuple(r['ran'])), sample={'programs': prog_str(progs), 'steps': len(r['ran']), 'kind': 'fine-grained'})
        ctx.count('fine_grained_walks')
        oracle(ctx, progs, r, 'plain', 'fine-grained walk')
        if r['errors']:
            ctx.violation('a thread raised: %r' % (r['errors'][:2],), {'programs': prog_str(progs), 'schedule': r['ran']},
                          key={'programs': prog_str(progs), 'schedule': r['ran'], 'kind': 'thread-error'})
    # ---- outgoing listeners that call back into the connection from inside a write (the reason the
    # write lock is re-entrant): oracle on the byte stream only
    for i in range(ctx.scale(150, 1500)):
        progs = gen_programs(rng, nthreads=rng.randint(1, 3))
        pids = [arg for ops in progs for k, arg in ops if k != 'd']
        if not pids:
            continue
        trig, act = rng.choice(pids), rng.choice('ddfq')
        bias = rng.random()

        def choose(en, n, bias=bias):
            if 0 in en and rng.random() < bias * 0.6:
                return 0
            return rng.choice(en)
        r = scenario(C, E, progs, choose, 'plain', listener=(trig, act))
        label = 'outgoing listener on packet %d doing %s' % (trig, {'d': 'disconnect()', 'f': 'a forced write', 'q': 'a queued write'}[act])
        ctx.case(('listener', prog_str(progs), trig, act, tuple(r['ran'])),
                 sample={'programs': prog_str(progs), 'kind': 'reentrant-listener', 'trigger': trig, 'action': act})
        ctx.count('listener_walks.' + act)
        oracle(ctx, progs, r, 'plain', label, extra_issued=[900 + trig], stream_only=True)
        if r['errors']:
            ctx.violation('%s: a thread raised: %r' % (label, r['errors'][:2]), {'programs': prog_str(progs), 'schedule': r['ran']},
                          key={'programs': prog_str(progs), 'schedule': r['ran'], 'kind': 'thread-error'})
    # ---- a send that fails during the flush of a graceful disconnect, followed by the immediate
    # disconnect the library itself falls back to: nothing may be sent after that returns
    for i in range(ctx.scale(60, 600)):
        n1 = rng.randint(1, 5)
        progs = [[('q', k) for k in range(1, n1 + 1)] + [('D', 0)]]
        if i % 2:
            progs.append([('q', 10 + k) for k in range(rng.randint(1, 3))])
        fail = rng.randrange(0, n1 + 1)
        bias = rng.random()

        def choose(en, n, bias=bias):
            users = [x for x in en if x != 0]
            if users and rng.random() < 0.5 + bias / 2:
                return rng.choice(users)
            return rng.choice(en)
        sdf = i % 3 == 0
        r = scenario(C, E, progs, choose, 'plain', fail_prefix=fail if not sdf else None, shutdown_fails=sdf)
        label = ('graceful disconnect whose flush fails at length prefix #%d, then disconnect(immediate=True)' % fail) if not sdf \
            else 'disconnect on a socket whose shutdown() fails (peer reset)'
        ctx.case(('failing-flush', prog_str(progs), fail, tuple(r['ran'])), sample={'programs': prog_str(progs), 'kind': 'failing-flush', 'fail': fail})
        ctx.count('failing_flush_walks')
        log = r['log']
        failed = any(e[1] == 'sndfail' for e in log)
        done_at = next((j for j, e in enumerate(log) if e[1] == 'ddone'), None)
        bad = None
        if done_at is not None:
            later = [e for e in log[done_at:] if e[1] == 'snd']
            if later:
                bad = 'packets %r were sent after the disconnect returned' % sorted({e[2] for e in later})
            elif not r['closed']:
                bad = 'the socket is still open when the disconnect has returned and every thread is done'
        if not bad and not sdf:
            # the byte stream: whole frames of issued packets, then at most ONE incomplete frame at the very end (the write
            # that failed) -- nothing may follow an incomplete frame
            data = b''.join(b for _, _, _, b in r['wire'])
            pos, nframes = 0, 0
            while pos < len(data):
                try:
                    n_, q_ = rc.read_varint(data, pos)
                except Exception:
                    break
                if q_ + n_ > len(data):
                    break
                body = data[q_:q_ + n_]
                try:
                    pid_, q2 = rc.read_varint(body, 0)
                    msg, _ = rc.read_string(body, q2)
                    okf = msg.startswith('m') and msg[1:].rstrip('x').isdigit() and msg == 'm%d' % int(msg[1:].rstrip('x')) + 'x' * (int(msg[1:].rstrip('x')) % 7)
                except Exception:
                    okf = False
                if not okf:
                    bad = 'after %d whole frames the byte stream continues with bytes that are not a frame of an issued packet (%s…): ' \
                          'something was written behind an incomplete frame' % (nframes, data[pos:pos + 12].hex())
                    break
                nframes += 1
                pos = q_ + n_
        if not bad and r['caller_errors']:
            bad = 'an API call raised to its caller: %r' % (r['caller_errors'][:2],)
        if not bad and r.get('stuck'):
            bad = 'the networking thread never ends although the disconnect returned (%s)' % r['stuck']
        if bad:
            ctx.violation('%s: %s' % (label, bad), {'programs': prog_str(progs), 'schedule': r['ran'][:300], 'fail_prefix': fail, 'flush_failed': failed},
                          key={'programs': prog_str(progs), 'schedule': r['ran'], 'kind': 'failing-flush'})
        if r['errors'] and not failed:
            ctx.violation('%s: a thread raised: %r' % (label, r['errors'][:2]), {'programs': prog_str(progs), 'schedule': r['ran']},
                          key={'programs': prog_str(progs), 'schedule': r['ran'], 'kind': 'thread-error'})
    # ---- "an immediate disconnect sends nothing further", also not in the NEXT session of the same object: a packet queued
    # right before disconnect(immediate=True) never reaches any server -- neither the old one nor, after connect(), the new one
    import simnet
    from refserver import RefServer
    for trial in range(ctx.scale(8, 40)):
        nleft = rng.randint(1, 4)
        cfg = {'version': 757, 'script': [('success',)]}
        with simnet.Net(lambda s_: RefServer(s_, cfg)) as net:
            conn = C.Connection('h', 1, username='u', allowed_versions={757}, handle_exception=lambda e, i: None)
            conn.connect()
            net.run_threads()
            from minecraft.networking.packets import serverbound as sb_
            for k in range(nleft):
                conn.write_packet(sb_.play.ChatPacket(message='left-behind-%d' % k))
            conn.disconnect(immediate=True)
            net.run_threads()
            if trial % 2:
                conn.disconnect()                  # a second, graceful call on the closed object: nothing to flush to
                net.run_threads()
            conn.connect()
            net.run_threads()
            servers_ = list(cfg['servers'])
        ctx.case(('immediate-then-reconnect', trial, nleft))
        ctx.count('immediate-then-reconnect')
        leaked = [(i_, f[0], f[1]) for i_, srv_ in enumerate(servers_) for f in srv_.frames if b'left-behind' in f[2]]
        s2 = servers_[1] if len(servers_) > 1 else None
        if leaked or s2 is None or s2.errors or s2.handshake is None or s2.handshake.get('next') != 2 or s2.login_name != 'u':
            ctx.violation('%d packets queued, disconnect(immediate=True), connect() on the same object: packets of the old session reached '
                          'server(s) %r; the new server read handshake %r, login name %r, parse errors %r'
                          % (nleft, leaked[:3], s2 and s2.handshake, s2 and s2.login_name, s2 and s2.errors[:1]),
                          {'queued': nleft}, key={'kind': 'immediate-then-reconnect'})
    # ---- back-pressure at the moment of a graceful disconnect: the peer has not drained its receive window, so the socket
    # is momentarily not writable (a blocking send simply waits); everything queued must still be sent before the close
    for i in range(ctx.scale(30, 300)):
        progs = [[('q', k) for k in range(1, rng.randint(2, 6))] + [('d', 0)]]
        if i % 2:
            progs.append([('q', 10 + k) for k in range(rng.randint(1, 3))])
        bias = rng.random()

        def choose(en, n, bias=bias):
            users = [x for x in en if x != 0]
            if users and rng.random() < 0.5 + bias / 2:
                return rng.choice(users)
            return rng.choice(en)
        r = scenario(C, E, progs, choose, ['plain', 'compressed', 'encrypted'][i % 3], stall_w=rng.randint(1, 4))
        ctx.case(('back-pressure', prog_str(progs), tuple(r['ran'])), sample={'programs': prog_str(progs), 'kind': 'back-pressure'})
        ctx.count('back_pressure_walks')
        oracle(ctx, progs, r, ['plain', 'compressed', 'encrypted'][i % 3], 'graceful disconnect while the socket is momentarily not writable')
    # ---- a send that fails in the MIDDLE of a frame during the flush of a graceful disconnect (length prefix written, body not):
    # the connection is torn down; nothing may be written behind the incomplete frame
    for i in range(ctx.scale(30, 300)):
        n1 = rng.randint(2, 5)
        progs = [[('q', k) for k in range(1, n1 + 1)] + [('d', 0)]]
        if i % 2:
            progs.append([('q', 10 + k) for k in range(rng.randint(1, 3))])
        fb = rng.randrange(0, n1)

        def choose(en, n):
            users = [x for x in en if x != 0]
            return rng.choice(users) if users and rng.random() < 0.9 else rng.choice(en)
        r = scenario(C, E, progs, choose, 'plain', fail_user_body=fb)
        ctx.case(('flush-fails-mid-frame', prog_str(progs), fb, tuple(r['ran'])), sample={'programs': prog_str(progs), 'kind': 'flush-fails-mid-frame'})
        log = r['log']
        at = next((j for j, e in enumerate(log) if e[1] == 'sndfail'), None)
        ctx.count('flush_fails_mid_frame_walks' + ('.hit' if at is not None else ''))
        bad = None
        if at is not None:
            later = [e for e in log[at + 1:] if e[1] == 'snd']
            if later:
                bad = 'after the body of packet %r could not be sent (its length prefix is on the wire), packets %r were still written' % (
                    log[at][2], sorted({e[2] for e in later}))
            elif not r['closed']:
                bad = 'the socket is still open at rest'
        if not bad and r['caller_errors']:
            bad = 'an API call raised to its caller: %r' % (r['caller_errors'][:2],)
        if not bad and r.get('stuck'):
            bad = 'the threads do not come to rest (%s)' % r['stuck']
        if bad:
            ctx.violation('graceful disconnect whose flush fails in mid-frame (body send #%d of the flushing thread): %s' % (fb, bad),
                          {'programs': prog_str(progs), 'schedule': r['ran'][:300]},
                          key={'programs': prog_str(progs), 'schedule': r['ran'], 'kind': 'flush-fails-mid-frame'})
    # ---- compression switched on in mid-stream (the reactor has read Set Compression) while packets are
    # queued / being forced: every frame whose first send comes after the switch must be in the compressed
    # format, every earlier one in the plain format -- the peer parses strictly by that rule
    for i in range(ctx.scale(80, 800)):
        thr = rng.choice([0, 4, 8, 64])
        progs = [[('q', k) for k in range(1, rng.randint(2, 5))], [('z', thr)]]
        if i % 2:
            progs.insert(1, [(rng.choice('qf'), 20 + k) for k in range(rng.randint(1, 3))])
        progs[-1 if i % 3 else 0].append(('d', 0))
        bias = rng.random()

        def choose(en, n, bias=bias):
            users = [x for x in en if x != 0]
            if users and rng.random() < 0.4 + bias / 2:
                return rng.choice(users)
            return rng.choice(en)
        r = scenario(C, E, progs, choose, 'plain')
        label = 'set-compression(%d) processed while packets are queued' % thr
        ctx.case(('mid-compress', prog_str(progs), tuple(r['ran'])), sample={'programs': prog_str(progs), 'kind': 'mid-stream compression'})
        ctx.count('mid_compress_walks')
        log = r['log']
        zat = next((j for j, e in enumerate(log) if e[1] == 'zon'), None)
        # the frame format is chosen when the write of a packet BEGINS: at its `pop` (queued) or at the lock
        # acquisition that precedes its first send (forced)
        first_snd = {}
        last_acq = {}
        for j, e in enumerate(log):
            if e[1] in ('acq', 'try'):
                last_acq[e[0]] = j
            elif e[1] == 'pop':
                first_snd.setdefault(e[2], j)
            elif e[1] == 'snd' and e[3] == 0:
                first_snd.setdefault(e[2], last_acq.get(e[0], j))
        halves = {}
        for _, p_, c_, b_ in r['wire']:
            halves.setdefault(p_, {})[c_] = bytes(b_)
        bad = None
        for p_, h in halves.items():
            if 0 not in h or 1 not in h:
                continue
            want_comp = zat is not None and first_snd.get(p_, -1) > zat
            msg = ('m%d' % p_ + 'x' * (p_ % 7)).encode()
            payload = rc.varint(0x03) + rc.varint(len(msg)) + msg
            body = h[1]
            try:
                if want_comp:
                    dl, q = rc.read_varint(body, 0)
                    got_payload = zlib.decompress(body[q:]) if dl else body[q:]
                    okf = (dl == 0 or dl == len(got_payload)) and got_payload == payload
                else:
                    okf = body == payload
            except Exception:
                okf = False
            if not okf or h[0] != rc.varint(len(body)):
                bad = 'packet %d, whose write began %s the switch, is not a well-formed %s frame: %s %s' % (
                    p_, 'after' if want_comp else 'before', 'compressed-format' if want_comp else 'plain', h[0].hex(), body.hex()[:40])
                break
        if bad:
            ctx.violation('%s: %s' % (label, bad), {'programs': prog_str(progs), 'schedule': r['ran'][:300]},
                          key={'programs': prog_str(progs), 'schedule': r['ran'][:300], 'kind': 'mid-compress'})
        if r['errors']:
            ctx.violation('%s: a thread raised: %r' % (label, r['errors'][:2]), {'programs': prog_str(progs), 'schedule': r['ran'][:300]},
                          key={'programs': prog_str(progs), 'schedule': r['ran'][:300], 'kind': 'thread-error'})
    # ---- the flush of a graceful disconnect is aborted by an exception that is NOT an IOError (an early
    # outgoing listener raises); the caller then disconnects immediately: the socket must get closed and
    # nothing may be sent afterwards
    for i in range(ctx.scale(40, 400)):
        n1 = rng.randint(1, 5)
        progs = [[('q', k) for k in range(1, n1 + 1)] + [('E', 0)]]
        if i % 2:
            progs.append([('q', 10 + k) for k in range(rng.randint(1, 3))])
        trig = rng.randint(1, n1)
        bias = rng.random()

        def choose(en, n, bias=bias):
            users = [x for x in en if x != 0]
            if users and rng.random() < 0.6 + bias / 3:
                return rng.choice(users)
            return rng.choice(en)
        r = scenario(C, E, progs, choose, 'plain', listener=(trig, 'x'))
        label = 'graceful disconnect aborted by a listener exception on packet %d, then disconnect(immediate=True)' % trig
        ctx.case(('aborted-flush', prog_str(progs), trig, tuple(r['ran'])), sample={'programs': prog_str(progs), 'kind': 'aborted-flush'})
        ctx.count('aborted_flush_walks')
        log = r['log']
        done_at = next((j for j, e in enumerate(log) if e[1] == 'ddone'), None)
        bad = None
        if r.get('stuck'):
            bad = 'the networking thread never ends although the disconnect returned (%s)' % r['stuck']
        elif done_at is not None:
            later = [e for e in log[done_at:] if e[1] == 'snd']
            if later:
                bad = 'packets %r were sent after the disconnect returned' % sorted({e[2] for e in later})
            elif not r['closed']:
                bad = 'the socket is still open when the disconnect has returned and every thread is done'
        if not bad and r['caller_errors']:
            bad = 'an API call raised to its caller: %r' % (r['caller_errors'][:2],)
        if bad:
            ctx.violation('%s: %s' % (label, bad), {'programs': prog_str(progs), 'schedule': r['ran'][:300], 'trigger': trig},
                          key={'programs': prog_str(progs), 'schedule': r['ran'][:300], 'kind': 'aborted-flush'})
    # ---- bulk: more queued packets than the networking thread writes per batch, then a graceful disconnect
    for i in range(ctx.scale(2, 6)):
        nq = [301, 310, 650, 305, 320, 900][i]
        progs = [[('q', k) for k in range(1, nq + 1)] + [('d', 0)]]
        if i % 2:
            progs.append([('f', nq + 1)])

        def choose(en, n, i=i):
            users = [x for x in en if x != 0]
            if i % 2 == 0 or rng.random() < 0.97:
                return users[0] if users else 0        # the writer runs ahead of the networking thread
            return rng.choice(en)
        r = scenario(C, E, progs, choose, 'plain')
        record(ctx, progs, r, 'plain', lines, impl, 'bulk')
    # ---- systematic: all schedules of small scenarios up to a preemption bound (DFS over choices)
    if ctx.thorough or ctx.searching:
        small = [[[('q', 1), ('d', 0)], [('f', 2)]], [[('f', 1), ('q', 2)], [('d', 1)]],
                 [[('q', 1), ('q', 2), ('d', 0)]], [[('f', 1)], [('f', 2)], [('d', 0)]]]
        bound = 2
        for progs in small:
            explored = 0
            stack = [[]]            # prefixes of forced choices
            prefix_devs = {(): []}  # prefix -> positions where it deviates from the default policy (preemptions)
            seen = set()
            while stack and explored < 1500:
                prefix = stack.pop()
                trace = []

                def choose(en, n, prefix=prefix, trace=trace):
                    last = trace[-1][1] if trace else None
                    if n < len(prefix) and prefix[n] in en:
                        t = prefix[n]
                    else:
                        # default (non-preempting, fair) policy: keep running the same user thread; the
                        # networking thread (which never ends by itself) only runs when no user thread can
                        users = [x for x in en if x != 0]
                        t = last if (last in users) else (users[0] if users else 0)
                    trace.append((tuple(en), t))
                    return t
                r = scenario(C, E, progs, choose, 'plain')
                key = tuple(r['ran'])
                explored += 1
                if key in seen:
                    continue
                seen.add(key)
                record(ctx, progs, r, 'plain', lines, impl, 'systematic')
                # branch: at every step beyond the prefix, try each alternative (one more preemption)
                preempts = getattr(prefix, 'preempts', 0) if False else sum(1 for d in prefix_devs.get(tuple(prefix), []))
                if preempts < bound:
                    for n in range(len(prefix), min(len(trace), 120)):
                        en, took = trace[n]
                        for alt in en:
                            if alt != took:
                                newp = [t for _, t in trace[:n]] + [alt]
                                prefix_devs[tuple(newp)] = prefix_devs.get(tuple(prefix), []) + [n]
                                stack.append(newp)
            ctx.count('systematic.schedules', len(seen))
    for line, mo, g in zip(lines, ctx.driver.ask(lines), impl):
        if mo != g:
            ctx.disagree('writers trace', line[:400], mo[:500], g[:500])
    ctx.extra['traces'] = len(lines)
    # ---- Model/WireBytes.lean `chunkBytes`: the argument of each of the two socket.send calls of a packet
    # is the corresponding element of the Lean `frameSends` (driver `frame.write`) of its payload
    import zlib as _z
    blines, bimpl = [], []
    for (pid, thr), (c0, c1) in sorted(BYTE_SAMPLES.items(), key=lambda kv: (kv[0][0], -1 if kv[0][1] is None else kv[0][1]))[:ctx.scale(60, 400)]:
        msg = ('m%d' % pid + 'x' * (pid % 7)).encode()
        payload = rc.varint(0x03) + rc.varint(len(msg)) + msg
        zmap = '-'
        if thr is not None and len(payload) > thr:      # Packet._write_buffer compresses strictly above the threshold
            dl, q = rc.read_varint(c1, 0)
            zmap = '%s:%s' % (c1[q:].hex(), payload.hex())
            if _z.decompress(c1[q:]) != payload:
                ctx.violation('compressed body of packet %d does not inflate to its payload' % pid, {'pid': pid}, key={'bytes': pid})
        blines.append('frame.write %s zmap=%s %s' % ('none' if thr is None else thr, zmap, payload.hex()))
        bimpl.append('ok %s %s' % (c0.hex(), c1.hex()))
    for line, mo, g in zip(blines, ctx.driver.ask(blines), bimpl):
        ctx.case(('chunk-bytes', line))
        if mo != g:
            ctx.disagree('send arguments of one packet vs Lean frameSends', line[:200], mo[:200], g[:200])
    ctx.extra['chunk_byte_pairs_compared'] = len(blines)
    progress_tie(ctx, C, E)
    # ---- scenarios on a bare Connection (no scheduler); run last so that a tree on which they cannot run does not keep the
    # scheduler scenarios from being judged
    try:
        _direct_scenarios(ctx, C, rng)
    except Exception as e:
        import traceback
        ctx.disagree('direct scenarios (residue after a failed write, lock across connect) could not run', repr(e), None,
                     traceback.format_exc()[-1200:])



def progress_tie(ctx, C, E):
    """Tie of Model/C12Progress.lean (driver `c12progress.enabled`): the model's enabled set after a schedule
    prefix vs the list `en` the baton scheduler handed to `choose` at that point of a REAL run; `ntmoves` vs the
    number of networking-thread steps executed; `queue` vs appended-minus-popped packets of the real event log;
    and the drain bound 11n+2 vs a real solo run of the networking thread."""
    rng = ctx.rng
    reqs, expect, what = [], [], []

    def req(capw, capr, progs, sched):
        return 'c12progress.enabled capw=%d capr=%d progs=%s sched=%s' % (
            capw, capr, prog_str(progs), ','.join(map(str, sched)) or '-')

    def queue_at(log, k):
        q = []
        for e in log[:k]:
            if e[1] == 'app':
                q.append(e[2])
            elif e[1] == 'pop':
                q.remove(e[2])
        return q

    def fields(reply):
        return dict(f.split('=', 1) for f in reply.split()[1:]) if reply.startswith('ok ') else {'reply': reply}
    commas = lambda l: ','.join(map(str, l)) or '-'
    # 1. enabled sets at sampled steps of random walks
    for i in range(ctx.scale(25, 600)):
        progs = gen_programs(rng)
        rec = []
        bias = rng.random()

        def choose(en, n, rec=rec, bias=bias):
            rec.append(sorted(en))
            if 0 in en and rng.random() < bias * 0.7:
                return 0
            return rng.choice(en)
        r = scenario(C, E, progs, choose, 'plain')
        ran, log = r['ran'], r['log']
        if len(rec) != len(ran) or len(log) != len(ran):
            ctx.disagree('c12progress: scheduler bookkeeping (choices, steps, events) out of step', prog_str(progs),
                         None, [len(rec), len(ran), len(log)])
            continue
        ks = set(rng.sample(range(len(ran)), min(len(ran), ctx.scale(8, 12)))) | {0}
        for k in sorted(ks):
            reqs.append(req(300, 50, progs, ran[:k]))
            expect.append({'enabled': commas(rec[k]), 'ntmoves': str(ran[:k].count(0)), 'queue': commas(queue_at(log, k))})
            what.append('random walk, step %d of %d' % (k, len(ran)))
        if not r['stuck']:          # the run came to rest: nobody can move after the whole schedule
            reqs.append(req(300, 50, progs, ran))
            expect.append({'enabled': '-', 'ntmoves': str(ran.count(0)), 'queue': commas(r['queue'])})
            what.append('random walk, at rest')
    n_walk = len(reqs)
    # 2. drains: thread 1 queues n packets, then the networking thread alone for 11n+2 actions (the bound of
    # C12Progress.nt_drains printed by the model), then thread 2 disconnects: everything queued is on the wire
    caps = [(300, 50), (1, 50), (1, 1), (2, 3)]
    if ctx.thorough or ctx.searching:
        drains = [(c, n) for c in caps for n in range(1, 6)]
    else:
        drains = [(caps[0], n) for n in range(1, 6)] + [(rng.choice(caps[1:]), rng.randint(1, 5)) for _ in range(3)]
    for (capw, capr), n in drains:
        if True:
            progs = [[('q', k) for k in range(1, n + 1)], [('d', 0)]]
            B = 11 * n + 2
            st = {'k': 0, 'start': None, 'at': None, 'blocked': False}

            def choose(en, idx, st=st, B=B):
                if 1 in en:
                    return 1
                if st['start'] is None:
                    st['start'], st['en'] = idx, sorted(en)
                if st['k'] < B:
                    if 0 not in en:
                        st['blocked'] = True
                        return en[0]
                    st['k'] += 1
                    return 0
                if st['at'] is None:
                    st['at'] = idx
                return 2 if 2 in en else 0
            r = scenario(C, E, progs, choose, 'plain', capw=capw, capr=capr)
            start, at = st['start'], st['at']
            sent = [e[2] for e in r['log'][:at] if e[1] == 'snd' and e[3] == 1] if at is not None else None
            case = {'capw': capw, 'capr': capr, 'n': n}
            ctx.case(('c12progress-drain', capw, capr, n))
            if st['blocked'] or start is None or at is None:
                ctx.disagree('c12progress drain: the networking thread was not enabled throughout its solo run',
                             case, 'enabled for %d actions' % B, r['ran'][:200])
                continue
            reqs.append(req(capw, capr, progs, r['ran'][:start]))
            expect.append({'enabled': commas(st['en']), 'ntmoves': '0', 'queue': commas(range(1, n + 1)), 'drainbound': str(B)})
            what.append('drain: %d queued, before the solo run' % n)
            reqs.append(req(capw, capr, progs, r['ran'][:at]))
            expect.append({'ntmoves': str(B), 'queue': commas(queue_at(r['log'], at))})
            what.append('drain: after %d networking-thread actions' % B)
            if sent != list(range(1, n + 1)):
                ctx.disagree('c12progress drain: after drainbound=11n+2 networking-thread actions not every queued packet is on the wire',
                             case, list(range(1, n + 1)), sent)
    for line, mo, exp, w in zip(reqs, ctx.driver.ask(reqs), expect, what):
        ctx.case(('c12progress', line))
        got = fields(mo)
        diff = {k: (got.get(k), v) for k, v in exp.items() if got.get(k) != v}
        if diff:
            ctx.disagree('c12progress.enabled vs the real run (%s): %s' % (w, ','.join(sorted(diff))), line[:600], mo,
                         ' '.join('%s=%s' % kv for kv in sorted(exp.items())))
    ctx.count('c12progress.enabled_sets', n_walk)
    ctx.extra['c12progress_pairs'] = ctx.extra.get('c12progress_pairs', 0) + len(reqs)


BYTE_SAMPLES = {}


def record(ctx, progs, r, transport, lines, impl, label):
    if transport in ('plain', 'compressed') and len(BYTE_SAMPLES) < 2000:
        thr = 4 if transport == 'compressed' else None
        halves = {}
        for _, p, c, b in r['wire']:
            halves.setdefault(p, {})[c] = bytes(b)
        for p, h in halves.items():
            if 0 in h and 1 in h:
                BYTE_SAMPLES.setdefault((p, thr), (h[0], h[1]))
    if not r['attached']:
        ctx.disagree('instrumentation did not attach (Connection no longer builds its lock from the module-level RLock)',
                     prog_str(progs), None, None)
    wire = ','.join('%s.%d' % (p, c) for _, p, c, _ in r['wire']) or '-'
    got = 'ok log=%s wire=%s done=1 open=%d queue=%s skipped=0' % (
        fmt_log(r['log']), wire, 0 if r['closed'] else 1, ','.join(map(str, r['queue'])) or '-')
    lines.append('writers.run capw=300 capr=50 progs=%s sched=%s' % (prog_str(progs), ','.join(map(str, r['ran'])) or '-'))
    impl.append(got)
    ctx.case((prog_str(progs), tuple(r['ran']), transport),
             sample={'programs': prog_str(progs), 'steps': len(r['ran']), 'transport': transport, 'kind': label,
                     'wire': wire[:80]})
    ctx.count('transport.' + transport)
    ctx.count('threads.%d' % len(progs))
    ctx.count('steps', len(r['ran']))
    oracle(ctx, progs, r, transport, label)
    if r['errors']:
        ctx.violation('a thread raised: %r' % (r['errors'][:2],), {'programs': prog_str(progs), 'schedule': r['ran']},
                      key={'programs': prog_str(progs), 'schedule': r['ran'], 'kind': 'thread-error'})


def replay(ctx, rp):
    for v in rp.get('violations', []):
        print(v)
    return not rp.get('violations')
