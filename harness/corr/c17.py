"""C17: server hash = Java signed-hex SHA-1.  Real generate_verification_hash vs the Lean SHA-1 +
signedHex (an implementation sharing nothing with hashlib), plus an independent Python oracle of
BigInteger.toString(16)."""
import hashlib
import types

from lib import hx

EXTRA_PROPS = ['C17Utf8']

EXTRACT = ['gen.c17utf8']

RULE = ("the three published vectors; digests forced by search to have top bit set / leading zero "
        "nibbles / leading zero byte; seeded random (server id incl. non-ASCII, secret 16 B, key "
        "0..400 B); raw digests through minecraft_sha1_hash_digest; distinct by input triple")

VECTORS = [('Notch', '4ed1f46bbe04bc756bcb17c0c7ce3e4632f06a48'),
           ('jeb_', '-7c9d5b0044c130109a5d7b5fb5c317c02b4e28c1'),
           ('simon', '88e16a1019277b15d58faf0541e11910eb756f6')]


def java_hex(d):
    """BigInteger(d).toString(16), written independently of int.from_bytes(signed=True)."""
    u = 0
    for b in d:
        u = u * 256 + b
    neg = d[0] >= 128
    if neg:
        u = (1 << (8 * len(d))) - u
    digits = ''
    while u:
        digits = '0123456789abcdef'[u % 16] + digits
        u //= 16
    return ('-' if neg else '') + (digits or '0')


class FakeHash:
    def __init__(self, d):
        self.d = d

    def digest(self):
        return self.d


def run(ctx):
    from minecraft.networking import encryption
    ctx.extra['rule'] = RULE
    rng = ctx.rng
    cases = []
    for sid, _ in VECTORS:
        cases.append((sid, b'', b''))
    # forced digest shapes, found by search over a counter in the key
    want = {'topbit': lambda d: d[0] >= 0x80, 'zero-nibble': lambda d: d[0] < 0x10,
            'zero-byte': lambda d: d[0] == 0, 'two-zero-nibbles+': lambda d: d[0] == 0 and d[1] < 0x10,
            'ff-lead': lambda d: d[0] == 0xff, '80-lead': lambda d: d[0] == 0x80}
    found = {}
    n = 0
    secret0 = bytes(range(16))
    while len(found) < len(want) and n < 400000:
        key = n.to_bytes(4, 'big')
        d = hashlib.sha1(b'srv' + secret0 + key).digest()
        for k, f in want.items():
            if k not in found and f(d):
                found[k] = key
                cases.append(('srv', secret0, key))
        n += 1
    ctx.extra['forced_shapes_found'] = sorted(found)
    # real RSA keys in several byte encodings (the hash covers the key bytes AS SENT by the server)
    import rsakeys

    def der_len(n):
        if n < 0x80:
            return bytes([n])
        b = n.to_bytes((n.bit_length() + 7) // 8, 'big')
        return bytes([0x80 | len(b)]) + b

    def tlv(buf, p):
        tag = buf[p]
        l = buf[p + 1]
        p += 2
        if l & 0x80:
            k = l & 0x7f
            l = int.from_bytes(buf[p:p + k], 'big')
            p += k
        return tag, buf[p:p + l], p + l
    for k in (rsakeys.RSA_1024, rsakeys.RSA_2048):
        spki = k['der']
        _, body, _ = tlv(spki, 0)
        _, alg, q = tlv(body, 0)
        _, bits, _ = tlv(body, q)
        pkcs1 = bits[1:]
        alg_nonull = b'\x30\x0b' + alg[:11]
        bitstr = b'\x03' + der_len(len(pkcs1) + 1) + b'\x00' + pkcs1
        nonull = b'\x30' + der_len(len(alg_nonull) + len(bitstr)) + alg_nonull + bitstr
        longform = b'\x30\x83' + len(body).to_bytes(3, 'big') + body       # BER long-form length
        for enc in (spki, pkcs1, nonull, longform, spki + b'\x00', spki[:-1]):
            for sid in ('', 'srv1', 'é'):
                cases.append((sid, secret0, enc))
    ctx.extra['key_encodings'] = ['spki', 'pkcs1', 'spki-no-null-params', 'ber-long-length', 'spki+trailing', 'spki-truncated']
    alphabet = 'abc-XYZ09é世\U0001f600 '
    for _ in range(ctx.scale(1500, 20000)):
        sid = ''.join(rng.choice(alphabet) for _ in range(rng.randrange(0, 21)))
        secret = bytes(rng.randrange(256) for _ in range(rng.choice([16, 16, 16, 0, 1, 32])))
        key = bytes(rng.randrange(256) for _ in range(rng.choice([0, 1, 55, 56, 63, 64, 65, 162, 294, 400])))
        cases.append((sid, secret, key))
    outs = ctx.driver.ask(['mchash %s %s %s' % (hx(s.encode('utf-8')), hx(a), hx(b))
                           for s, a, b in cases])
    for (sid, secret, key), mo in zip(cases, outs):
        try:
            got = encryption.generate_verification_hash(sid, secret, key)
        except Exception as e:
            got = 'raised %r' % (e,)
        ctx.case((sid, secret, key), sample={'server_id': sid, 'secret': hx(secret),
                                             'key_len': len(key), 'impl': got})
        d = hashlib.sha1(sid.encode('utf-8') + secret + key).digest()
        ctx.count('digest.' + ('neg' if d[0] >= 128 else 'lead0' if d[0] < 16 else 'plain'))
        if 'ok ' + got != mo:
            ctx.disagree('generate_verification_hash', [sid, hx(secret), hx(key)], mo, got)
        if got != java_hex(d):
            ctx.violation('server hash differs from BigInteger(sha1(id||secret||key)).toString(16) = %s'
                          % java_hex(d), {'server_id': sid, 'secret': hx(secret), 'key': hx(key), 'impl': got},
                          key={'server_id': sid, 'secret': hx(secret), 'key': hx(key)})
    # the secret and the key as bytes-like objects (bytearray, memoryview): the same bytes, the same hash
    for _ in range(ctx.scale(20, 200)):
        sid_ = rng.choice(['', 'srv', 'é'])
        sec_ = bytes(rng.randrange(256) for _ in range(16))
        key_ = bytes(rng.randrange(256) for _ in range(rng.choice([1, 40, 162])))
        want_ = java_hex(hashlib.sha1(sid_.encode('utf-8') + sec_ + key_).digest())
        for mk_ in (bytearray, memoryview):
            ctx.case(('bytes-like', mk_.__name__, sid_, sec_, key_))
            try:
                got_ = encryption.generate_verification_hash(sid_, mk_(sec_), mk_(key_))
            except TypeError:
                continue                       # refusing a non-bytes argument is not a wrong hash
            if got_ != want_:
                ctx.violation('server hash of (%r, %s secret, %s key) is %s; the same bytes as `bytes` hash to %s'
                              % (sid_, mk_.__name__, mk_.__name__, got_, want_), {'server_id': sid_, 'type': mk_.__name__},
                              key={'kind': 'bytes-like', 'type': mk_.__name__})
    for sid, want_s in VECTORS:
        got = encryption.generate_verification_hash(sid, b'', b'')
        ctx.case(('vector', sid))
        if got != want_s:
            ctx.violation('published vector %s' % sid, {'server_id': sid, 'impl': got, 'published': want_s},
                          key={'vector': sid})
    # ---- the string that really reaches AuthenticationToken.join, for SEVERAL logins to the same server
    # (same server id, same key) in one process: each login has its own secret, hence its own hash
    import simnet
    from refserver import RefServer
    import minecraft.networking.connection as C
    for sid in ('', 'srv-é', 'a1b2c3', '\ufeffsrv', '\ufeff', '-76cc6e37d6a586ef', '--', '-x'):      # (only '-' itself means offline)
        joins = []

        # the REAL AuthenticationToken.join: what is judged is the `serverId` of the body posted to the session service
        import json as _json
        from minecraft import authentication as A_

        def post(url, data=None, headers=None, timeout=None, joins=joins):
            if url.endswith('/join'):
                joins.append(_json.loads(data).get('serverId'))
            return types.SimpleNamespace(status_code=204, text='', json=lambda: {})

        def Tok():
            t = A_.AuthenticationToken(username='acct', access_token='at', client_token='ct')
            t.profile = A_.Profile(id_='0123456789abcdef0123456789abcdef', name='Prof')
            return t
        saved_post = A_.requests.post
        A_.requests.post = post
        expected = []
        for conn_no in range(2):
            cfg = {'version': 757, 'rsa': '1024', 'script': []}
            with simnet.Net(lambda s_: RefServer(s_, cfg)) as net:
                conn = C.Connection('h', 1, auth_token=Tok(), allowed_versions={757}, handle_exception=lambda e, i: None)
                for k in range(2):
                    cfg['script'] = [('encrypt', sid, b'vt%d' % k), ('success',)]
                    cfg['rsa'] = ['1024', '2048'][(k + conn_no) % 2]      # the server's key pair changes between logins (a restart)
                    conn.connect()
                    net.run_threads()
                    srv = cfg['servers'][-1]
                    if srv.secret is not None:
                        expected.append(java_hex(hashlib.sha1(sid.encode('utf-8') + srv.secret + srv.key['der']).digest()))
                    conn.disconnect()
                    net.run_threads()
        A_.requests.post = saved_post
        ctx.case(('join-sequence', sid))
        if joins != expected or len(expected) != 4:
            bad_at = next((i for i, (a, b) in enumerate(zip(joins, expected)) if a != b), min(len(joins), len(expected)))
            ctx.violation('four logins (two Connection objects x two logins) to server id %r: the hash passed to join at login #%d is %s, '
                          'Java would compute %s' % (sid, bad_at + 1, joins[bad_at] if bad_at < len(joins) else None,
                                                     expected[bad_at] if bad_at < len(expected) else None),
                          {'server_id': sid, 'joins': joins, 'expected': expected}, key={'kind': 'join-sequence', 'server_id': sid})
    # ---- the session service refuses the first join (403: the access token has expired) and would accept a refresh: whatever
    # the library does about it, EVERY join request it posts for this login carries the hash of this login
    for trial in range(ctx.scale(4, 20)):
        sid = ['', 'srv', 'é-id', 'x' * 20][trial % 4]
        posts = []

        def post(url, data=None, headers=None, timeout=None, posts=posts):
            body = _json.loads(data)
            if url.endswith('/join'):
                posts.append(('join', body.get('serverId')))
                if len([p_ for p_ in posts if p_[0] == 'join']) == 1:
                    err = {'error': 'ForbiddenOperationException', 'errorMessage': 'Invalid token'}
                    return types.SimpleNamespace(status_code=403, text=_json.dumps(err), json=lambda: err)
                return types.SimpleNamespace(status_code=204, text='', json=lambda: {})
            if url.endswith('/refresh'):
                posts.append(('refresh', None))
                ok = {'accessToken': 'at2', 'clientToken': body.get('clientToken'),
                      'selectedProfile': {'id': '0123456789abcdef0123456789abcdef', 'name': 'Prof'}}
                return types.SimpleNamespace(status_code=200, text=_json.dumps(ok), json=lambda: ok)
            posts.append(('other', url))
            return types.SimpleNamespace(status_code=204, text='', json=lambda: {})
        tok = A_.AuthenticationToken(username='acct', access_token='at', client_token='ct')
        tok.profile = A_.Profile(id_='0123456789abcdef0123456789abcdef', name='Prof')
        cfg = {'version': 757, 'rsa': ['1024', '2048'][trial % 2], 'script': [('encrypt', sid, b'vtok'), ('success',)]}
        saved_post = A_.requests.post
        A_.requests.post = post
        try:
            with simnet.Net(lambda s_: RefServer(s_, cfg)) as net:
                conn = C.Connection('h', 1, auth_token=tok, allowed_versions={757}, handle_exception=lambda e, i: None)
                conn.connect()
                net.run_threads()
                srv = cfg['servers'][-1]
        finally:
            A_.requests.post = saved_post
        ctx.case(('join-refused-first', trial, sid))
        ctx.count('join-refused-first')
        sent = [p_[1] for p_ in posts if p_[0] == 'join']
        # the secret reaches the server only if the client went on after a successful (second) join; otherwise recover nothing
        want = None
        if srv.secret is not None:
            want = java_hex(hashlib.sha1(sid.encode('utf-8') + srv.secret + srv.key['der']).digest())
        bad = None
        if not sent:
            bad = 'no join request was posted'
        elif len(set(sent)) > 1:
            bad = 'the join requests of ONE login carry different server ids: %r' % (sent,)
        elif want is not None and sent[0] != want:
            bad = 'join carries %r, Java would compute %r' % (sent[0], want)
        elif any(x == sid for x in sent) and sid != java_hex(hashlib.sha1(b'').digest()):
            bad = 'a join request carries the raw server id %r instead of the hash' % (sid,)
        if bad:
            ctx.violation('the session service answers the first join with 403 (and would accept a refresh): %s' % bad,
                          {'server_id': sid, 'requests': [p_[0] for p_ in posts]}, key={'kind': 'join-refused-first', 'server_id': sid})
    # ---- ONE token shared by two connections that log in to different servers at the same time: the other login's join()
    # runs in the middle of this one (forced at a call the body construction makes anyway: Profile.to_dict); each request
    # must carry the hash its own caller passed in
    import json as _json
    from minecraft import authentication as A_
    for trial in range(ctx.scale(6, 40)):
        posted = []

        def post(url, data=None, headers=None, timeout=None, posted=posted):
            if url.endswith('/join'):
                posted.append(_json.loads(data).get('serverId'))
            return types.SimpleNamespace(status_code=204, text='', json=lambda: {})
        ha = encryption.generate_verification_hash('srvA%d' % trial, bytes([trial]) * 16, b'keyA')
        hb = encryption.generate_verification_hash('srvB%d' % trial, bytes([trial + 1]) * 16, b'keyB')
        tok = A_.AuthenticationToken(username='acct', access_token='at', client_token='ct')
        depth = {'n': 0}

        class HookedProfile(A_.Profile):
            def to_dict(self):
                depth['n'] += 1
                try:
                    if depth['n'] == 1 and trial % 2 == 0:
                        tok.join(hb)                 # the other connection's login, complete, in the middle of this one
                    return A_.Profile.to_dict(self)
                finally:
                    depth['n'] -= 1
        tok.profile = HookedProfile(id_='0123456789abcdef0123456789abcdef', name='Prof')
        saved_post = A_.requests.post
        A_.requests.post = post
        try:
            tok.join(ha)
            if trial % 2:
                tok.join(hb)
        except Exception as e:
            posted.append('raised %r' % (e,))
        finally:
            A_.requests.post = saved_post
        ctx.case(('shared-token-joins', trial))
        ctx.count('shared-token-joins.' + ('overlapping' if trial % 2 == 0 else 'sequential'))
        want = [hb, ha] if trial % 2 == 0 else [ha, hb]
        if posted != want:
            ctx.violation('one token, two logins (%s): the session service was sent serverId %r, the callers passed %r'
                          % ('the second join runs while the first builds its request' if trial % 2 == 0 else 'one after the other', posted, want),
                          {'posted': posted, 'passed': want}, key={'kind': 'shared-token-joins', 'overlap': trial % 2 == 0})
    # ---- logins running at the same time in several threads (every connection has its own networking thread):
    # each call hashes its OWN three inputs.  Seeded inputs, a tiny switch interval, bounded work.
    import sys as _sys
    import threading as _th
    old_si = _sys.getswitchinterval()
    jobs = [[('srv%d-%d' % (t_, k), bytes([t_, k % 256]) * 8, bytes([k % 256, t_]) * 40) for k in range(ctx.scale(1500, 6000))]
            for t_ in range(4)]
    wrong = []

    def worker(job):
        for sid_, sec_, key_ in job:
            try:
                got_ = encryption.generate_verification_hash(sid_, sec_, key_)
            except Exception as e:
                got_ = repr(e)
            if got_ != java_hex(hashlib.sha1(sid_.encode('utf-8') + sec_ + key_).digest()):
                wrong.append((sid_, got_))
                return
    _sys.setswitchinterval(1e-6)
    try:
        ths = [_th.Thread(target=worker, args=(j,), daemon=True) for j in jobs]
        for t_ in ths:
            t_.start()
        for t_ in ths:
            t_.join(timeout=60)
    finally:
        _sys.setswitchinterval(old_si)
    ctx.case(('concurrent-hashes', len(jobs)))
    if wrong:
        ctx.violation('four threads hashing at the same time: the hash for server id %r came back as %s (not the hash of its own inputs)'
                      % wrong[0], {'server_id': wrong[0][0]}, key={'kind': 'concurrent-hashes'})
    # raw digests through the formatting function (every first byte, random tails, edge patterns)
    digs = [bytes([b]) + bytes(rng.randrange(256) for _ in range(19)) for b in range(256)]
    digs += [bytes(20), b'\xff' * 20, b'\x80' + bytes(19), b'\x7f' + b'\xff' * 19, bytes(19) + b'\x01',
             b'\xff' * 19 + b'\x01', bytes(10) + b'\x01' + bytes(9)]
    outs = ctx.driver.ask(['signedhex %s' % hx(d) for d in digs])
    for d, mo in zip(digs, outs):
        got = encryption.minecraft_sha1_hash_digest(FakeHash(d))
        ctx.case(('digest', d))
        if 'ok ' + got != mo:
            ctx.disagree('minecraft_sha1_hash_digest', hx(d), mo, got)
        if got != java_hex(d):
            ctx.violation('signed hex of digest differs from Java', {'digest': hx(d), 'impl': got},
                          key={'digest': hx(d)})
    # sha1 itself: Lean vs hashlib on boundary lengths
    msgs = [bytes(rng.randrange(256) for _ in range(n)) for n in list(range(0, 130)) + [255, 256, 1000]]
    outs = ctx.driver.ask(['sha1 %s' % hx(m) for m in msgs])
    for m, mo in zip(msgs, outs):
        ctx.case(('sha1', m))
        if mo != 'ok ' + hashlib.sha1(m).hexdigest():
            ctx.disagree('sha1 (Lean vs hashlib)', hx(m), mo, hashlib.sha1(m).hexdigest())
    utf8_tie(ctx)


def utf8_tie(ctx):
    """Tie of Model/C17Utf8.lean (driver `c17enc`, `c17hash`, `c17join`): Python's own `str.encode('utf-8')` on code
    point lists incl. lone surrogates and surrogate pairs (UnicodeEncodeError -> `err:value`), the real
    `generate_verification_hash(id, secret, key)`, and the strings a fresh real LoginReactor passes to
    `auth_token.join` when it reacts to ONE encryption request (os.urandom replaced only around that call and
    restored in finally; the token is a recorder)."""
    import collections
    import os
    from minecraft.networking import encryption
    from minecraft.networking.connection import Connection, LoginReactor
    from minecraft.networking.packets import clientbound
    import minecraft
    import rsakeys
    from gen import c17utf8 as G
    rng = ctx.rng
    SUP = sorted(minecraft.SUPPORTED_PROTOCOL_VERSIONS)

    def rnd_cp(surrogates):
        x = rng.random()
        if x < 0.35:
            return rng.choice([0x2d, 0x20, 0x41, 0x7a, 0x7f, 0x00, 0x01, rng.randrange(0x20, 0x7f)])
        if x < 0.5:
            return rng.choice([0x80, 0xe9, 0xf6, 0x7ff, rng.randrange(0x80, 0x800)])
        if x < 0.7:
            return rng.choice([0x800, 0x20ac, 0x4e16, 0xd7ff, 0xe000, 0xfffd, 0xffff, rng.randrange(0x800, 0xd800), rng.randrange(0xe000, 0x10000)])
        if x < 0.85 or not surrogates:
            return rng.choice([0x10000, 0x1f600, 0x10ffff, rng.randrange(0x10000, 0x110000)])
        return rng.choice([0xd800, 0xdbff, 0xdc00, 0xdfff, rng.randrange(0xd800, 0xe000)])

    def rnd_cps(surrogates):
        n = rng.choice([0, 1, 1, 2, 3, 5, 8, 20])
        cps = [rnd_cp(surrogates and rng.random() < 0.3) for _ in range(n)]
        if surrogates and rng.random() < 0.1:         # a well-formed UTF-16 pair is still two lone surrogates in a str
            i = rng.randrange(len(cps) + 1)
            cps[i:i] = [rng.randrange(0xd800, 0xdc00), rng.randrange(0xdc00, 0xe000)]
        return cps
    ctok = lambda cps: ','.join('%x' % c for c in cps) or '-'
    lines, want = [], []
    for _ in range(ctx.scale(400, 6000)):
        cps = rnd_cps(True)
        s = ''.join(chr(c) for c in cps)
        try:
            got = 'ok ' + hx(s.encode('utf-8'))
        except ValueError:                      # UnicodeEncodeError
            got = 'err:value'
        lines.append('c17enc ' + ctok(cps))
        want.append(got)
        secret = bytes(rng.randrange(256) for _ in range(rng.choice([16, 16, 0, 1, 32])))
        key = bytes(rng.randrange(256) for _ in range(rng.choice([0, 1, 55, 64, 162, 294]))) if rng.random() < 0.7 else rsakeys.RSA_1024['der']
        try:
            got = 'ok ' + encryption.generate_verification_hash(s, secret, key)
        except ValueError:
            got = 'err:value'
        lines.append('c17hash %s %s %s' % (ctok(cps), hx(secret), hx(key)))
        want.append(got)
    real_urandom = os.urandom
    for i in range(ctx.scale(60, 800)):
        cps = rng.choice([[0x2d], [], [0x2d, 0x2d], None, None, None]) or rnd_cps(False)
        if cps == [None]:
            cps = []
        has_token = rng.random() < 0.7
        key = rng.choice([rsakeys.RSA_1024, rsakeys.RSA_2048])
        proto = rng.choice(SUP)
        secret = bytes(rng.randrange(256) for _ in range(16))
        token = bytes(rng.randrange(256) for _ in range(rng.choice([4, 4, 1, 16])))
        conn = Connection('localhost', 1, initial_version=proto)
        conn.context.protocol_version = proto
        conn.socket, conn.file_object = G._Sink(), G._Sink()
        conn.options.compression_enabled = False
        conn._outgoing_packet_queue = collections.deque()
        conn.reactor = LoginReactor(conn)
        tok = G._Token() if has_token else None
        conn.auth_token = tok
        p = clientbound.login.EncryptionRequestPacket()
        p.context = conn.context
        p.server_id = ''.join(chr(c) for c in cps)
        p.public_key, p.verify_token = key['der'], token
        draws = []

        def fake(n, draws=draws, secret=secret):
            draws.append(n)
            return secret[:n] if n <= len(secret) else real_urandom(n)
        os.urandom = fake
        try:
            conn._react(p)
        finally:
            os.urandom = real_urandom
        if draws != [16]:
            ctx.disagree('c17join: the reaction no longer draws exactly one 16-byte secret from os.urandom', ctok(cps), [16], draws)
        joined = list(tok.joined) if tok is not None else []
        lines.append('c17join %s %s %s %s %d' % (ctok(cps), hx(secret), hx(key['der']), hx(token), has_token))
        want.append('ok ' + (' '.join(joined) or '-'))
    for line, mo, w in zip(lines, ctx.driver.ask(lines), want):
        op = line.split()[0]
        ctx.case(('c17utf8', line), sample={'op': op, 'request': line[:100], 'impl': w[:80]} if rng.random() < 0.03 else None)
        ctx.count('%s.%s' % (op, w.split()[0] if op != 'c17join' else ('joined' if w != 'ok -' else 'not-joined')))
        if mo != w:
            ctx.disagree('%s vs the real code' % op, line[:400], mo[:200], w[:200])
    ctx.extra['c17utf8_pairs'] = ctx.extra.get('c17utf8_pairs', 0) + len(lines)


def replay(ctx, rp):
    from minecraft.networking import encryption
    from lib import unhx
    for v in rp.get('violations', []):
        c = v['case']
        if 'server_id' in c:
            print(c, '->', encryption.generate_verification_hash(
                c['server_id'], unhx(c.get('secret', '-')), unhx(c.get('key', '-'))))
    return not rp.get('violations')
