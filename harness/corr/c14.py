"""C14: exceptions in the networking thread are contained and routed like try/except."""
import simnet
from refserver import RefServer

EXTRA_PROPS = ['C14Compose']

RULE = ("fault origins (early listener, ordinary listener, built-in reaction via a login disconnect, "
        "decoder via a truncated packet, exit callback) x handler chains of 0..4 handlers with random "
        "type filters over an exception hierarchy, early flags, return/raise behaviour x final handler in "
        "{None, False, returning function, raising function} x reactor handler {returns False, swallows "
        "(status EOF fallback), raises (fallback connect refused)}; distinct by scenario")


def run(ctx):
    import minecraft.networking.connection as C
    from minecraft.networking import packets as P
    from minecraft.exceptions import LoginDisconnect, InvalidState
    ctx.extra['rule'] = RULE
    rng = ctx.rng

    class ErrA(Exception):
        pass

    class ErrB(ErrA):
        pass

    class ErrC(Exception):
        pass

    class ErrRO(ErrC):
        """an exception whose `exc_info` attribute cannot be assigned (read-only property)"""
        exc_info = property(lambda self: None)
    # hierarchy for the model: ids; edges child:parent
    classes = [Exception, OSError, ErrA, ErrB, ErrC, EOFError, LoginDisconnect, ValueError, ConnectionRefusedError]
    cid = {c: i + 1 for i, c in enumerate(classes)}

    def nearest(c):
        out = []
        for b in c.__mro__[1:]:
            if b in cid and not any(issubclass(o, b) for o in out):
                out.append(b)
        return out
    hier = ','.join('%d:%d' % (cid[c], cid[b]) for c in classes for b in nearest(c)) or '-'

    def cls_id(e):
        for c in type(e).__mro__:
            if c in cid:
                return cid[c]
        return 0
    tags = {}

    def tag(e):
        return tags.setdefault(id(e), len(tags) + 1)

    def show(e):
        return 'none' if e is None else '%d.%d' % (cls_id(e), tag(e))
    keep = []
    lines, impl = [], []
    raisable = [ErrA, ErrB, ErrC, ValueError, OSError, ErrRO]
    for trial in range(ctx.scale(160, 2000)):
        tags.clear()
        origin = ['early', 'ordinary', 'reaction', 'decoder', 'exit', 'status-eof', 'status-eof-refused',
                  'status-invalid', 'status-oserror'][trial % 9]
        calls = []
        hspec = []
        nh = rng.randrange(0, 5)
        fin_mode = rng.choice(['none', 'false', 'ret', 'raise'])
        made = {}

        def mkexc(cls):
            e = cls('x%d' % len(keep))
            keep.append(e)
            return e
        first_exc = mkexc(rng.choice(raisable) if origin != 'status-oserror' else OSError)

        armed = [True]

        def thrower(pkt):
            if armed[0]:
                raise first_exc
        script = [('success',), ('keepalive', 5), ('close',)]
        status = None
        if origin == 'reaction':
            script = [('disconnect', '{"text":"nope"}')]
        elif origin == 'decoder':
            script = [('success',), ('raw', 0x21, b'\x01'), ('close',)]      # keep-alive with 1 of 8 bytes
        elif origin == 'exit':
            script = [('success',), ('play_disconnect', '{"text":"bye"}')]
        cfg = {'version': 757, 'script': script}
        allowed = {757}
        refuse = False
        if origin.startswith('status-eof'):
            cfg['script'] = [('success',)]
            cfg['status'] = 'close'
            allowed = {757, 756}
            refuse = (lambda i: i >= 1) if origin.endswith('refused') else False
        elif origin == 'status-invalid':
            # version negotiation: the built-in reaction raises IOError('Invalid server status.') -- an
            # ordinary fault, NOT the end-of-stream case the status reactor treats as non-fatal
            cfg['script'] = [('success',)]
            cfg['status'] = ('json', '{}')
            allowed = {757, 756}
        elif origin == 'status-oserror':
            # an early listener raises an OSError-family exception while the status reply is processed
            cfg['script'] = [('success',)]
            allowed = {757, 756}
        fin_exc = mkexc(rng.choice(raisable))

        def final_ret(e, info):
            if armed[0]:
                calls.append(('F', e))

        def final_raise(e, info):
            if armed[0]:
                calls.append(('F', e))
                raise fin_exc
        final = {'none': None, 'false': False, 'ret': final_ret, 'raise': final_raise}[fin_mode]
        exit_exc = mkexc(rng.choice(raisable))

        def on_exit():
            if origin == 'exit' and armed[0]:
                raise exit_exc
        with simnet.Net(lambda s: RefServer(s, cfg), refuse=refuse) as net:
            conn = C.Connection('h', 1, username='u', allowed_versions=allowed, handle_exception=final,
                                handle_exit=on_exit)
            # handlers
            order = []
            for i in range(nh):
                types_ = tuple(rng.sample(classes, rng.randrange(0, 3)))
                beh = None if rng.random() < 0.6 else mkexc(rng.choice(raisable))
                early = rng.random() < 0.3
                hid = 10 + i

                def hfun(e, info, hid=hid, beh=beh):
                    if not armed[0]:
                        return
                    calls.append((hid, e))
                    if beh is not None:
                        raise beh
                conn.register_exception_handler(hfun, *types_, early=early)
                if early:
                    order.insert(0, (hid, types_, beh))
                else:
                    order.append((hid, types_, beh))
            if origin in ('early', 'status-oserror'):
                conn.register_packet_listener(thrower, P.Packet, early=True)
            elif origin == 'ordinary':
                conn.register_packet_listener(thrower, P.Packet)
            conn.connect()
            net.run_threads()
            reraised = net.thread_errors[-1] if net.thread_errors else None
            recorded = conn.exception
            closed = all(s.closed_by_client for s in net.sockets if s.connected)
            nt_clear = conn.networking_thread is None and conn.new_networking_thread is None
            # reconnect afterwards must be possible
            calls = list(calls)          # freeze what the first connection produced
            armed[0] = False
            net.refuse = False
            cfg['script'] = [('success',), ('close',)]
            cfg['status'] = ('json', '{"version":{"protocol":757}}')
            try:
                conn.connect()
                net.run_threads()
                reconnect = 'ok'
            except InvalidState as e:
                reconnect = 'InvalidState'
            except Exception as e:
                reconnect = repr(e)
        # the exception that entered _handle_exception
        if origin in ('early', 'ordinary', 'status-oserror'):
            orig = first_exc
        elif origin == 'exit':
            orig = exit_exc
        else:
            orig = calls[0][1] if calls else (recorded or reraised)
        if origin == 'status-eof':
            rbeh = 'T'
        elif origin == 'status-eof-refused':
            rbeh = None    # reactor handler raises ConnectionRefusedError: the first exception seen by handlers
        else:
            rbeh = 'F'
        if orig is None and origin.startswith('status-eof') and not calls and recorded is None:
            got = 'ok calls=- final=0 recorded=none reraised=none swallowed=1'
            orig_tok = '%d.1' % cid[EOFError]
        else:
            got = 'ok calls=%s final=%d recorded=%s reraised=%s swallowed=0' % (
                ','.join(str(c[0]) for c in calls if c[0] != 'F') or '-', any(c[0] == 'F' for c in calls),
                show(recorded), show(reraised))
            orig_tok = show(orig)
        htok = ';'.join('%d/%s/%s' % (hid, '+'.join(str(cid[t]) for t in ts) or '_',
                                      'ret' if b is None else 'X' + show(b)) for hid, ts, b in order) or '-'
        ftok = {'none': 'none', 'false': 'false', 'ret': 'ret', 'raise': 'X' + show(fin_exc)}[fin_mode]
        if rbeh is None:
            # model the raising reactor handler: original EOFError replaced by the refused-connect error
            eof = '%d.%d' % (cid[EOFError], 900)
            line = 'handlers %s X%s %s %s %s' % (hier, orig_tok, htok, ftok, eof)
        else:
            line = 'handlers %s %s %s %s %s' % (hier, rbeh, htok, ftok, orig_tok)
        lines.append(line)
        impl.append(got)
        ctx.case(('h', line), sample={'origin': origin, 'handlers': htok, 'final': ftok, 'impl': got})
        ctx.count('origin.' + origin)
        ctx.count('final.' + fin_mode)
        # ------------------------------------------------------------ oracle: nested try/except semantics
        if not got.endswith('swallowed=1'):
            exc = orig
            caught = False
            exp_calls = []
            for hid, ts, b in order:
                if not ts or isinstance(exc, ts):
                    exp_calls.append(hid)
                    if b is None:
                        caught = True
                        break
                    exc = b
            exp_final = fin_mode in ('ret', 'raise')
            if fin_mode == 'raise':
                exc = fin_exc
            exp_reraise = exc if (fin_mode == 'none' and not caught) else None
            bad = None
            if [c[0] for c in calls if c[0] != 'F'] != exp_calls:
                bad = 'handlers called %r, try/except semantics gives %r' % ([c[0] for c in calls if c[0] != 'F'], exp_calls)
            elif any(c[0] == 'F' for c in calls) != exp_final or (exp_final and calls[-1][0] != 'F'):
                bad = 'final handler ran=%s (expected %s, last)' % (any(c[0] == 'F' for c in calls), exp_final)
            elif recorded is not exc:
                bad = 'recorded exception is %r, last exception is %r' % (recorded, exc)
            elif reraised is not exp_reraise:
                bad = 're-raised %r, expected %r' % (reraised, exp_reraise)
            elif not closed or not nt_clear:
                bad = 'thread/socket not torn down (closed=%s, thread slot clear=%s)' % (closed, nt_clear)
            elif reconnect != 'ok':
                bad = 'reconnect afterwards failed: %s' % reconnect
            if bad:
                ctx.violation('%s fault: %s' % (origin, bad), {'origin': origin, 'handlers': htok, 'final': ftok,
                                                               'impl': got}, key={'h': line})
        elif reconnect != 'ok' and reconnect != 'InvalidState':
            ctx.violation('status fallback then reconnect failed: %s' % reconnect, {'origin': origin}, key={'h': line})
    # ------------------------------------------------------------------ handlers / listeners with side effects
    # (oracle only) A: a handler reconnects, the final handler disconnects; B: a handler reconnects and
    # raises, a later handler disconnects; C: a handler reconnects (control: the new connection stays up);
    # D: a listener queues a packet and disconnects gracefully while the flush fails (an early outgoing
    # listener raises / the socket fails) -- the exception escapes with `connected` already False
    from minecraft.networking.packets import serverbound as sbp
    for trial in range(ctx.scale(40, 400)):
        kind = 'ABCD'[trial % 4]
        variant = trial // 4 % 2
        log = []
        cfg = {'version': 757, 'script': [('success',), ('keepalive', 5)]}
        boom = ErrA('boom%d' % trial)
        with simnet.Net(lambda s: RefServer(s, cfg)) as net:
            def final(e, info):
                log.append(('F', type(e).__name__))
                if kind == 'A' and not any(x[0] == 'F-disc' for x in log):
                    log.append(('F-disc',))
                    conn.disconnect(immediate=bool(variant))
            conn = C.Connection('h', 1, username='u', allowed_versions={757}, handle_exception=final)
            state = {'fired': False}

            def h1(e, info):
                log.append(('h1', type(e).__name__))
                if kind in 'ABC' and not state.get('re'):
                    state['re'] = True
                    conn.connect()
                    if kind == 'B':
                        raise ErrC('from h1')

            def h2(e, info):
                log.append(('h2', type(e).__name__))
                if kind == 'B':
                    conn.disconnect(immediate=bool(variant))
            conn.register_exception_handler(h1, ErrA)
            conn.register_exception_handler(h2, ErrC)

            def on_ka(pkt):
                if state['fired']:
                    return
                state['fired'] = True
                if kind == 'D':
                    conn.write_packet(sbp.play.ChatPacket(message='bye'))
                    conn.disconnect()
                else:
                    raise boom
            conn.register_packet_listener(on_ka, P.clientbound.play.KeepAlivePacket)
            if kind == 'D':
                if variant == 0:
                    def veto(pkt):
                        raise boom
                    conn.register_packet_listener(veto, sbp.play.ChatPacket, outgoing=True, early=True)
                else:
                    state['break_send'] = True
            if state.get('break_send'):
                orig_send = simnet.FakeSocket.send

                def failing_send(self_, data):
                    if state['fired'] and not state.get('sent_fail'):
                        state['sent_fail'] = True
                        raise BrokenPipeError(32, 'Broken pipe')
                    return orig_send(self_, data)
                simnet.FakeSocket.send = failing_send
            try:
                conn.connect()
                net.run_threads()
            finally:
                if state.get('break_send'):
                    simnet.FakeSocket.send = orig_send
            ctx.case(('side-effects', kind, variant))
            ctx.count('side-effects.' + kind)
            # when a handler has started a new connection the library deliberately leaves the old transport
            # alone (the property's "unless" clause; CPython closes the dropped socket object on collection):
            # only the transport of the connection started last is judged in A, B, C
            judged = net.sockets[1:] if kind in 'ABC' else net.sockets

            def live_now():
                return [s_ for s_ in judged if s_.connected and not s_.closed_by_client]
            live = live_now()
            slots_clear = conn.networking_thread is None and conn.new_networking_thread is None
            bad = None
            # "the last exception is recorded on the connection" -- also when a handler has started a new connection
            rec = conn.exception
            if kind in 'AC' and rec is not boom:
                bad = 'the exception recorded on the connection is %r, the last (and only) exception was %r' % (rec, boom)
            elif kind == 'B' and not (type(rec) is ErrC and rec.args == ('from h1',)):
                bad = "the exception recorded on the connection is %r, the last exception was ErrC('from h1') raised by the first handler" % (rec,)
            elif kind in 'ABC' and (conn.exc_info is None or conn.exc_info[1] is not rec):
                bad = 'exc_info recorded on the connection (%r) does not belong to the recorded exception %r' % (conn.exc_info and conn.exc_info[1], rec)
            if bad:
                pass
            elif kind == 'C':
                if not (conn.connected and len(live) == 1 and len(net.sockets) == 2):
                    bad = 'the connection started by the handler is not up afterwards (connected=%s, open sockets=%d of %d)' % (
                        conn.connected, len(live), len(net.sockets))
                else:
                    conn.disconnect()
                    net.run_threads()
                    live = live_now()
                    slots_clear = conn.networking_thread is None and conn.new_networking_thread is None
            if not bad and (live or not slots_clear):
                bad = 'after the dispatch %d socket(s) are still open, thread slots clear=%s (networking_thread=%r new=%r)' % (
                    len(live), slots_clear, conn.networking_thread, conn.new_networking_thread)
            # (variant 1, a failing socket: since fix 584a461 the flush failure no longer escapes disconnect())
            if not bad and kind == 'D' and variant == 0 and not any(x[0] == 'F' for x in log):
                bad = 'the exception escaping the listener never reached the final handler: %r' % (log,)
            if not bad:
                cfg['script'] = [('success',), ('close',)]
                try:
                    conn.connect()
                    net.run_threads()
                except Exception as e:
                    bad = 'the same object cannot connect again: %r' % (e,)
            if bad:
                ctx.violation('scenario %s%d (%s): %s' % (kind, variant, {
                    'A': 'handler reconnects, final handler disconnects', 'B': 'handler reconnects and raises, later handler disconnects',
                    'C': 'handler reconnects', 'D': 'listener disconnects gracefully, flush fails'}[kind], bad),
                    {'kind': kind, 'variant': variant, 'log': log[:8]}, key={'kind': 'side-effects', 'scenario': kind, 'variant': variant})
    # ---- a fault in the SAME pass of the networking loop in which a write had failed (the server rejects the login and closes
    # before reading: the client's login-start write fails, the disconnect packet is already readable): the exception that
    # is dispatched is the fault of the reaction / listener / decoder, not the stale write error
    from minecraft.exceptions import LoginDisconnect as _LD
    for trial in range(ctx.scale(9, 60)):
        kind = trial % 3
        seen = []
        boom = ErrA('boom-after-failed-write-%d' % trial)
        cfg = {'version': 757, 'early_disconnect': '{"text":"not today"}'}
        with simnet.Net(lambda s: RefServer(s, cfg)) as net:
            net.reset_by_peer = trial % 2 == 1
            conn = C.Connection('h', 1, username='u', allowed_versions={757}, handle_exception=lambda e, i: seen.append(('F', e)))
            conn.register_exception_handler(lambda e, i: seen.append(('os', e)), OSError)
            if kind == 1:
                def thrower2(pkt):
                    raise boom
                conn.register_packet_listener(thrower2, P.Packet, early=True)
            elif kind == 2:
                def thrower3(pkt):
                    raise boom
                conn.register_packet_listener(thrower3, P.Packet)
            try:
                conn.connect()
                net.run_threads()
            except Exception as e:
                seen.append(('raised', e))
            wrote_fail = any(ev[0] == 'epipe' for ev in net.log)
        ctx.case(('fault-after-failed-write', trial))
        ctx.count('fault-after-failed-write' + ('.write-failed' if wrote_fail else ''))
        want_type = _LD if kind in (0, 2) else ErrA     # (an ordinary listener runs after the reaction, which raises first)
        final = [e for k_, e in seen if k_ == 'F']
        bad = None
        if any(k_ == 'os' for k_, _ in seen):
            bad = 'a handler registered for OSError received %r' % ([e for k_, e in seen if k_ == 'os'][0],)
        elif len(final) != 1 or type(final[0]) is not want_type or (kind == 1 and final[0] is not boom):
            bad = 'the final handler received %r, the fault in this pass was a %s' % (final, want_type.__name__)
        elif conn.exception is not final[0]:
            bad = 'recorded exception %r is not the dispatched one %r' % (conn.exception, final[0])
        if bad:
            ctx.violation('the login-start write fails (%s) and the server\'s login disconnect is read in the same pass (%s): %s'
                          % ('ECONNRESET' if trial % 2 else 'EPIPE',
                             ['the reaction raises LoginDisconnect', 'an early listener raises', 'an ordinary listener is registered'][kind], bad),
                          {'kind': kind, 'write_failed': wrote_fail}, key={'kind': 'fault-after-failed-write', 'variant': kind})
    # ---- "afterwards the same connection object can connect again", for every interleaving of another thread's connect()
    # with the last steps of the faulting networking thread (scheduler world of corr/c16.py: every access to the two
    # thread slots and every lock operation is a preemption point).  The server drops the socket during login (EOFError
    # in the networking thread); a second user thread keeps trying to connect.  A racing connect() may be refused with
    # InvalidState while the old thread is still active, nothing else may be raised, and once everything is at rest one
    # more connect() must succeed.
    from corr import c16 as c16w
    for trial in range(ctx.scale(60, 900)):
        servers = ['f'] * rng.randint(1, 3) + ['a'] * 6
        progs = [['c'], ['c'] * rng.randint(1, 3)] if trial % 3 else [['c', 'c'], ['c', 'c']]
        r = c16w.run_world(C, servers, 0, rng.choice([0, 0, 1]), progs, 'random', rng)
        ctx.case(('fault-vs-connect', tuple(servers), tuple(map(tuple, progs)), tuple(r['ran'])),
                 sample={'kind': 'fault-vs-connect', 'programs': progs, 'outcomes': r['outs'], 'steps': len(r['ran'])})
        ctx.count('fault-vs-connect')
        bad = None
        for i, (ops, outs) in enumerate(zip(progs, r['outs'])):
            for op, o in zip(ops, outs):
                if o.startswith('raised'):
                    bad = bad or 'connect() by user thread %d -> %s' % (i + 1, o)
        if not bad and (r['stuck'] or not r['users_done']):
            bad = 'the threads do not come to rest: %s pending=%r' % (r['stuck'], r['pending'])
        if not bad and r['errors']:
            bad = 'a thread raised: %r' % (r['errors'][:2],)
        if not bad and r.get('probe') not in (None, 'ok'):
            bad = 'every networking thread has ended and no call is in progress, yet one more connect() -> %s (slots at rest: ' \
                  'networking_thread set=%s, new_networking_thread set=%s)' % (r['probe'], r['nt'], r['newnt'])
        if bad:
            ctx.violation('the server drops the login (EOFError ends the networking thread) while another thread calls connect(): ' + bad,
                          {'servers': servers, 'programs': progs, 'schedule': r['ran'][:200]},
                          key={'kind': 'fault-vs-connect', 'servers': servers, 'programs': progs, 'schedule': r['ran'][:200]})
    for line, mo, g in zip(lines, ctx.driver.ask(lines), impl):
        if mo != g:
            ctx.disagree('_handle_exception', line[-200:], mo, g)
    # ---- Model/C14Compose.lean (driver `thread`): the real NetworkingThread.run & co. on a scripted connection
    from corr import c14compose
    c14compose.run(ctx)


def replay(ctx, rp):
    for v in rp.get('violations', []):
        print(v)
    return not rp.get('violations')
