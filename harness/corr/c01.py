"""C01: framed packet stream survives any threshold, cipher and read segmentation.
Real Packet.write -> bytes (vs Lean `frame.write`), re-segmented, real PacketReactor.read_packet
(vs Lean `frame.readall`); oracle: recovered (id, payload) list = written list."""
import types
import zlib

import refcodec
from lib import hx

EXTRA_PROPS = ['C01Dispatch', 'C01DispatchLive', 'C01Buffer', 'C01BufferFrame', 'C01BufferRefine']

EXTRACT = ['gen.c01dispatch']

RULE = ("packet sequences of 1..6 generic packets (ids incl. unknown ones and multi-byte VarInt ids, "
        "payload sizes 0..8 KiB and t-1,t,t+1 around the threshold) x thresholds {disabled,-1,0,1,64,256,"
        "n} x cipher on/off (real cryptography objects through the real wrappers) x segmentations "
        "{whole, 1-byte reads, every single cut position for streams <= 64 B, random partitions}; "
        "distinct by (sequence, threshold, cipher, segmentation)")


class Sock:
    def __init__(self):
        self.sends = []

    def send(self, d):
        self.sends.append(bytes(d))
        return len(d)


class SegStream:
    """unbuffered socket file: read(n) returns 1..n bytes of the first arrived segment, b'' at EOF"""

    def __init__(self, segs):
        self.segs = [s for s in segs if s]
        self.reads = 0
        self.empties = 0

    def read(self, n=-1):
        self.reads += 1
        if n == 0 or not self.segs:
            self.empties += 1
            return b''
        s = self.segs[0]
        if n < 0 or n >= len(s):
            self.segs.pop(0)
            return s
        self.segs[0] = s[n:]
        return s[:n]

    def fileno(self):
        return 7


def segmentations(ctx, data):
    rng = ctx.rng
    yield 'whole', [data]
    yield 'bytewise', [data[i:i + 1] for i in range(len(data))]
    if len(data) <= 64 or ctx.thorough:
        step = 1 if len(data) <= 64 else max(1, len(data) // 64)
        for c in range(1, len(data), step):
            yield 'cut%d' % c, [data[:c], data[c:]]
    for _ in range(ctx.scale(2, 6)):
        segs, i = [], 0
        while i < len(data):
            n = rng.choice([1, 1, 2, 3, 5, 8, 40, 300, 5000])
            segs.append(data[i:i + n])
            i += n
        yield 'random', segs


def ename(e):
    if isinstance(e, EOFError):
        return 'eof'
    if isinstance(e, AssertionError):
        return 'assertion'
    if isinstance(e, zlib.error):
        return 'zlib'
    if isinstance(e, ValueError) and 'too long' in str(e):
        return 'toolong'
    return type(e).__name__


def run(ctx):
    import minecraft.networking.connection as C
    from minecraft.networking import encryption as E
    from minecraft.networking.packets import Packet
    from minecraft.networking.types import TrailingByteArray
    ctx.extra['rule'] = RULE
    rng = ctx.rng
    KNOWN = {0, 1, 0x21, 0x7f, 0x80, 300, 2 ** 21}

    def mk(pid):
        class Raw(Packet):
            definition = [{'payload': TrailingByteArray}]
            id = pid
        return Raw
    classes = {i: mk(i) for i in KNOWN}

    class Reactor(C.PacketReactor):
        get_clientbound_packets = staticmethod(lambda context: set(classes.values()))

    saved_select = C.select
    C.select = types.SimpleNamespace(select=lambda r, w, x, t=None: (list(r), [], []))
    try:
        nseq = ctx.scale(90, 1200)
        w_lines, w_impl = [], []
        r_lines, r_impl = [], []
        for si in range(nseq):
            thr = [None, -1, 0, 1, 64, 256, rng.randrange(2, 3000)][si % 7]
            enc = (si // 7) % 2 == 1
            n = rng.randrange(1, 7)
            pkts = []
            for _ in range(n):
                pid = rng.choice(sorted(KNOWN) + [2, 5, 0x55, 129, 16384, 2 ** 28, rng.randrange(2 ** 31)]
                                 + [k_ + 1 for k_ in KNOWN if k_ + 1 not in KNOWN] + [max(KNOWN) + 2, 200, 0x3FFF])
                t = thr if (thr is not None and thr > 0) else 64
                size = rng.choice([0, 1, 2, max(0, t - 3), max(0, t - 2), max(0, t - 1), t, t + 1, 100,
                                   rng.randrange(0, 700)] + ([rng.randrange(2000, 8192)] if rng.random() < 0.15 else []))
                body = bytes(rng.randrange(256) for _ in range(size)) if rng.random() < 0.5 \
                    else bytes([rng.randrange(256)]) * size
                pkts.append((pid, body))
            # ---------------- write with the real code
            secret = bytes(rng.randrange(256) for _ in range(16))
            inner = Sock()
            sock = inner
            if enc:
                ciph = E.create_AES_cipher(secret)
                sock = E.EncryptedSocketWrapper(inner, ciph.encryptor(), ciph.decryptor())
            plain_sends = []
            zmap = {}
            for pid, body in pkts:
                p = Packet()
                p.id = pid
                p.definition = [{'payload': TrailingByteArray}]
                p.payload = body
                p.context = C.ConnectionContext(protocol_version=757)
                spy = Sock()
                if thr is None:
                    p.write(spy)
                else:
                    p.write(spy, thr)
                for s in spy.sends:
                    sock.send(s)
                plain_sends.append(spy.sends)
                payload = refcodec.varint(pid) + body
                if thr is not None and thr != -1 and len(payload) > thr:
                    comp = zlib.compress(payload)
                    zmap[comp] = payload
                zm = ','.join('%s:%s' % (hx(c), hx(pl)) for c, pl in zmap.items() if pl == payload) or '-'
                w_lines.append('frame.write %s zmap=%s %s' % ('none' if thr is None else thr, zm, hx(payload)))
                w_impl.append(('ok ' + ' '.join(hx(s) for s in spy.sends), pid, len(body), thr))
                # oracle on the frame itself: independent reference framing
                ref = refcodec.frame(payload, thr)
                if b''.join(spy.sends) != ref and not (thr is not None and thr >= 0 and len(payload) > thr):
                    ctx.violation('frame bytes differ from the protocol framing',
                                  {'id': pid, 'len': len(body), 'threshold': thr,
                                   'impl': b''.join(spy.sends).hex()[:200]},
                                  key={'id': pid, 'len': len(body), 'threshold': thr, 'kind': 'frame'})
            wire = b''.join(inner.sends)
            plain = b''.join(b''.join(s) for s in plain_sends)
            if enc and refcodec.CFB8(secret, encrypt=False).update(wire) != plain:
                ctx.violation('ciphertext does not decrypt (independent CFB8) to the written frames',
                              {'secret': hx(secret)}, key={'kind': 'cipher', 'secret': hx(secret)})
            # ---------------- read back with the real code under several segmentations
            zm_all = ','.join('%s:%s' % (hx(c), hx(pl)) for c, pl in zmap.items()) or '-'
            for sname, segs in segmentations(ctx, wire):
                stream = SegStream(segs)
                fobj = stream
                if enc:
                    ciph = E.create_AES_cipher(secret)
                    fobj = E.EncryptedFileObjectWrapper(stream, ciph.decryptor())
                conn = types.SimpleNamespace(
                    context=C.ConnectionContext(protocol_version=757),
                    options=types.SimpleNamespace(compression_enabled=thr is not None,
                                                  compression_threshold=-1 if thr is None else thr))
                reactor = Reactor(conn)
                got = []
                kept = []
                end = None
                for _ in range(len(pkts) + 3):
                    try:
                        p = reactor.read_packet(fobj, timeout=0)
                    except BaseException as e:
                        end = ename(e)
                        break
                    got.append((p.id, getattr(p, 'payload', None), type(p) is Packet))
                    kept.append(p)
                # a consumer that drains the reader first and looks at the packets afterwards sees the same
                later = [(q.id, getattr(q, 'payload', None), type(q) is Packet) for q in kept]
                if later != got:
                    ctx.violation('packets inspected after draining the reader differ from what each read returned '
                                  '(an earlier packet object changed when a later one was read)',
                                  {'threshold': thr, 'encrypted': enc, 'segmentation': sname,
                                   'at_read': [(i, None if b is None else len(b)) for i, b, _ in got][:8],
                                   'afterwards': [(i, None if b is None else len(b)) for i, b, _ in later][:8]},
                                  key={'kind': 'retained-packets', 'threshold': thr, 'written': [(i, len(b)) for i, b in pkts]})
                # plaintext segments with the same cut positions (CFB8 preserves lengths)
                psegs, i = [], 0
                for s in segs:
                    psegs.append(plain[i:i + len(s)])
                    i += len(s)
                r_lines.append('frame.readall %d zmap=%s %s' % (thr is not None, zm_all,
                                                                ' '.join(hx(s) for s in psegs if s)))
                shown = ' '.join('%d:%s' % (i, hx(pl if not gen else pkts_by_pos(pkts, k)))
                                 for k, (i, pl, gen) in enumerate(got))
                impl_line = 'ok %s%send=%s reads=%d eofreads=%d' % (shown, ' ' if shown else '', end,
                                                                    stream.reads, stream.empties)
                r_impl.append((impl_line, sname, si))
                ctx.count('seg.' + (sname if not sname.startswith('cut') else 'cut'))
                ctx.count('thr.%s' % ('none' if thr is None else 'neg' if thr < 0 else 'zero' if thr == 0 else 'pos'))
                ctx.count('enc.%d' % enc)
                # ---------------- oracle: the property itself
                want = [(pid, body if pid in KNOWN else None) for pid, body in pkts]
                have = [(i, pl) for i, pl, _ in got]
                if have != want or end != 'eof':
                    ctx.violation('reader did not recover the written sequence',
                                  {'threshold': thr, 'encrypted': enc, 'segmentation': sname,
                                   'segments': [len(s) for s in segs][:40],
                                   'written': [(i, len(b)) for i, b in pkts],
                                   'read': [(i, None if b is None else len(b)) for i, b in have], 'end': end},
                                  key={'threshold': thr, 'encrypted': enc, 'seg': sname,
                                       'written': [(i, len(b)) for i, b in pkts]})
                for i, pl, generic in got:
                    if generic != (i not in KNOWN):
                        ctx.violation('id %d decoded as %s' % (i, 'generic' if generic else 'known class'),
                                      {'id': i}, key={'kind': 'dispatch', 'id': i})
        # ---- streams framed by an INDEPENDENT encoder with the vanilla server's rule (deflate when the
        # packet is at least as long as the threshold; pyCraft's writer deflates strictly above it): a
        # reader must take both.  Packets one byte below, exactly at and one byte above the threshold.
        for thr in (1, 2, 8, 64, 256, 1000):
            for sizes in ((thr - 1, thr, thr + 1), (thr,), (thr, thr, 0), (thr + 5, thr, thr - 1)):
                pk = []
                for sz in sizes:
                    pid = rng.choice([0, 1, 0x21, 0x7f])
                    pk.append((pid, bytes(rng.randrange(256) for _ in range(max(0, sz - len(refcodec.varint(pid)))))))
                data = b''.join(refcodec.frame(refcodec.varint(i) + b, thr, ge=True) for i, b in pk)
                for sname, segs in (('whole', [data]), ('bytewise', [data[i:i + 1] for i in range(len(data))])):
                    stream = SegStream(segs)
                    conn = types.SimpleNamespace(
                        context=C.ConnectionContext(protocol_version=757),
                        options=types.SimpleNamespace(compression_enabled=True, compression_threshold=thr))
                    reactor = Reactor(conn)
                    got, end = [], None
                    for _ in range(len(pk) + 2):
                        try:
                            p = reactor.read_packet(stream, timeout=0)
                        except BaseException as e:
                            end = ename(e)
                            break
                        got.append((p.id, getattr(p, 'payload', None)))
                    ctx.case(('vanilla-framed', thr, sizes, sname))
                    if got != pk or end != 'eof':
                        ctx.violation('frames written by an independent encoder (deflated when length >= threshold %d, packet lengths %r) '
                                      'are not recovered: read %r, end=%s' % (thr, sizes, [(i, len(b)) for i, b in got], end),
                                      {'threshold': thr, 'sizes': sizes, 'segmentation': sname},
                                      key={'kind': 'vanilla-framed', 'threshold': thr, 'sizes': list(sizes)})
        mo = ctx.driver.ask(w_lines)
        for line, m, (got, pid, blen, thr) in zip(w_lines, mo, w_impl):
            ctx.case(('w', line), sample={'op': 'Packet.write', 'id': pid, 'payload_len': blen, 'threshold': thr})
            if got != m:
                ctx.disagree('Packet.write', line[:300], m[:300], got[:300])
        mo = ctx.driver.ask(r_lines)
        for line, m, (got, sname, si) in zip(r_lines, mo, r_impl):
            ctx.case(('r', line), sample={'op': 'read_packet*', 'segmentation': sname, 'impl': got[:160]})
            if got != m:
                ctx.disagree('read_packet (%s)' % sname, line[:300], m[:300], got[:300])
    finally:
        C.select = saved_select
    # ---- the same stream through the REAL networking thread: a session in which compression and the
    # cipher are switched on mid-stream (login) and the server's next frames are already readable in the
    # same read batch; every frame the stand-in server sent must be delivered, in order
    import simnet
    from refserver import RefServer
    import refcodec as rc_
    from minecraft.networking import packets as P_
    for trial in range(ctx.scale(16, 160)):
        enc_on, thr = trial % 2 == 0, [None, 0, 64, 300][trial // 2 % 4]
        script = []
        if trial % 4 < 2 and thr is not None:
            script.append(('compress', thr))
        if enc_on:
            script.append(('encrypt', '-', b'tk%d' % trial))
        if trial % 4 >= 2 and thr is not None:
            script.append(('compress', thr))
        script.append(('success',))
        sent_ids = []
        for _ in range(rng.randrange(1, 12)):
            pid = rng.choice([0x7E, 0x7F, 0x6F, 300])        # ids no packet class of 757 uses: generic packets
            body = bytes(rng.randrange(256) for _ in range(rng.choice([0, 1, 7, 63, 64, 65, 400])))
            script.append(('raw', pid, body))
            sent_ids.append(pid)
        cfg = {'version': 757, 'script': script, 'rsa': '1024'}
        if trial % 3 == 0:
            import random
            cfg['stream_rng'] = random.Random(rng.getrandbits(32))
        seen, errs = [], []
        with simnet.Net(lambda s_: RefServer(s_, cfg)) as net:
            conn = C.Connection('h', 1, username='u', allowed_versions={757}, handle_exception=lambda e, i: errs.append(repr(e)))
            conn.register_packet_listener(lambda p: seen.append(p.id) if type(p) is P_.Packet else None, P_.Packet)
            conn.connect()
            net.run_threads()
        ctx.case(('session', trial, tuple(s_[0] for s_ in script[:4]), tuple(sent_ids)),
                 sample={'op': 'session', 'script': [s_[0] for s_ in script[:4]], 'frames': len(sent_ids)})
        ctx.count('session.' + ('enc' if enc_on else 'plain') + ('+comp' if thr is not None else ''))
        if seen != sent_ids or errs:
            ctx.violation('login %r then %d frames in the same stream: delivered ids %r, sent %r, errors %r'
                          % ([s_[0] for s_ in script if s_[0] in ('compress', 'encrypt')], len(sent_ids), seen[:12], sent_ids[:12], errs[:1]),
                          {'script': [s_[0] for s_ in script], 'threshold': thr, 'encrypted': enc_on},
                          key={'kind': 'session', 'script': [s_[0] for s_ in script], 'thr': thr, 'ids': sent_ids})
    # ---- the play-state Set Compression of protocol <= 47: a session that enters the play state with or without
    # login compression and is then told (in the play state) to (re)set the threshold; frames after it are in the
    # new framing and must all be delivered, and what the client writes afterwards must be readable by the server
    for trial in range(ctx.scale(8, 64)):
        thr0 = [None, 64, None, 0][trial % 4]
        thr1 = [0, 1, 64, 300, 5][trial % 5]
        script = ([('compress', thr0)] if thr0 is not None else []) + [('success',)]
        sent_ids = []
        for ph in range(2):
            for _ in range(rng.randrange(1, 6)):
                pid = rng.choice([0x7E, 0x7F, 0x6F, 300])
                body = bytes(rng.randrange(256) for _ in range(rng.choice([0, 1, 7, 63, 64, 65, 400])))
                script.append(('raw', pid, body))
                sent_ids.append(pid)
            if ph == 0:
                script.append(('play_compress', thr1))
        cfg = {'version': 47, 'script': script, 'rsa': '1024'}
        if trial % 3 == 0:
            import random
            cfg['stream_rng'] = random.Random(rng.getrandbits(32))
        seen, errs = [], []
        back = P_.Packet()
        back.id, back.definition = 0x7D, [{'payload': TrailingByteArray}]
        back.payload = bytes(rng.randrange(256) for _ in range(rng.choice([0, 3, 70, 500])))

        def on_generic(p):
            if type(p) is P_.Packet:
                seen.append(p.id)
                if len(seen) == len(sent_ids):
                    conn.write_packet(back)
        with simnet.Net(lambda s_: RefServer(s_, cfg)) as net:
            conn = C.Connection('h', 1, username='u', allowed_versions={47}, handle_exception=lambda e, i: errs.append(repr(e)))
            conn.register_packet_listener(on_generic, P_.Packet)
            conn.connect()
            net.run_threads()
            srv = cfg['servers'][-1]
            echoed = [(f[1], f[2]) for f in srv.frames if f[0] == 'play']
        ctx.case(('session47', trial, thr0, thr1, tuple(sent_ids)),
                 sample={'op': 'session47', 'login_threshold': thr0, 'play_threshold': thr1, 'frames': len(sent_ids)})
        ctx.count('session47.play-set-compression')
        if seen != sent_ids or errs or (0x7D, back.payload) not in echoed or srv.errors:
            ctx.violation('protocol 47 session, login threshold %r, play-state Set Compression(%d) after %d frames: delivered ids %r, '
                          'sent %r, errors %r; client packet written afterwards seen by the server: %r (server parse errors %r)'
                          % (thr0, thr1, script.index(('play_compress', thr1)) - (2 if thr0 is not None else 1), seen[:12],
                             sent_ids[:12], errs[:1], (0x7D, back.payload) in echoed, srv.errors[:1]),
                          {'script': [s_[0] for s_ in script], 'login_threshold': thr0, 'play_threshold': thr1},
                          key={'kind': 'session47', 'thr0': thr0, 'thr1': thr1, 'ids': sent_ids})
    # ---- two sessions on ONE Connection: the first negotiates compression (and sometimes encryption) and ends by the server
    # dropping the TCP connection; the exception handler connects again (the documented pattern, no disconnect() call); the
    # second server announces nothing: its frames must be delivered and it must be able to read the client's frames
    for trial in range(ctx.scale(8, 60)):
        thr = [0, 64, 300, 1][trial % 4]
        first = [('compress', thr)] + ([('encrypt', '-', b'tk')] if trial % 3 == 0 else []) + [('success',), ('raw', 0x7E, b'one'), ('close',)]
        sent2 = [(rng.choice([0x7E, 0x7F, 0x6F, 300]), bytes(rng.randrange(256) for _ in range(rng.choice([0, 1, 7, 63, 64, 65, 400]))))
                 for _ in range(rng.randrange(1, 8))]
        second = [('success',)] + [('raw', i_, b_) for i_, b_ in sent2]
        cfgs = [{'version': 757, 'script': first, 'rsa': '1024'}, {'version': 757, 'script': second, 'rsa': '1024'}]
        made, errs, seen = [], [], []

        def factory(sock, cfgs=cfgs, made=made):
            srv = RefServer(sock, cfgs[min(len(made), 1)])
            made.append(srv)
            return srv
        with simnet.Net(factory) as net:
            def on_exc(e, i):
                errs.append(type(e).__name__)
                if len(errs) == 1:
                    conn.connect()
            conn = C.Connection('h', 1, username='u', allowed_versions={757}, handle_exception=on_exc)
            conn.register_packet_listener(lambda p: seen.append((len(made), p.id)) if type(p) is P_.Packet else None, P_.Packet)
            conn.connect()
            net.run_threads()
        ctx.case(('two-sessions', trial, thr, tuple(i_ for i_, _ in sent2)))
        ctx.count('session.two-sessions')
        got2 = [i_ for n_, i_ in seen if n_ == 2]
        s2 = made[1] if len(made) > 1 else None
        if s2 is None or got2 != [i_ for i_, _ in sent2] or len(errs) != 1 or s2.errors or s2.handshake is None \
                or s2.handshake.get('protocol') != 757 or s2.login_name != 'u':
            ctx.violation('session 1 (Set Compression %d%s) is dropped by the server, the exception handler connects again; session 2 (nothing '
                          'announced, %d frames): delivered ids %r of %r, errors %r, second server read handshake %r / login name %r / parse errors %r'
                          % (thr, ', encryption' if trial % 3 == 0 else '', len(sent2), got2[:10], [i_ for i_, _ in sent2][:10], errs[:3],
                             s2 and s2.handshake, s2 and s2.login_name, s2 and s2.errors[:1]),
                          {'threshold': thr, 'encrypted_first': trial % 3 == 0}, key={'kind': 'two-sessions', 'thr': thr, 'enc': trial % 3 == 0})
    # ---- frames stay contiguous when several threads write (the scheduler scenarios of corr/c12.py; judged here only on the
    # byte stream: whole, well-formed frames of issued packets, none twice)
    from corr import c12 as c12s
    for i in range(ctx.scale(30, 400)):
        progs = c12s.gen_programs(rng)
        transport = ['plain', 'compressed', 'encrypted'][i % 3]
        bias = rng.random()

        def choose(en, n, bias=bias):
            if 0 in en and rng.random() < bias * 0.7:
                return 0
            return rng.choice(en)
        r = c12s.scenario(C, E, progs, choose, transport)
        ctx.case(('writers-stream', c12s.prog_str(progs), transport, tuple(r['ran'])))
        ctx.count('writers-stream.' + transport)
        c12s.oracle(ctx, progs, r, transport, 'several writer threads (%s transport)' % transport, stream_only=True)
    # ---- a write that fails while the packet is being serialised (nothing has been sent) must leave nothing behind:
    # the next packet written by the same thread is framed exactly as if the failed one had never been attempted
    for trial in range(ctx.scale(40, 400)):
        thr = [None, -1, 0, 64, 256][trial % 5]
        kind = trial // 5 % 4
        bad = Packet()
        bad.id = rng.choice([0x05, 0x17, 300])
        bad.context = C.ConnectionContext(protocol_version=757)
        from minecraft.networking.types import VarInt as VI_, String as S_, Short as Sh_
        if kind == 0:
            bad.definition = [{'a': VI_}, {'payload': TrailingByteArray}]
            bad.a, bad.payload = rng.randrange(1000), 'text, not bytes'
        elif kind == 1:
            bad.definition = [{'a': S_}, {'b': VI_}]
            bad.a = 'x' * rng.randrange(0, 40)                     # b never set
        elif kind == 2:
            bad.definition = [{'a': VI_}, {'b': Sh_}]
            bad.a, bad.b = 7, 2 ** 20                              # out of range
        else:
            bad.definition = [{'a': S_}, {'b': VI_}]
            bad.a, bad.b = 'ok', -1                                # VarInt refuses negatives
        spy = Sock()
        failed = None
        try:
            bad.write(spy) if thr is None else bad.write(spy, thr)
        except Exception as e:
            failed = type(e).__name__
        good_pid = rng.choice(sorted(KNOWN))
        body = bytes(rng.randrange(256) for _ in range(rng.choice([0, 1, 60, 70, 300])))
        good = Packet()
        good.id, good.definition, good.payload = good_pid, [{'payload': TrailingByteArray}], body
        good.context = bad.context
        try:
            good.write(spy) if thr is None else good.write(spy, thr)
        except Exception as e:
            failed = 'second write raised ' + type(e).__name__
        ctx.case(('after-failed-serialise', trial, kind, thr, good_pid, len(body)))
        ctx.count('after-failed-serialise.%s' % failed)
        data = b''.join(spy.sends)
        ok = False
        try:
            n, p = rc_.read_varint(data, 0)
            fr = data[p:p + n]
            if thr is not None and p + n == len(data):
                dl, q = rc_.read_varint(fr, 0)
                fr = zlib.decompress(fr[q:]) if dl else fr[q:]
            ok = p + n == len(data) and fr == rc_.varint(good_pid) + body
        except Exception:
            ok = False
        if failed is None or not ok:
            ctx.violation('a write failed in serialisation (%s, nothing sent); the next packet (id %d, %d bytes, threshold %r) written by '
                          'the same thread went out as %s instead of exactly its own frame'
                          % (failed, good_pid, len(body), thr, data.hex()[:80]),
                          {'kind': kind, 'threshold': thr, 'id': good_pid, 'len': len(body)},
                          key={'kind': 'after-failed-serialise', 'k': kind, 'thr': thr})
    dispatch_tie(ctx)
    buffer_tie(ctx)
    buffer_trace_tie(ctx)


def dispatch_tie(ctx):
    """Tie of Model/C01Dispatch.lean (driver `dispatch.readall`, `conn.write`, `opts.run`) to the real code
    (ported from harness/xcheck/c01dispatch_xcheck.py): read_packet with random id tables of typed packet
    classes (values and UNREAD rest of each frame's PacketBuffer observed through a recording subclass),
    Connection._write_packet under (compression_enabled, compression_threshold), and the code that assigns
    the two options (_connect, the two set-compression reactions).  Module globals that are replaced
    (packets.PacketBuffer, connection.select, connection.socket) are restored in finally."""
    import struct
    import minecraft.networking.connection as C
    import minecraft.networking.packets as P
    from minecraft.networking.packets import Packet, clientbound
    from minecraft.networking.types import basic as B
    rng = ctx.rng
    TY = {'varint': B.VarInt, 'string': B.String, 'bool': B.Boolean, 'i16': B.Short, 'bytesv': B.VarIntPrefixedByteArray,
          'trailing': B.TrailingByteArray, 'i64': B.Long, 'u8': B.UnsignedByte}
    varint = refcodec.varint

    def rndval(t):
        if t == 'varint':
            return rng.choice([0, 1, 127, 128, 300, 2 ** 31 - 1])
        if t == 'string':
            return rng.choice(['', 'hi', u'h\xe9llo', u'€'])
        if t == 'bool':
            return rng.random() < .5
        if t == 'i16':
            return rng.randrange(-2 ** 15, 2 ** 15)
        if t == 'i64':
            return rng.randrange(-2 ** 63, 2 ** 63)
        if t == 'u8':
            return rng.randrange(256)
        return bytes(rng.randrange(256) for _ in range(rng.randrange(0, 5)))

    def showval(v):
        if isinstance(v, bool):
            return 'T' if v else 'F'
        if isinstance(v, int):
            return 'i%d' % v
        if isinstance(v, str):
            return 's' + v.encode('utf-8').hex()
        return 'x' + bytes(v).hex()

    def ename2(e):
        if isinstance(e, EOFError):
            return 'eof'
        if isinstance(e, AssertionError):
            return 'assertion'
        if isinstance(e, zlib.error):
            return 'zlib'
        if isinstance(e, UnicodeDecodeError):
            return 'decode'
        if isinstance(e, ValueError) and 'too long' in str(e):
            return 'toolong'
        if isinstance(e, struct.error):
            return 'struct'
        if isinstance(e, ValueError):
            return 'value'
        if isinstance(e, TypeError):
            return 'type'
        return 'other:' + type(e).__name__

    made = []
    orig = P.PacketBuffer

    class Spy(orig):
        def __init__(self, *a, **k):
            orig.__init__(self, *a, **k)
            made.append(self)
    context = C.ConnectionContext(protocol_version=757)
    reqs, want = [], []
    saved = (P.PacketBuffer, C.select)
    P.PacketBuffer = Spy
    C.select = types.SimpleNamespace(select=lambda r, w, x, t=None: (list(r), [], []))
    try:
        for case in range(ctx.scale(250, 4000)):
            ids = rng.sample([0, 1, 2, 3, 0x21, 0x7f, 0x80, 300, 2 ** 21], rng.randrange(0, 5))
            table = {}
            for i in ids:
                tys = [rng.choice(['varint', 'string', 'bool', 'i16', 'bytesv', 'i64', 'u8']) for _ in range(rng.randrange(0, 4))]
                if rng.random() < .3:
                    tys.append('trailing')
                table[i] = tys
            classes = {i: type('K%d' % i, (Packet,), {'id': i, 'definition': [{'f%d' % k: TY[t]} for k, t in enumerate(tys)]})
                       for i, tys in table.items()}

            class Reactor(C.PacketReactor):
                get_clientbound_packets = staticmethod(lambda context_, cs=classes: set(cs.values()))
            enabled = rng.random() < .6
            thr = rng.choice([-1, 0, 1, 4, 64, -3])
            zmap, wire = {}, b''
            for _ in range(rng.randrange(0, 6)):
                kind = rng.choice(['known', 'known', 'unknown', 'unknown', 'bad'])
                if kind != 'unknown' and not table:
                    kind = 'unknown'
                if kind == 'unknown':
                    pid = rng.choice([4, 5, 0x55, 129, 16384, 2 ** 28])
                    fields = bytes(rng.randrange(256) for _ in range(rng.randrange(0, 9)))
                else:
                    pid = rng.choice(sorted(table))
                    buf = orig()
                    for t in table[pid]:
                        TY[t].send(rndval(t), buf)
                    fields = buf.get_writable()
                    if kind == 'bad':
                        fields = fields[:rng.randrange(0, len(fields) + 1)] if rng.random() < .6 else fields + b'\xff\xfe'
                p = Packet()
                p.id, p.definition, p.payload, p.context = pid, [{'payload': B.TrailingByteArray}], fields, context
                s = Sock()
                if enabled:
                    p.write(s, thr)
                else:
                    p.write(s)
                wire += b''.join(s.sends)
                payload = varint(pid) + fields
                if enabled and thr != -1 and len(payload) > thr:
                    zmap[zlib.compress(payload)] = payload
            if rng.random() < .15 and wire:
                wire = wire[:-1]
            segs, i = [], 0
            while i < len(wire):
                n = rng.choice([1, 1, 2, 3, 5, 8, 40])
                segs.append(wire[i:i + n])
                i += n
            if rng.random() < .3:
                segs = [wire]
            conn = types.SimpleNamespace(context=context, options=C._ConnectionOptions(compression_enabled=enabled, compression_threshold=thr))
            reactor = Reactor(conn)
            stream = SegStream(segs)
            items, end = [], None
            for _ in range(12):
                del made[:]
                try:
                    p = reactor.read_packet(stream, timeout=0)
                except Exception as e:
                    end = ename2(e)
                    break
                unread = made[0].read()
                if type(p) is Packet:
                    items.append('b:%d:%s' % (p.id, hx(unread)))
                else:
                    vals = [getattr(p, n) for f in type(p).definition for n in f]
                    items.append('k:%d:%s:%s' % (p.id, ';'.join(showval(v) for v in vals) or '-', hx(unread)))
            zm = ','.join('%s:%s' % (hx(c), hx(pl)) for c, pl in zmap.items()) or '-'
            tab = '|'.join('%d=%s' % (i, ';'.join(t) or '-') for i, t in sorted(table.items())) or '-'
            reqs.append('dispatch.readall %d zmap=%s tab=%s %s' % (enabled, zm, tab, ' '.join(hx(s) for s in segs if s)))
            want.append('ok %send=%s reads=%d eofreads=%d' % (''.join(i + ' ' for i in items), end, stream.reads, stream.empties))
    finally:
        P.PacketBuffer, C.select = saved
    n_read = len(reqs)
    # ---- conn.write vs the real _write_packet
    for case in range(ctx.scale(80, 1200)):
        enabled = rng.random() < .5
        thr = rng.choice([-1, 0, 1, 3, 64, -3, 1000])
        pid = rng.choice([0, 5, 0x7f, 300])
        fields = bytes(rng.randrange(256) for _ in range(rng.randrange(0, 70)))
        conn = C.Connection('localhost', 25565)
        conn.socket = Sock()
        conn.options.compression_enabled, conn.options.compression_threshold = enabled, thr
        p = Packet()
        p.id, p.definition, p.payload, p.context = pid, [{'payload': B.TrailingByteArray}], fields, conn.context
        conn._write_packet(p)
        payload = varint(pid) + fields
        reqs.append('conn.write %d %d zmap=%s:%s %s' % (enabled, thr, hx(zlib.compress(payload)), hx(payload), hx(payload)))
        want.append('ok ' + ' '.join(hx(s) for s in conn.socket.sends))
    n_write = len(reqs) - n_read

    # ---- opts.run vs the real handlers
    class FS:
        def __init__(self, *a):
            pass

        def connect(self, a):
            pass

        def makefile(self, *a):
            return None
    fake = types.SimpleNamespace(AF_INET=2, AF_INET6=10, SOCK_STREAM=1, socket=FS,
                                 getaddrinfo=lambda *a: [(2, 1, 6, '', ('127.0.0.1', 25565))])
    for case in range(ctx.scale(80, 1200)):
        conn = C.Connection('localhost', 25565, initial_version=47)
        conn.context.protocol_version = 47
        e0, t0 = rng.random() < .5, rng.choice([-1, 0, 256, 7])
        conn.options.compression_enabled, conn.options.compression_threshold = e0, t0
        evs = []
        for _ in range(rng.randrange(0, 5)):
            r = rng.random()
            if r < .3:
                sv = C.socket
                C.socket = fake
                try:
                    conn._connect()
                finally:
                    C.socket = sv
                evs.append('connect')
            else:
                t = rng.choice([-1, 0, 256, 5, -9])
                if r < .65:
                    C.LoginReactor(conn).react(clientbound.login.SetCompressionPacket(threshold=t))
                else:
                    C.PlayingReactor(conn).react(clientbound.play.SetCompressionPacket(threshold=t))
                evs.append('setc/%d' % t)
        o = conn.options
        seen = {}      # what the writer would pass / the reader would test, observed on the real code
        pk = types.SimpleNamespace(write=lambda sock, thr='none': seen.setdefault('w', thr))
        conn.socket = Sock()
        conn._write_packet(pk)
        reqs.append('opts.run %d %d %s' % (e0, t0, ' '.join(evs)))
        want.append('ok %d %d writer=%s reader=%d' % (o.compression_enabled, o.compression_threshold, seen['w'], bool(o.compression_enabled)))
    for line, m, w in zip(reqs, ctx.driver.ask(reqs), want):
        op = line.split()[0]
        ctx.case(('c01dispatch', line), sample={'op': op, 'impl': w[:160]} if op != 'dispatch.readall' or len(w) > 40 else None)
        ctx.count('dispatch_tie.' + op)
        if op == 'dispatch.readall':
            ctx.count('dispatch_tie.end.' + w.split('end=')[1].split()[0])
        if m != w:
            ctx.disagree('%s vs the real code' % op, line[:600], m[:400], w[:400])
    ctx.extra['c01dispatch_pairs'] = ctx.extra.get('c01dispatch_pairs', 0) + len(reqs)
    ctx.extra['c01dispatch_pairs_by_op'] = {'dispatch.readall': n_read, 'conn.write': n_write, 'opts.run': len(reqs) - n_read - n_write}


def buffer_tie(ctx):
    """Props/C01Buffer: `pbuf.run` against the live PacketBuffer.  Sequences that follow the discipline
    of Packet.write / read_packet (episodes `reset? sends* (get)* rewind reads*`) are a HARD tie and are
    also judged by a model-independent oracle (the reads are the consecutive pieces of what was sent,
    get_writable is the concatenation); sequences outside it (a send while the cursor is not at the
    end: BytesIO overwrites) are compared too but only RECORDED -- no pyCraft code path does that, and
    an append-only re-implementation of the buffer must not raise an alarm."""
    from minecraft.networking.packets.packet_buffer import PacketBuffer
    rng = ctx.rng

    def hx(b):
        return b.hex() or '-'

    def live(ops):
        b = PacketBuffer()
        outs = []
        for op in ops:
            k = op[0]
            if k == 's':
                b.send(op[1])
            elif k == 'r':
                outs.append((b.read if rng.random() < 0.5 else b.recv)(op[1]))
            elif k == 'R':
                b.reset()
            elif k == 'c':
                b.reset_cursor()
            else:
                outs.append(b.get_writable())
        return 'ok pos=%d len=%d' % (b.bytes.tell(), len(b.bytes.getvalue())) + ''.join(' ' + hx(o) for o in outs), outs

    def tok(op):
        if op[0] == 's':
            return 's:' + hx(op[1])
        if op[0] == 'r':
            return 'r:*' if op[1] is None else 'r:%d' % op[1]
        return op[0]

    def blob():
        n = rng.choice([0, 1, 1, 2, 3, 5, 8, 40])
        return bytes(rng.randrange(256) for _ in range(n))

    seqs = []
    for i in range(ctx.scale(400, 6000)):
        ops, expect, disciplined = [], [], True
        if i % 4 == 3:                       # outside the discipline: any order of operations
            disciplined = False
            for _ in range(rng.randrange(1, 14)):
                k = rng.choice('ssssrrrRcgg')
                ops.append(('s', blob()) if k == 's' else
                           ('r', rng.choice([None, 0, 1, 2, 3, 7, 100])) if k == 'r' else (k,))
        else:
            for ep in range(rng.randrange(1, 4)):
                if ep or rng.random() < 0.3:
                    ops.append(('R',))
                sent = b''
                for _ in range(rng.randrange(0, 6)):
                    v = blob()
                    ops.append(('s', v))
                    sent += v
                    if rng.random() < 0.2:
                        ops.append(('g',))
                        expect.append(sent)
                ops.append(('c',))
                rest = sent
                for _ in range(rng.randrange(0, 6)):
                    n = rng.choice([None, 0, 1, 2, 3, 7, 100]) if rng.random() < 0.9 else len(rest)
                    ops.append(('r', n))
                    piece = rest if n is None else rest[:n]
                    rest = rest[len(piece):]
                    expect.append(piece)
                    if rng.random() < 0.15:
                        ops.append(('g',))
                        expect.append(sent)
        seqs.append((ops, expect, disciplined))
    # the exact operation sequences of read_packet (Props/C01BufferFrame): reassembly loop with a
    # get_writable after every segment, reset_cursor, [k one-byte reads, read(), reset, send(d),
    # reset_cursor,] sized reads
    for i in range(ctx.scale(150, 2500)):
        ops, expect = [], []
        sent = b''
        for j in range(rng.randrange(1, 5)):
            v = blob()
            if j:                             # loop test + size of the next read: two get_writable calls
                ops.append(('g',))
                expect.append(sent)
            ops += [('s', v), ('g',)]
            sent += v
            expect.append(sent)
        ops.append(('c',))
        rest = sent
        if i % 2:
            k = rng.randrange(0, 4)
            for _ in range(k):
                ops.append(('r', 1))
                expect.append(rest[:1])
                rest = rest[1:]
            d = blob() + blob()
            ops += [('r', None), ('R',), ('s', d), ('c',)]
            expect.append(rest)
            rest = d
        for _ in range(rng.randrange(0, 6)):
            n = rng.choice([0, 1, 1, 2, 3, 8, 100])
            ops.append(('r', n))
            expect.append(rest[:n])
            rest = rest[n:]
        seqs.append((ops, expect, True))
    lines = ['pbuf.run ' + ' '.join(tok(o) for o in ops) for ops, _, _ in seqs]
    for (ops, expect, disc), line, m in zip(seqs, lines, ctx.driver.ask(lines)):
        w, outs = live(ops)
        ctx.case(('pbuf', line), sample={'op': 'pbuf.run', 'impl': w[:120]} if len(ops) > 6 else None)
        ctx.count('buffer_tie.' + ('disciplined' if disc else 'free'))
        if disc:
            if outs != expect:
                ctx.violation('PacketBuffer used as Packet.write / read_packet use it does not behave as a byte string: '
                              '%s returned %s, the bytes sent cut at the requested sizes are %s'
                              % (line, [hx(o) for o in outs], [hx(e) for e in expect]),
                              {'ops': line}, key={'kind': 'packet-buffer', 'ops': line})
            if m != w:
                ctx.disagree('pbuf.run vs the real PacketBuffer', line[:400], m[:300], w[:300])
        elif m != w:
            ctx.count('buffer_tie.free.differs-from-model(recorded, not judged)')


def buffer_trace_tie(ctx):
    """Props/C01BufferRefine: the operations the REAL `read_packet` issues on its PacketBuffer (recorded by a
    subclass that only observes) are (1) matched against the shape `readPacketBuf` / `C01BufferFrame` assume --
    `send get_writable (get_writable send get_writable)* reset_cursor [read(1)* read() reset send reset_cursor] reads…` -- and (2) replayed on
    the buffer model (`pbuf.run`), whose returned byte strings must be the ones the live buffer returned.  A
    trace outside the shape (a rewritten caller) is replayed too but only recorded."""
    import re
    import minecraft.networking.connection as C
    from minecraft.networking import packets as P
    from minecraft.networking.packets import Packet
    from minecraft.networking.types import TrailingByteArray, VarInt, String
    rng = ctx.rng
    orig = P.PacketBuffer
    traces = []

    def hx(b):
        return b.hex() or '-'

    class Spy(orig):
        def __init__(self):
            orig.__init__(self)
            self.tr = []
            traces.append(self.tr)

        def send(self, v):
            self.tr.append(('s', bytes(v)))
            return orig.send(self, v)

        def read(self, length=None):
            out = orig.read(self, length)
            self.tr.append(('r', length, bytes(out)))
            return out

        def recv(self, length=None):          # recv -> read: recorded once, by read
            return orig.recv(self, length)

        def reset(self):
            self.tr.append(('R',))
            return orig.reset(self)

        def reset_cursor(self):
            self.tr.append(('c',))
            return orig.reset_cursor(self)

        def get_writable(self):
            out = orig.get_writable(self)
            self.tr.append(('g', bytes(out)))
            return out

    class Known(Packet):
        id = 0x21
        definition = [{'a': VarInt}, {'s': String}, {'rest': TrailingByteArray}]

    class Reactor(C.PacketReactor):
        get_clientbound_packets = staticmethod(lambda context: {Known})

    saved = (P.PacketBuffer, C.select)
    C.select = types.SimpleNamespace(select=lambda r, w, x, t=None: (list(r), [], []))
    jobs = []
    try:
        for i in range(ctx.scale(120, 2000)):
            thr = [None, -1, 0, 1, 16, 300][i % 6]
            if rng.random() < 0.6:
                p = Known()
                p.a = rng.choice([0, 1, 127, 128, 2 ** 31 - 1])
                p.s = ''.join(rng.choice('abé中') for _ in range(rng.choice([0, 1, 5, 40])))
                p.rest = bytes(rng.randrange(256) for _ in range(rng.choice([0, 1, 20, 400])))
            else:
                p = Packet()
                p.id = rng.choice([2, 0x55, 300])
                p.definition = [{'payload': TrailingByteArray}]
                p.payload = bytes(rng.randrange(256) for _ in range(rng.choice([0, 1, 20, 400])))
            p.context = C.ConnectionContext(protocol_version=757)
            P.PacketBuffer = orig
            w = Sock()
            p.write(w) if thr is None else p.write(w, thr)
            wire = b''.join(w.sends)
            cuts = sorted(rng.randrange(len(wire) + 1) for _ in range(rng.choice([0, 1, 2, 5])))
            segs = [wire[a:b] for a, b in zip([0] + cuts, cuts + [len(wire)])]
            conn = types.SimpleNamespace(context=C.ConnectionContext(protocol_version=757),
                                         options=types.SimpleNamespace(compression_enabled=thr is not None,
                                                                       compression_threshold=-1 if thr is None else thr))
            P.PacketBuffer = Spy
            del traces[:]
            try:
                Reactor(conn).read_packet(SegStream(segs), timeout=0)
                end = 'ok'
            except Exception as e:
                end = ename(e)
            P.PacketBuffer = orig
            for tr in traces:
                jobs.append((list(tr), thr is not None, end))
    finally:
        P.PacketBuffer, C.select = saved
    shape = re.compile(r'^sg(gsg)*c(r*aRsc)?[ra]*$')
    lines = []
    for tr, comp, end in jobs:
        toks = []
        for op in tr:
            if op[0] == 's':
                toks.append('s:' + hx(op[1]))
            elif op[0] == 'r':
                toks.append('r:*' if op[1] is None else 'r:%d' % op[1])
            else:
                toks.append(op[0])
        lines.append('pbuf.run ' + ' '.join(toks))
    # the model's OWN statement of the sequence (C01BufferFrame.readPacketOps, printed by `pbuf.rp`) against
    # the recorded one, token by token; parameters (segments, length of the data-length VarInt, inflated
    # packet, parser reads) are taken from the live trace
    rp_reqs = []
    for tr, comp, end in jobs:
        kinds = ''.join('a' if (op[0] == 'r' and op[1] is None) else op[0] for op in tr)
        if not shape.match(kinds):
            rp_reqs.append(None)
            continue
        c1 = kinds.index('c')
        segs = [op[1] for op in tr[:c1] if op[0] == 's']
        after = tr[c1 + 1:]
        comp_tok = '-'
        if 'aRsc' in kinds:
            a = kinds.index('aRsc')
            comp_tok = '%d:%s' % (a - c1 - 1, hx(tr[a + 2][1]))
            after = tr[a + 4:]
        rp_reqs.append('pbuf.rp %s %s %s' % (comp_tok, ' '.join('v:' + hx(v) for v in segs),
                                             ' '.join('n:*' if op[1] is None else 'n:%d' % op[1] for op in after)))
    rp_ans = iter(ctx.driver.ask([r for r in rp_reqs if r]))
    for (tr, comp, end), line, req in zip(jobs, lines, rp_reqs):
        if req is None:
            continue
        m = next(rp_ans)
        ctx.count('buffer_trace_tie.ops-compared')
        if m != line[len('pbuf.run '):]:
            ctx.disagree('pbuf.rp (readPacketOps) vs the operations the real read_packet issued', req[:400], m[:300],
                         line[len('pbuf.run '):][:300])
    for (tr, comp, end), line, m in zip(jobs, lines, ctx.driver.ask(lines)):
        kinds = ''.join('a' if (op[0] == 'r' and op[1] is None) else op[0] for op in tr)
        outs = [op[-1] for op in tr if op[0] in 'rg']
        inshape = bool(shape.match(kinds)) and all(op[1] is None or op[1] >= 0 for op in tr if op[0] == 'r')
        ctx.case(('pbuf.trace', line), sample={'op': 'pbuf.trace', 'impl': kinds[:80]} if len(kinds) > 8 else None)
        ctx.count('buffer_trace_tie.' + ('in-shape' if inshape else 'outside-shape(recorded)'))
        if not inshape and ctx.extra.setdefault('buffer_trace_outside_samples', []) is not None and len(ctx.extra['buffer_trace_outside_samples']) < 5:
            ctx.extra['buffer_trace_outside_samples'].append(kinds[:120])
        ctx.count('buffer_trace_tie.compressed-episode' if 'aRsc' in kinds else 'buffer_trace_tie.plain')
        got = m.split()[3:] if m.startswith('ok ') else None
        if got != [hx(o) for o in outs]:
            if inshape:
                ctx.disagree('pbuf.run replay of the operations read_packet issued on its PacketBuffer', line[:400],
                             m[:300], ' '.join(hx(o) for o in outs)[:300])
            else:
                ctx.count('buffer_trace_tie.differs-from-model(recorded, not judged)')


def pkts_by_pos(pkts, k):
    # payload of a generic (unknown-id) packet is not retained by pyCraft: show the written fields so the
    # line compares equal to the model, which does return them; the id and the successors are what the
    # implementation lets us observe
    return pkts[k][1] if k < len(pkts) else b''


def replay(ctx, rp):
    for v in rp.get('violations', []):
        print(v)
    return not rp.get('violations')
