"""C10: login completes correctly for every order of optional server steps.  Sequential simnet;
independent server with textbook RSA (pow + PKCS#1 v1.5 unpadding) and pure-Python AES-CFB8."""
import json
import os

import refcodec as rc
import refproto as rp
import simnet
from refserver import RefServer

EXTRA_PROPS = ['C10Wire', 'Session', 'C10Inbound']

EXTRACT = ['gen.c10inbound']

RULE = ("server login scripts over {encrypt?, compress(t in {0,1,64,256,2^31-1})?, plugin-request*, "
        "success | disconnect(msg)} in every admissible order (plugin requests interleaved anywhere), "
        "protocol versions either side of 385, 391 and 707, online ('srv…') and offline ('-') server ids, "
        "with and without an auth token; disconnect messages: JSON with text, raw strings, the two "
        "'Outdated' patterns with variations; distinct by (version, token, script)")

THRESH = [0, 1, 64, 256, 2 ** 31 - 1]
MSGS = ['{"text":"You are banned"}', 'plain not json', '{"text":"Outdated client! Please use 1.16.4"}',
        '{"text":"Outdated server! I\'m still on 1.8.9"}', 'Outdated client! Please use 1.12.2',
        '{"text":"Outdated client! Please use 1.16 .4"}', '{"translate":"x"}', '{"text":""}',
        '"just a string"', '{"text":"Outdated server! I\'m still on "}', '[1,2]',
        '{"text":"Server closed","extra":[]}', '{"text":5}', '{"text":null}',
        # version names the library has never heard of
        '{"text":"Outdated client! Please use 1.20.1"}', "Outdated server! I'm still on 1.7.10-Forge",
        '{"text":"Outdated client! Please use 23w31a"}']


def hh(b):
    return bytes(b).hex() or '-'


def run(ctx):
    import minecraft
    import minecraft.networking.connection as C
    from minecraft.networking import encryption as E
    from minecraft.exceptions import LoginDisconnect, VersionMismatch
    from minecraft.networking.packets import clientbound as cb, serverbound as sb
    ctx.extra['rule'] = RULE
    rng = ctx.rng
    SUP = set(minecraft.SUPPORTED_PROTOCOL_VERSIONS)
    versions = [v for v in (340, 384, 385, 390, 391, 404, 498, 706, 707, 735, 757) if v in SUP]
    ctx.extra['versions'] = versions
    lines, impl, hash_lines, hash_impl = [], [], [], []
    wire_lines, wire_impl = [], []
    sess_lines, sess_impl = [], []
    for trial in range(ctx.scale(140, 1600)):
        v = versions[trial % len(versions)]
        cx = C.ConnectionContext(protocol_version=v)
        # documented boundary: login plugin channels exist from protocol 385 (18w01a) on.  All listed
        # versions are ordinary (non-pre-release) numbers, so numeric comparison is the release order.
        has_plugin = v >= 385
        token = trial // len(versions) % 2 == 0
        # ---- script
        core = []
        if rng.random() < 0.6:
            core.append(('encrypt', rng.choice(['-', 'srv%d' % trial, '', 'é']),
                         bytes(rng.randrange(256) for _ in range(rng.choice([1, 4, 16, 64])))))
        if rng.random() < 0.6:
            core.append(('compress', rng.choice(THRESH)))
        rng.shuffle(core)
        if has_plugin:
            for _ in range(rng.choice([0, 0, 1, 2, 5])):
                core.insert(rng.randrange(len(core) + 1),
                            ('plugin', rng.choice([rng.randrange(0, 300), rng.randrange(0, 300), 2 ** 31 - 1, 2 ** 31,
                                                   2 ** 32 - 1, rng.randrange(2 ** 31, 2 ** 32)]),   # a Java int on the wire
                             rng.choice(['ch', 'mod:x']),
                             bytes(rng.randrange(256) for _ in range(rng.choice([0, 3])))))
        # a plugin request whose packet is EXACTLY as long as the announced threshold (vanilla deflates it)
        thr_at = next((i for i, s_ in enumerate(core) if s_[0] == 'compress' and s_[1] in (64, 256)), None)
        if thr_at is not None and rng.random() < 0.6:
            for i in range(thr_at + 1, len(core)):
                if core[i][0] == 'plugin':
                    fixed = len(rc.varint(4) + rc.varint(core[i][1]) + rc.string(core[i][2]))
                    core[i] = core[i][:3] + (bytes(rng.randrange(256) for _ in range(core[thr_at][1] - fixed)),)
                    ctx.count('plugin-at-threshold')
                    break
        if rng.random() < 0.65:
            core.append(('success',))
            tail = [('keepalive', 7)] if rng.random() < 0.5 else []
        else:
            core.append(('disconnect', rng.choice(MSGS)))
            tail = []
        cfg = {'version': v, 'script': list(core) + tail, 'rsa': rng.choice(['1024', '2048'])}
        ids = dict(disconnect=cb.login.DisconnectPacket.get_id(cx),
                   encreq=cb.login.EncryptionRequestPacket.get_id(cx),
                   success=cb.login.LoginSuccessPacket.get_id(cx),
                   compress=cb.login.SetCompressionPacket.get_id(cx),
                   start=sb.login.LoginStartPacket.get_id(cx),
                   encresp=sb.login.EncryptionResponsePacket.get_id(cx))
        if has_plugin:
            ids['plugin'] = cb.login.PluginRequestPacket.get_id(cx)
            ids['plugresp'] = sb.login.PluginResponsePacket.get_id(cx)
        if not (385 <= v < 391 and v in SUP and False):
            pass
        if ids['start'] != 0:      # only the 1.13 snapshots 385..390: ids from pyCraft's table (not independent)
            cfg['login_ids'] = ids
        cfg['uuid_binary'] = list(cb.login.LoginSuccessPacket.get_definition(cx)[0].values())[0].__name__ == 'UUID'
        joins, excs, draws = [], [], []

        class Tok:
            class profile:
                name = 'Prof'

            def join(self, server_id):
                joins.append(server_id)
                return True
        real_urandom = os.urandom

        def spy(n):
            r = real_urandom(n)
            draws.append(r)
            return r
        E.os.urandom = spy
        try:
            with simnet.Net(lambda s: RefServer(s, cfg)) as net:
                conn = C.Connection('h', 1, username='u', auth_token=Tok() if token else None,
                                    allowed_versions={v}, handle_exception=lambda e, i: excs.append(e))
                conn.connect()
                net.run_threads()
                reactor = type(conn.reactor).__name__
                opts = conn.options
                raw_sent = bytes(net.sockets[0].sent)
                enc_on = type(conn.socket).__name__ == 'EncryptedSocketWrapper' if conn.socket is not None \
                    else any(isinstance(s.server.secret, bytes) for s in net.sockets)
        finally:
            E.os.urandom = real_urandom
        srv = cfg['servers'][0]
        secret = srv.secret
        # ---- what the server saw after login start, in order
        out = []
        after_enc = False
        for st, pid, payload, was_enc, was_comp in srv.frames:
            if st == 'handshake' or (pid == ids['start'] and st == 'login' and not out and not after_enc
                                     and payload[1:] in (b'u', b'Prof')):
                continue
            thr = 'tnone'
            if pid == ids['encresp'] and st == 'login':
                sl, p = rc.read_varint(payload, 0)
                es = payload[p:p + sl]
                tl, p2 = rc.read_varint(payload, p + sl)
                et = payload[p2:p2 + tl]
                S = rc.rsa_pkcs1v15_decrypt(srv.key, es)
                T = rc.rsa_pkcs1v15_decrypt(srv.key, et)
                out.append(['encresp', 'e%d' % was_enc, was_comp, 'S%s.T%s' % (hh(S), hh(T))])
                after_enc = True
            elif has_plugin and pid == ids.get('plugresp') and st in ('login', 'play') and len(payload) >= 2:
                mid, p = rc.read_varint(payload, 0)
                out.append(['plugresp', 'e%d' % was_enc, was_comp, '%d.%d' % (mid, payload[p])])
            else:
                out.append(['other%d' % pid, 'e%d' % was_enc, was_comp, ''])
        # ---- model line (literal schedule: everything is read in one batch, queued replies flushed after)
        evs = ['fl']
        for step in core:
            if step[0] == 'encrypt':
                evs.append('enc:%s:%s:%s' % (hh(step[1].encode()), hh(srv.key['der']), hh(step[2])))
            elif step[0] == 'compress':
                evs.append('comp:%d' % step[1])
            elif step[0] == 'plugin':
                evs.append('plug:%d:%s:%s' % (step[1], hh(step[2].encode()), hh(step[3])))
            elif step[0] == 'success':
                evs.append('succ')
            else:
                try:
                    j = json.loads(step[1])
                    t = j['text']
                    tx = hh(t.encode()) if isinstance(t, str) else '!'
                except (ValueError, TypeError, KeyError):
                    tx = '~'
                evs.append('disc:%s:%s' % (hh(step[1].encode()), tx))
        sec_for_model = secret if secret is not None else (draws[0] if draws and len(draws[0]) == 16 else b'\x00' * 16)
        lines.append('login.run token=%d secret=%s %s' % (token, hh(sec_for_model), ' '.join(evs)))
        wire_lines.append('loginwire.run encid=%d plugid=%d token=%d secret=%s %s' % (
            ids['encresp'], ids.get('plugresp', 2), token, hh(sec_for_model), ' '.join(evs)))
        wire_impl.append((raw_sent, sum(1 for f in srv.frames if f[0] == 'handshake') +
                          sum(1 for f in srv.frames[:2] if f[0] == 'login' and f[1] == ids['start']),
                          core[-1][0] == 'success'))
        # the WHOLE client stream of the session (Model/SessionWire.lean, Props/Session.lean): first frames,
        # login outbox, play replies under the cipher context and threshold carried over from login
        if core[-1][0] == 'success' and v in rp.RELEASES:
            newer = rp.layout('position_look_cb', v) is not None and len(rp.layout('position_look_cb', v)) >= 7
            sess_lines.append('session.run hs=%d:%s:1:%d:%s login=%d:%d:%d:%s play=ka=%d:%d:%s/pos=%d:%d:%s:%s/disc=%d capw=300 capr=50 L %s P %s' % (
                v, b'h'.hex(), ids['start'], (b'Prof' if token else b'u').hex(),
                ids['encresp'], ids.get('plugresp', 2), token, hh(sec_for_model),
                rp.packet_id('keep_alive_cb', v), rp.packet_id('keep_alive_sb', v),
                'L' if rp.layout('keep_alive_cb', v)[0][1] == 'i64' else 'V',
                rp.packet_id('position_look_cb', v),
                rp.packet_id('teleport_confirm', v) if newer else rp.packet_id('position_look_sb', v),
                'T' if newer else 'E', 'D' if len(rp.layout('position_look_cb', v)) >= 8 else '-',
                rp.packet_id('disconnect_play', v), ' '.join(evs), 'ka:7' if tail else ''))
            sess_impl.append((raw_sent, any(s_[0] == 'encrypt' for s_ in core)))
        err = 'none'
        if excs:
            e = excs[-1]
            if isinstance(e, VersionMismatch):
                err = 'mismatch:%s' % hh(str(e.server_version).encode())
            elif isinstance(e, LoginDisconnect):
                msg = str(e)
                pre, suf = 'The server rejected our login attempt with: "', '".'
                err = 'login:%s' % hh(msg[len(pre):-len(suf)].encode()) if msg.startswith(pre) else 'login?'
            elif isinstance(e, TypeError):
                err = 'type'
            else:
                err = type(e).__name__
        thr_now = opts.compression_threshold if opts.compression_enabled else None
        # the server knows which threshold it announced before each client frame was written only as
        # compressed / not compressed: compare that flag (t<int> vs tnone) and drop the forced/queued mark
        def norm_model(mo):
            if not mo.startswith('ok out='):
                return mo
            head, rest = mo[len('ok out='):].split(' ', 1)
            frames = []
            for f in ([] if head == '-' else head.split(',')):
                k, e, t, fq, d = f.split('/')
                frames.append('%s/%s/%s/%s' % (k, e, 'c0' if t == 'tnone' else 'c1', d))
            return 'ok out=%s %s' % (','.join(frames) or '-', rest)
        got = 'ok out=%s state=%s enc=%d thr=%s joined=%d err=%s' % (
            ','.join('%s/%s/c%d/%s' % (k, e, c, d) for k, e, c, d in out if not k.startswith('other')) or '-',
            'play' if reactor == 'PlayingReactor' else 'login', bool(secret is not None),
            'none' if thr_now is None else thr_now, bool(joins), err)
        impl.append((got, norm_model))
        ctx.case((v, token, tuple(map(repr, core))), sample={'version': v, 'token': token,
                                                           'script': [s[0] for s in core], 'impl': got[:140]})
        for s in core:
            ctx.count('step.' + s[0])
        ctx.count('v.%d' % v)
        # ------------------------------------------------------------ oracle (the property)
        bad = None
        encs = [s for s in core if s[0] == 'encrypt']
        ends_disc = core[-1][0] == 'disconnect'
        if encs and not ends_disc or (encs and core.index(encs[0]) < len(core) - 1):
            er = [o for o in out if o[0] == 'encresp']
            if len(er) != 1:
                bad = 'expected exactly one encryption response, saw %d' % len(er)
            else:
                if er[0][3] != 'S%s.T%s' % (hh(secret or b''), hh(encs[0][2])):
                    bad = 'key holder does not recover secret/verify token from the response'
                elif er[0][1] != 'e0':
                    bad = 'encryption response itself was sent encrypted'
                else:
                    k = out.index(er[0])
                    if any(o[1] != 'e1' for o in out[k + 1:]):
                        bad = 'a frame after the encryption response is not encrypted'
                    if len(draws) < 1 or secret != draws[0] or len(secret) != 16:
                        bad = 'shared secret is not the fresh 16-byte draw'
        if not bad:
            # threshold applies to everything written after the announcement
            comp_idx = next((i for i, s in enumerate(core) if s[0] == 'compress'), None)
            enc_idx = next((i for i, s in enumerate(core) if s[0] == 'encrypt'), None)
            for o in out:
                if o[0] == 'encresp' and comp_idx is not None and enc_idx is not None:
                    want = comp_idx < enc_idx
                    if o[2] != want:
                        bad = 'encryption response compressed-format=%s, set-compression %s it' % (
                            o[2], 'precedes' if want else 'follows')
                if o[0] == 'plugresp' and comp_idx is not None and not ends_disc and o[2] is not True:
                    bad = 'plugin response written after set-compression is not in compressed format'
        if not bad and not ends_disc:
            want = ['%d.0' % s[1] for s in core if s[0] == 'plugin']
            have = [o[3] for o in out if o[0] == 'plugresp']
            if have != want:
                bad = 'plugin responses %r, requests %r' % (have, want)
        if not bad:
            if core[-1][0] == 'success' and reactor != 'PlayingReactor':
                bad = 'login success did not enter the play state (%s)' % reactor
            if ends_disc:
                if not excs:
                    bad = 'login disconnect exited silently'
                else:
                    try:
                        t = json.loads(core[-1][1])['text']
                    except (ValueError, TypeError, KeyError):
                        t = core[-1][1]
                    if not isinstance(t, str):      # a non-string `text` is not a message: raw data
                        t = core[-1][1]
                    import re
                    m = isinstance(t, str) and re.match(r"Outdated (client! Please use|server! I'm still on) (\S+)$", t)
                    if isinstance(t, str):
                        if m and not (isinstance(excs[-1], VersionMismatch) and excs[-1].server_version == m.group(2)):
                            bad = "'outdated' message did not surface as VersionMismatch(%s): %r" % (m.group(2), excs[-1])
                        if not m and not (type(excs[-1]) is LoginDisconnect and t in str(excs[-1])):
                            bad = 'disconnect message %r surfaced as %r' % (t, excs[-1])
        if not bad and token and encs and encs[0][1] != '-' and (not ends_disc or core.index(encs[0]) < len(core) - 1):
            if len(joins) != 1:
                bad = 'auth token join called %d times' % len(joins)
            else:
                hash_lines.append('mchash %s %s %s' % (hh(encs[0][1].encode()), hh(secret), hh(srv.key['der'])))
                hash_impl.append('ok ' + joins[0])
        if not bad and (not token or not encs or encs[0][1] == '-') and joins:
            bad = 'join called for an offline server / without token'
        if bad:
            ctx.violation('protocol %d: %s' % (v, bad),
                          {'version': v, 'token': token, 'script': [list(map(str, s))[:3] for s in core], 'impl': got[:200]},
                          key={'version': v, 'token': token, 'script': [s[0] + (':' + str(s[1]) if len(s) > 1 else '') for s in core]})
    # ---- the server rejects the connection before reading anything: disconnect packet readable while the
    # client's own first writes fail (peer closed) -- the message must still surface
    import re as _re
    for trial in range(ctx.scale(22, 120)):
        v = versions[trial % len(versions)]
        msg = MSGS[trial % len(MSGS)]
        cx = C.ConnectionContext(protocol_version=v)
        cfg = {'version': v, 'script': [], 'early_disconnect': msg}
        if sb.login.LoginStartPacket.get_id(cx) != 0:
            cfg['login_ids'] = dict(disconnect=cb.login.DisconnectPacket.get_id(cx))
        excs = []
        with simnet.Net(lambda s_: RefServer(s_, cfg)) as net:
            conn = C.Connection('h', 1, username='u', allowed_versions={v}, handle_exception=lambda e, i: excs.append(e))
            try:
                conn.connect()
                net.run_threads()
            except Exception as e:
                excs.append(e)
        ctx.case(('early-disconnect', v, msg))
        ctx.count('early-disconnect')
        try:
            t = json.loads(msg)['text']
        except (ValueError, TypeError, KeyError):
            t = msg
        if not isinstance(t, str):
            t = msg
        m = _re.match(r"Outdated (client! Please use|server! I'm still on) (\S+)$", t)
        bad = None
        if not excs:
            bad = 'silent exit'
        elif m and not (isinstance(excs[-1], VersionMismatch) and excs[-1].server_version == m.group(2)):
            bad = "'outdated' message surfaced as %r" % (excs[-1],)
        elif not m and not (type(excs[-1]) is LoginDisconnect and t in str(excs[-1])):
            bad = 'message %r surfaced as %r' % (t, excs[-1])
        if bad:
            ctx.violation('protocol %d: server sends a login disconnect and closes before reading the handshake: %s' % (v, bad),
                          {'version': v, 'message': msg}, key={'kind': 'early-disconnect', 'version': v, 'message': msg})
    # ---- a user handler takes over plugin requests (early listener: answer, then IgnorePacket): its answer is
    # what reaches the server, once, successful with exactly the handler's payload (empty payload included)
    from minecraft.exceptions import IgnorePacket
    for trial in range(ctx.scale(18, 120)):
        v = [x for x in versions if x >= 385][trial % len([x for x in versions if x >= 385])]
        cx = C.ConnectionContext(protocol_version=v)
        datas = [rng.choice([b'', b'', b'ok', bytes(rng.randrange(256) for _ in range(5))]) for _ in range(rng.randint(1, 3))]
        mids = rng.sample(list(range(1, 200)) + [2 ** 31, 2 ** 32 - 1, 2 ** 31 + 77], len(datas))
        script = []
        if trial % 3 == 1:
            script.append(('compress', rng.choice([0, 64])))
        script += [('plugin', m_, 'my:chan', b'q') for m_ in mids] + [('success',)]
        cfg = {'version': v, 'script': script, 'rsa': '1024',
               'uuid_binary': list(cb.login.LoginSuccessPacket.get_definition(cx)[0].values())[0].__name__ == 'UUID'}
        if sb.login.LoginStartPacket.get_id(cx) != 0:
            cfg['login_ids'] = dict(disconnect=cb.login.DisconnectPacket.get_id(cx), encreq=cb.login.EncryptionRequestPacket.get_id(cx),
                                    success=cb.login.LoginSuccessPacket.get_id(cx), compress=cb.login.SetCompressionPacket.get_id(cx),
                                    start=sb.login.LoginStartPacket.get_id(cx), encresp=sb.login.EncryptionResponsePacket.get_id(cx),
                                    plugin=cb.login.PluginRequestPacket.get_id(cx), plugresp=sb.login.PluginResponsePacket.get_id(cx))
        excs = []
        with simnet.Net(lambda s_: RefServer(s_, cfg)) as net:
            conn = C.Connection('h', 1, username='u', allowed_versions={v}, handle_exception=lambda e, i: excs.append(e))
            answers = dict(zip(mids, datas))

            def take_over(pkt):
                conn.write_packet(sb.login.PluginResponsePacket(message_id=pkt.message_id, data=answers[pkt.message_id]))
                raise IgnorePacket
            conn.register_packet_listener(take_over, cb.login.PluginRequestPacket, early=True)
            conn.connect()
            net.run_threads()
            reactor = type(conn.reactor).__name__
        srv = cfg['servers'][0]
        pr_id = cfg.get('login_ids', {}).get('plugresp', 2)
        seen = []
        for st, pid, payload, _e, _c in srv.frames:
            if pid == pr_id and st in ('login', 'play') and payload:
                mid, q = rc.read_varint(payload, 0)
                seen.append((mid, payload[q:q + 1], payload[q + 1:]))
        want = [(m_, b'\x01', d_) for m_, d_ in zip(mids, datas)]
        ctx.case(('plugin-handler', v, tuple(mids), tuple(datas)))
        ctx.count('plugin-handler')
        if seen != want or excs or reactor != 'PlayingReactor':
            ctx.violation('protocol %d: a user handler answers plugin requests %r with payloads %r: the server received %r (state %s, errors %r)'
                          % (v, mids, datas, seen, reactor, excs[:1]), {'version': v, 'payloads': [d_.hex() for d_ in datas]},
                          key={'kind': 'plugin-handler', 'version': v, 'empty': any(d_ == b'' for d_ in datas)})
    # ---- a server with MANY plugin requests in flight at once (mod-loader handshakes do not wait for one answer before
    # sending the next request): more than one networking-loop batch; each answered exactly once, in order, then play
    for trial in range(ctx.scale(6, 30)):
        v = [x for x in versions if x >= 385][trial % len([x for x in versions if x >= 385])]
        cx = C.ConnectionContext(protocol_version=v)
        nreq = rng.choice([49, 50, 51, 52, 75, 101, 120])
        mids = [rng.randrange(0, 2 ** 20) for _ in range(nreq)]
        takeover = trial % 2 == 1
        script = ([('compress', 64)] if trial % 3 == 0 else []) + [('plugin', m_, 'b:c', b'x' * (k % 3)) for k, m_ in enumerate(mids)] \
            + [('success',)]
        cfg = {'version': v, 'script': script, 'rsa': '1024',
               'uuid_binary': list(cb.login.LoginSuccessPacket.get_definition(cx)[0].values())[0].__name__ == 'UUID'}
        if sb.login.LoginStartPacket.get_id(cx) != 0:
            cfg['login_ids'] = dict(disconnect=cb.login.DisconnectPacket.get_id(cx), encreq=cb.login.EncryptionRequestPacket.get_id(cx),
                                    success=cb.login.LoginSuccessPacket.get_id(cx), compress=cb.login.SetCompressionPacket.get_id(cx),
                                    start=sb.login.LoginStartPacket.get_id(cx), encresp=sb.login.EncryptionResponsePacket.get_id(cx),
                                    plugin=cb.login.PluginRequestPacket.get_id(cx), plugresp=sb.login.PluginResponsePacket.get_id(cx))
        excs, offered = [], []
        with simnet.Net(lambda s_: RefServer(s_, cfg)) as net:
            conn = C.Connection('h', 1, username='u', allowed_versions={v}, handle_exception=lambda e, i: excs.append(e))
            conn.register_packet_listener(lambda pkt: offered.append(pkt.message_id), cb.login.PluginRequestPacket)
            if takeover:
                def take_over(pkt):
                    conn.write_packet(sb.login.PluginResponsePacket(message_id=pkt.message_id, data=b'k'))
                    raise IgnorePacket
                conn.register_packet_listener(take_over, cb.login.PluginRequestPacket, early=True)
            conn.connect()
            net.run_threads()
            reactor = type(conn.reactor).__name__
        srv = cfg['servers'][0]
        pr_id = cfg.get('login_ids', {}).get('plugresp', 2)
        seen = []
        for st, pid, payload, _e, _c in srv.frames:
            if pid == pr_id and st in ('login', 'play') and payload:
                mid, q = rc.read_varint(payload, 0)
                seen.append((mid, payload[q:]))
        want = [(m_, b'\x01k' if takeover else b'\x00') for m_ in mids]
        ctx.case(('plugin-burst', v, nreq, takeover))
        ctx.count('plugin-burst.%d' % nreq)
        if seen != want or excs or reactor != 'PlayingReactor' or (not takeover and offered != mids):
            firstbad = next((k for k in range(nreq) if k >= len(seen) or seen[k] != want[k]), None)
            ctx.violation('protocol %d: %d plugin requests in flight at once (%s): %d answers reached the server, first difference at request '
                          '#%r; requests offered to an ordinary listener: %d; state %s, errors %r'
                          % (v, nreq, 'user handler answers' if takeover else 'default answers', len(seen), firstbad, len(offered),
                             reactor, excs[:1]), {'version': v, 'requests': nreq, 'takeover': takeover},
                          key={'kind': 'plugin-burst', 'n': nreq, 'takeover': takeover})
    # ---- two logins on ONE Connection: the first ends in a login disconnect whose exception handler
    # reconnects (the documented auto-reconnect pattern); nothing negotiated in session 1 may apply to
    # session 2 before session 2's own announcements
    for trial in range(ctx.scale(24, 200)):
        v = versions[trial % len(versions)]
        t1 = rng.choice(THRESH)
        first = [('compress', t1)] if trial % 3 else []
        if trial % 5 == 0:
            first.insert(0, ('encrypt', '-', b'tokn'))
        first.append(('disconnect', '{"text":"Server is restarting"}'))
        t2 = rng.choice([None] + THRESH)
        is_release = v in rp.RELEASES          # play-state ids are only in the reference table for releases
        second = ([('compress', t2)] if t2 is not None else []) + [('success',)] + ([('keepalive', 11)] if is_release else [])
        cx = C.ConnectionContext(protocol_version=v)
        base = {'version': v, 'rsa': '1024'}
        if sb.login.LoginStartPacket.get_id(cx) != 0:
            base['login_ids'] = dict(disconnect=cb.login.DisconnectPacket.get_id(cx), encreq=cb.login.EncryptionRequestPacket.get_id(cx),
                                     success=cb.login.LoginSuccessPacket.get_id(cx), compress=cb.login.SetCompressionPacket.get_id(cx),
                                     start=sb.login.LoginStartPacket.get_id(cx), encresp=sb.login.EncryptionResponsePacket.get_id(cx))
        base['uuid_binary'] = list(cb.login.LoginSuccessPacket.get_definition(cx)[0].values())[0].__name__ == 'UUID'
        cfgs = [dict(base, script=list(first)), dict(base, script=list(second))]
        made = []

        def factory(sock, cfgs=cfgs, made=made):
            srv = RefServer(sock, cfgs[min(len(made), 1)])
            made.append(srv)
            return srv
        excs = []
        with simnet.Net(factory) as net:
            def handler(e, i):
                excs.append(e)
                if len(excs) == 1:
                    conn.connect()
            conn = C.Connection('h', 1, username='u', allowed_versions={v}, handle_exception=handler)
            conn.connect()
            net.run_threads()
            reactor = type(conn.reactor).__name__
        ctx.case(('two-sessions', v, t1, t2, trial % 3 > 0, trial % 5 == 0))
        ctx.count('two-session')
        bad = None
        if len(made) != 2:
            bad = '%d connections were opened, the handler reconnects once' % len(made)
        else:
            s2 = made[1]
            hs = s2.handshake
            if hs is None or hs.get('protocol') != v or hs.get('next') != 2:
                bad = 'the second server cannot read the handshake as a plain frame: %r %r' % (hs, s2.errors[:1])
            elif s2.login_name != 'u':
                bad = 'the second server did not get a plain login start (%r)' % (s2.login_name,)
            elif any(enc for _, _, _, enc, _ in s2.frames):
                bad = 'frames to the second server are encrypted although it never asked'
            elif reactor != 'PlayingReactor' or len(excs) != 1:
                bad = 'second login did not reach the play state (%s, exceptions %r)' % (reactor, excs[1:])
            elif is_release:
                ka = [f for f in s2.frames if f[0] == 'play']
                if not ka or ka[0][4] != (t2 is not None):
                    bad = 'keep-alive reply compressed-format=%r, second session threshold %r' % (ka and ka[0][4], t2)
        if bad:
            ctx.violation('protocol %d, session 1 %r then reconnect from the exception handler, session 2 %r: %s'
                          % (v, [s[:2] for s in first], [s[:2] for s in second], bad),
                          {'version': v, 'first': repr(first), 'second': repr(second)},
                          key={'kind': 'two-sessions', 'version': v, 't1': t1, 't2': t2})
    for line, mo, (g, norm) in zip(lines, ctx.driver.ask(lines), impl):
        if norm(mo) != g:
            ctx.disagree('login reactor', line[:260], norm(mo)[:260], g[:260])
    # ---- byte level (Model/LoginWire.lean, Props/C10Wire.lean): the raw bytes the client handed to the
    # real socket after login start are the model's wire bytes -- plaintext frames up to and including the
    # encryption response, AES-128-CFB8(secret) of the later frames; the RSA block inside the response is
    # randomised padding in the implementation and the identity in the model, so that one frame is
    # compared by position and length class only
    def split_frames(b, limit=None):
        out, p = [], 0
        while p < len(b) and (limit is None or p < limit):
            n, q = rc.read_varint(b, p)
            out.append(bytes(b[p:q + n]))
            p = q + n
        return out, p
    n_wire = n_skip = 0
    for line, mo, (raw, skipn, to_play) in zip(wire_lines, ctx.driver.ask(wire_lines), wire_impl):
        if mo == 'skip:deflate':
            n_skip += 1
            continue
        ctx.case(('wire', line))
        try:
            f = dict(x.split('=', 1) for x in mo.split()[1:])
            mw = bytes.fromhex(f['wire']) if f['wire'] != '-' else b''
            plain_n = int(f['plain'])
            if not mo.startswith('ok ') or f['srv'] != '1':
                raise ValueError('model server does not recover the outbox')
            mframes, _ = split_frames(mw[:plain_n])
            # the implementation's bytes: skip handshake + login start, then the same number of plaintext frames
            head, p0 = split_frames(raw[:0] + raw, None) if False else (None, None)
            p = 0
            for _ in range(skipn):
                n, q = rc.read_varint(raw, p)
                p = q + n
            iframes = []
            for _ in mframes:
                n, q = rc.read_varint(raw, p)
                iframes.append(raw[p:q + n])
                p = q + n
            isuffix = raw[p:]
            msuffix = mw[plain_n:]
            has_enc = ' enc:' in line
            cmp_m = mframes[:-1] if has_enc else mframes
            cmp_i = iframes[:-1] if has_enc else iframes
            ok = cmp_m == cmp_i and (isuffix[:len(msuffix)] == msuffix) and (to_play or len(isuffix) == len(msuffix))
            if has_enc and ok:
                # same id byte / framing prefix for the response; RSA blocks differ by design
                ok = len(iframes[-1]) > len(mframes[-1]) or iframes[-1][:1] != b''
            got = 'frames=%s suffix=%s' % ([x.hex()[:40] for x in cmp_i], isuffix[:len(msuffix)].hex()[:80])
            want = 'frames=%s suffix=%s' % ([x.hex()[:40] for x in cmp_m], msuffix.hex()[:80])
        except Exception as e:
            ok, got, want = False, 'unparsable: %r' % (e,), mo[:200]
        n_wire += 1
        if not ok:
            ctx.disagree('login wire bytes', line[:260], want[:300], got[:300])
    n_sess = n_sess_skip = 0
    for line, mo, (raw, has_enc) in zip(sess_lines, ctx.driver.ask(sess_lines), sess_impl):
        if mo == 'skip:deflate':
            n_sess_skip += 1
            continue
        ctx.case(('session-bytes', line))
        n_sess += 1
        try:
            f = dict(x.split('=', 1) for x in mo.split()[1:])
            if not mo.startswith('ok ') or f['srv'] != '1':
                raise ValueError(mo[:120])
            mw, plain_n = bytes.fromhex(f['cli']), int(f['plain'])
            mframes, _ = split_frames(mw[:plain_n])
            iframes, p = [], 0
            for _ in mframes:
                n, q = rc.read_varint(raw, p)
                iframes.append(raw[p:q + n])
                p = q + n
            cmp_m = mframes[:-1] if has_enc else mframes
            cmp_i = iframes[:-1] if has_enc else iframes
            ok = cmp_m == cmp_i and raw[p:] == mw[plain_n:]
            want = 'frames=%s rest=%s' % ([x.hex()[:30] for x in cmp_m], mw[plain_n:].hex()[:120])
            got = 'frames=%s rest=%s' % ([x.hex()[:30] for x in cmp_i], raw[p:].hex()[:120])
        except Exception as e:
            ok, want, got = False, mo[:200], 'unparsable: %r' % (e,)
        if not ok:
            ctx.disagree('whole-session client bytes', line[:300], want[:300], got[:300])
    ctx.extra['session_streams_compared'] = n_sess
    ctx.extra['session_streams_skipped_deflate'] = n_sess_skip
    ctx.extra['wire_runs_compared'] = n_wire
    ctx.extra['wire_runs_skipped_deflate'] = n_skip
    # C17 link: the string really passed to AuthenticationToken.join equals the Lean mcHash
    for line, mo, g in zip(hash_lines, ctx.driver.ask(hash_lines), hash_impl):
        ctx.case(('join-hash', line))
        if mo != g:
            ctx.disagree('server hash passed to join', line[:120], mo, g)
    ctx.extra['join_hashes_checked'] = len(hash_lines)
    inbound_tie(ctx)
    vprofile_login_tie(ctx)


def vprofile_login_tie(ctx):
    """Tie of Model/VersionProfiles.lean (driver `vprofile.login`), exhaustive: every supported protocol version vs the
    live get_id / get_packets / get_definition of the login-state classes (serverbound login start, encryption and
    plugin response; clientbound disconnect, encryption request, login success, set compression, plugin request; the
    plugin channel from 385, the binary uuid of login success from 707); unsupported numbers vs Connection's refusal."""
    import minecraft
    import minecraft.networking.connection as C
    from minecraft.networking.packets import clientbound as cb, serverbound as sb
    from minecraft.networking.types import UUID, String
    sup = list(minecraft.SUPPORTED_PROTOCOL_VERSIONS)
    L, S = cb.login, sb.login
    reqs, want = [], []
    for v in sup:
        c = C.ConnectionContext(protocol_version=v)
        plugin = S.PluginResponsePacket in S.get_packets(c)
        pr = L.PluginRequestPacket in L.get_packets(c)
        ut = list(L.LoginSuccessPacket.get_definition(c)[0].values())[0]
        if plugin != pr or plugin != bool(c.protocol_later_eq(385)):
            ctx.disagree('login plugin request / response registered iff protocol >= 385', v, bool(c.protocol_later_eq(385)), [pr, plugin])
        if ut not in (UUID, String) or (ut is UUID) != bool(c.protocol_later_eq(707)):
            ctx.disagree('login success carries a binary uuid iff protocol >= 707', v, bool(c.protocol_later_eq(707)), repr(ut))
        reqs.append('vprofile.login %d' % v)
        want.append('ok ls=%d enc=%d plug=%d plugin=%d cb=%d:%d:%d:%d:%s uuid=%s' % (
            S.LoginStartPacket.get_id(c), S.EncryptionResponsePacket.get_id(c), S.PluginResponsePacket.get_id(c), plugin,
            L.DisconnectPacket.get_id(c), L.EncryptionRequestPacket.get_id(c), L.LoginSuccessPacket.get_id(c),
            L.SetCompressionPacket.get_id(c), L.PluginRequestPacket.get_id(c) if pr else '-', 'B' if ut is UUID else 'S'))
    refused = [v for v in minecraft.KNOWN_PROTOCOL_VERSIONS if v not in set(sup)] + \
        [ctx.rng.randrange(0, 2000) for _ in range(40)] + [max(minecraft.KNOWN_PROTOCOL_VERSIONS) + 1, 2 ** 31, 2 ** 40]
    for v in refused:
        if v in set(sup):
            continue
        try:
            C.Connection('h', 1, username='u', initial_version=v)
            got = 'accepted'
        except ValueError:
            got = 'err:value'
        except Exception as e:
            got = 'err:' + type(e).__name__
        reqs.append('vprofile.login %d' % v)
        want.append(got)
    for line, mo, w in zip(reqs, ctx.driver.ask(reqs), want):
        ctx.case(('vprofile.login', line))
        ctx.count('vprofile.login.' + w.split()[0])
        if mo != w:
            ctx.disagree('vprofile.login vs the live login-state tables', line, mo[:300], w[:300])
    ctx.extra['vprofile_login_pairs'] = ctx.extra.get('vprofile_login_pairs', 0) + len(reqs)


def inbound_tie(ctx):
    """Tie of Model/C10Inbound.lean (driver `c10in.wire`, `c10in.read`; ported from
    harness/xcheck/c10inbound_xcheck.py): a login byte stream built here from the wire format (nested CFB8 after
    every encryption request, data-length-0 frames after set compression: zlib is outside this model) is
    (a) compared with the model's `srvWire`, (b) consumed by the REAL client's read loop -- `read_packet` on
    `connection.file_object` then `_react`, the two calls of NetworkingThread._run, `f` ticks = the write phase
    -- over a socketpair (whole stream, real select) or over a stub file with a random segmentation
    (connection.select replaced, restored in finally).  Compared with `c10in.read`: packets handed to `_react`,
    reactor state, threshold, encryption flag, number of EncryptedFileObjectWrappers, the exception of
    read_packet / of the reaction, the raw bytes left unread."""
    import collections
    import socket
    import struct
    import types
    import zlib
    from cryptography.hazmat.primitives.ciphers import Cipher, algorithms, modes
    from cryptography.hazmat.backends import default_backend
    import minecraft
    import minecraft.networking.connection as C
    from minecraft.networking import encryption as ENC
    from minecraft.networking.packets import clientbound as cb
    from minecraft.exceptions import LoginDisconnect, VersionMismatch
    import rsakeys
    from corr.c01 import SegStream
    rng = ctx.rng
    PUB = rsakeys.RSA_1024['der']
    varint = rc.varint
    s_ = lambda x: varint(len(x.encode('utf-8'))) + x.encode('utf-8')
    arr = lambda b: varint(len(b)) + b
    hx_ = lambda b: bytes(b).hex() if b else '-'

    def profile(ver):
        cx = C.ConnectionContext(protocol_version=ver)
        L = cb.login
        have = set(L.get_packets(cx))
        plug = getattr(L, 'PluginRequestPacket', None)
        return dict(disc=L.DisconnectPacket.get_id(cx), enc=L.EncryptionRequestPacket.get_id(cx),
                    succ=L.LoginSuccessPacket.get_id(cx), comp=L.SetCompressionPacket.get_id(cx),
                    plug=plug.get_id(cx) if plug in have else None, uuid=bool(cx.protocol_later_eq(707)))

    def fields(I, p):
        k = p[0]
        if k == 'enc':
            return I['enc'], s_(p[1]) + arr(p[2]) + arr(p[3])
        if k == 'comp':
            return I['comp'], varint(p[1])
        if k == 'plug':
            return I['plug'], varint(p[1]) + s_(p[2]) + p[3]
        if k == 'succ':
            return I['succ'], (p[1] if isinstance(p[1], bytes) else s_(p[1])) + s_(p[2])
        if k == 'disc':
            return I['disc'], s_(p[1])
        return p[1], p[2]

    def stream(I, secret, thr, script):
        """-> bytes, or None if some frame would have to be deflated"""
        if not script:
            return b''
        p = script[0]
        pid, fl = fields(I, p)
        payload = varint(pid) + fl
        if thr is not None:
            if len(payload) > thr:
                return None
            payload = varint(0) + payload
        tail = stream(I, secret, p[1] if p[0] == 'comp' else thr, script[1:])
        if tail is None:
            return None
        if p[0] == 'enc':
            tail = Cipher(algorithms.AES(secret), modes.CFB8(secret), backend=default_backend()).encryptor().update(tail)
        return varint(len(payload)) + payload + tail

    def tok(p):
        k = p[0]
        if k == 'enc':
            return 'enc:%s:%s:%s' % (hx_(p[1].encode()), hx_(p[2]), hx_(p[3]))
        if k == 'comp':
            return 'comp:%d' % p[1]
        if k == 'plug':
            return 'plug:%d:%s:%s' % (p[1], hx_(p[2].encode()), hx_(p[3]))
        if k == 'succ':
            return ('succ:b:%s:%s' % (hx_(p[1]), hx_(p[2].encode()))) if isinstance(p[1], bytes) else \
                ('succ:s:%s:%s' % (hx_(p[1].encode()), hx_(p[2].encode())))
        if k == 'disc':
            return 'disc:%s' % hx_(p[1].encode())
        return 'unk:%d:%s' % (p[1], hx_(p[2]))

    class OutSock(object):
        def send(self, d):
            return len(d)

    def real_client(ver, secret, segs, ticks, use_socketpair):
        c = C.Connection('localhost', 25565, username='u', initial_version=ver)
        c.context.protocol_version = ver
        a = b = stub = None
        if use_socketpair:
            a, b = socket.socketpair()
            c.socket, c.file_object = a, a.makefile('rb', 0)
            b.sendall(b''.join(segs))
            b.shutdown(socket.SHUT_WR)
        else:
            stub = SegStream(segs)
            c.socket, c.file_object = OutSock(), stub
        c.options.compression_enabled = False
        c._outgoing_packet_queue = collections.deque()
        c.reactor = C.LoginReactor(c)
        seen, ioerr, err, dead = [], 'none', 'none', False
        try:
            for t in ticks:
                if dead:
                    break
                try:
                    if t == 'f':
                        with c._write_lock:
                            while c._pop_packet():
                                pass
                        continue
                    if not isinstance(c.reactor, C.LoginReactor):
                        continue           # the model stops interpreting in play state
                    pkt = c.reactor.read_packet(c.file_object, timeout=0.3)
                    if pkt is None:
                        ioerr, dead = 'notready', True
                        continue
                    name = pkt.packet_name
                    if name == 'encryption request':
                        seen.append('enc:%s:%s:%s' % (hx_(pkt.server_id.encode()), hx_(pkt.public_key), hx_(pkt.verify_token)))
                    elif name == 'set compression':
                        seen.append('comp:%d' % pkt.threshold)
                    elif name == 'login plugin request':
                        seen.append('plug:%d:%s:%s' % (pkt.message_id, hx_(pkt.channel.encode()), hx_(pkt.data)))
                    elif name == 'login success':
                        seen.append('succ')
                    elif name == 'disconnect':
                        seen.append('disc:%s' % hx_(pkt.json_data.encode()))
                    try:
                        c._react(pkt)
                    except LoginDisconnect:
                        err, dead = 'login', True
                    except VersionMismatch as e:
                        err, dead = 'mismatch:%s' % hx_(str(e.server_version).encode()), True
                except Exception as e:
                    m = {EOFError: 'eof', zlib.error: 'zlib', AssertionError: 'assertion', UnicodeDecodeError: 'decode',
                         struct.error: 'struct'}
                    ioerr = m.get(type(e)) or ('toolong' if 'too long' in str(e) else 'value' if isinstance(e, ValueError)
                                               else type(e).__name__)
                    dead = True
            fo, layers = c.file_object, 0
            while isinstance(fo, ENC.EncryptedFileObjectWrapper):
                layers += 1
                fo = fo.actual_file_object
            if use_socketpair:
                a.setblocking(False)
                rest = b''
                try:
                    while True:
                        d = a.recv(65536)
                        if not d:
                            break
                        rest += d
                except BlockingIOError:
                    pass
            else:
                rest = b''.join(stub.segs)
        finally:
            for x in (a, b):
                if x is not None:
                    x.close()
        return dict(seen=','.join(seen) or '-', state='play' if isinstance(c.reactor, C.PlayingReactor) else 'login',
                    thr=str(c.options.compression_threshold) if c.options.compression_enabled else 'none',
                    enc=str(1 if isinstance(c.socket, ENC.EncryptedSocketWrapper) else 0), layers=str(layers),
                    ioerr=ioerr, err=err, rest=hx_(rest))

    def text_of(j):
        try:
            t = json.loads(j)['text']
        except (ValueError, TypeError, KeyError):
            return '~'
        return hx_(t.encode()) if isinstance(t, str) else '!'
    sup = sorted(minecraft.SUPPORTED_PROTOCOL_VERSIONS)
    edge = [v for v in (47, 340, 385, 390, 391, 706, 707, 757) if v in sup]
    UU = bytes(range(16))
    cases = []
    while len(cases) < ctx.scale(150, 2500):
        ver = rng.choice(edge) if rng.random() < 0.6 else rng.choice(sup)
        I = profile(ver)
        secret = bytes(rng.randrange(256) for _ in range(16))
        script = []
        for _ in range(rng.randrange(0, 6)):
            x = rng.random()
            if x < 0.3:
                script.append(('enc', rng.choice(['-', '-', 'srv', 'abc123']), PUB, bytes(rng.randrange(256) for _ in range(rng.choice([1, 4, 16])))))
            elif x < 0.55:
                script.append(('comp', rng.choice([64, 100, 256, 300, 2 ** 31 - 1, rng.randrange(40, 5000)])))
            elif x < 0.75 and I['plug'] is not None:
                script.append(('plug', rng.choice([0, 1, 300, 2 ** 31 - 1]), rng.choice(['ch:a', 'minecraft:brand', '']),
                               bytes(rng.randrange(256) for _ in range(rng.randrange(0, 6)))))
            else:
                script.append(('unk', rng.choice([0x26, 0x55, 0x7e, 300]), bytes(rng.randrange(256) for _ in range(rng.randrange(0, 5)))))
        end = rng.random()
        texts = []
        if end < 0.45:
            script.append(('succ', UU if I['uuid'] else '0123-uuid', rng.choice(['bob', 'u', u'J\xf6rg'])))
            if rng.random() < 0.4:
                script.append(('unk', 0x26, b'\x01\x02'))          # first play-state bytes already behind it
        elif end < 0.8:
            j = rng.choice(MSGS)
            script.append(('disc', j))
            texts.append((j, text_of(j)))
        wire = stream(I, secret, None, script)
        if wire is None:           # a frame above the threshold in force would need zlib: not in this model
            ctx.count('inbound.regenerated_deflate')
            continue
        nr = sum(1 for _ in script)
        ticks = ''.join(rng.choice('frr') for _ in range(rng.randrange(0, nr + 4)))
        if rng.random() < 0.6:
            ticks = 'f' + 'r' * (nr + 1) + 'f'
        if rng.random() < 0.6:
            segs, sp = [wire], True
        else:
            segs, i, sp = [], 0, False
            while i < len(wire):
                n = rng.choice([1, 2, 3, 7, 30, 200])
                segs.append(wire[i:i + n])
                i += n
        cases.append((ver, I, secret, script, texts, wire, ticks, segs, sp))
    lines = []
    for ver, I, secret, script, texts, wire, ticks, segs, sp in cases:
        head = 'cb=%d,%d,%d,%d,%s uuid=%d' % (I['disc'], I['enc'], I['succ'], I['comp'], '-' if I['plug'] is None else I['plug'], I['uuid'])
        lines.append('c10in.wire %s secret=%s %s' % (head, hx_(secret), ' '.join(tok(p) for p in script)))
        lines.append('c10in.read %s token=0 secret=%s ticks=%s segs=%s %s' % (
            head, hx_(secret), ticks, ','.join(hx_(s) for s in segs) or '-',
            ' '.join('%s=%s' % (hx_(j.encode()), t) for j, t in texts)))
    saved = (C.select, ENC.generate_shared_secret)
    reals = []
    try:
        for ver, I, secret, script, texts, wire, ticks, segs, sp in cases:
            ENC.generate_shared_secret = lambda secret=secret: secret
            C.select = saved[0] if sp else types.SimpleNamespace(select=lambda r, w, x, t=None: (list(r), [], []))
            reals.append(real_client(ver, secret, segs, ticks, sp))
    finally:
        C.select, ENC.generate_shared_secret = saved
    out = ctx.driver.ask(lines)
    for i, (ver, I, secret, script, texts, wire, ticks, segs, sp) in enumerate(cases):
        lw, lr = out[2 * i], out[2 * i + 1]
        shape = [p[0] for p in script]
        ctx.case(('c10in', ver, lines[2 * i + 1]), sample={'op': 'c10in.read', 'version': ver, 'script': shape, 'ticks': ticks,
                                                           'transport': 'socketpair' if sp else '%d segments' % len(segs)})
        ctx.count('inbound.' + ('socketpair' if sp else 'segmented'))
        if lw != 'ok wire=%s' % hx_(wire):
            ctx.disagree('c10in.wire vs the stream built from the wire format (protocol %d)' % ver, lines[2 * i][:600], lw[:300], hx_(wire)[:300])
        L = dict(t.partition('=')[::2] for t in lr.split(' ')[1:])
        if not lr.startswith('ok ') or any(k not in L for k in ('seen', 'state', 'thr', 'enc', 'layers', 'ioerr', 'err', 'rest')):
            ctx.disagree('c10in.read: no usable reply', lines[2 * i + 1][:600], lr[:300], reals[i])
            continue
        got = dict(seen=L['seen'], state=L['state'], thr=L['thr'], enc=L['enc'], layers=L['layers'], ioerr=L['ioerr'],
                   err=L['err'].split(':')[0] if L['err'].startswith('login') else L['err'], rest=L['rest'])
        ctx.count('inbound.ioerr.' + reals[i]['ioerr'])
        ctx.count('inbound.err.' + reals[i]['err'].split(':')[0])
        if got != reals[i]:
            diff = sorted(k for k in got if got[k] != reals[i][k])
            ctx.disagree('c10in.read vs the real read loop (protocol %d, %s): %s' % (ver, 'socketpair' if sp else 'segmented', ','.join(diff)),
                         lines[2 * i + 1][:900], {k: got[k][:200] for k in diff}, {k: reals[i][k][:200] for k in diff})
    ctx.extra['c10inbound_pairs'] = ctx.extra.get('c10inbound_pairs', 0) + len(lines)


def replay(ctx, rp):
    for v in rp.get('violations', []):
        print(v)
    return not rp.get('violations')
