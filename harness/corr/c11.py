"""C11: play state — keep-alives and teleports always answered, unknown packets pass, server
disconnect is clean.  Sequential simnet, independent stand-in server."""
import io
import struct

import refcodec as rc
import refproto as rp
import simnet
from refserver import RefServer

EXTRA_PROPS = ['C11Wire', 'C11Errors', 'VersionProfiles']

EXTRACT = ['versions', 'ids', 'layouts', 'gen.c11errors', 'gen.versionprofiles']

RULE = ("server packet histories (length 1..400, crossing the 50-read/300-write batch limits) "
        "interleaving keep-alives (ids at every VarInt/Long boundary), position-and-look, unknown-id "
        "frames of arbitrary content and known-but-unhandled packets, optionally ending in a disconnect "
        "with the peer closing or staying open; every release protocol (independent id/layout table) and, "
        "in rotation, every other supported version (ids via pyCraft's own tables); compression on/off; "
        "distinct by (version, compression, history)")

KA_IDS = [0, 1, 127, 128, 255, 16383, 16384, 2 ** 21 - 1, 2 ** 21, 2 ** 28 - 1, 2 ** 28, 2 ** 31 - 1]
KA_LONG = [2 ** 31, 2 ** 32 - 1, 2 ** 35, 2 ** 62, 2 ** 63 - 1]
# VarInt ids with bit 31 set: what a Java server writes for a negative int (5 bytes)
KA_NEG32 = [2 ** 31, 2 ** 31 + 77, 2 ** 32 - 2, 2 ** 32 - 1]


def run(ctx):
    import minecraft
    import minecraft.networking.connection as C
    from minecraft.networking import packets as P
    from minecraft.networking.packets import clientbound as cb, serverbound as sb
    ctx.extra['rule'] = RULE
    rng = ctx.rng
    SUP = list(minecraft.SUPPORTED_PROTOCOL_VERSIONS)
    rank = minecraft.PROTOCOL_VERSION_INDICES
    others = [v for v in SUP if v not in rp.RELEASES and rank[v] >= rank[47]]
    nrot = ctx.scale(12, len(others))
    rot = [others[(ctx.seed * nrot + i) % len(others)] for i in range(nrot)] if others else []
    boundary = [v for v in (338, 339, 340, 706, 707, 717, 718, 106, 107) if v in others]
    versions = list(rp.RELEASES) + sorted(set(rot + boundary))
    lines, impl = [], []
    wlines, wimpl = [], []

    class Buf:
        def __init__(self):
            self.b = bytearray()

        def send(self, d):
            self.b += d

    def ids_for(v):
        """clientbound ids/encoders + serverbound ids for version v"""
        cx = C.ConnectionContext(protocol_version=v)
        if v in rp.RELEASES:
            ka_wide = rp.layout('keep_alive_cb', v)[0][1] == 'i64'
            return {
                'ka_cb': rp.packet_id('keep_alive_cb', v), 'ka_wide': ka_wide,
                'pl_cb': rp.packet_id('position_look_cb', v), 'pl_fields': len(rp.layout('position_look_cb', v)),
                'disc': rp.packet_id('disconnect_play', v), 'chat': rp.packet_id('chat_cb', v),
                'chat_uuid': len(rp.layout('chat_cb', v)) == 3,
                'ka_sb': rp.packet_id('keep_alive_sb', v), 'tc_sb': rp.packet_id('teleport_confirm', v),
                'pl_sb': rp.packet_id('position_look_sb', v), 'independent': True}
        pl_def = [n for f in cb.play.PlayerPositionAndLookPacket.get_definition(cx) for n in f]
        ka_def = cb.play.KeepAlivePacket.get_definition(cx)
        from minecraft.networking.types import Long
        return {
            # ids of snapshot versions come from pyCraft's own tables (no independent source offline); the
            # LAYOUT switch points that fall on snapshots are the documented ones (refproto.SNAPSHOT_SWITCH)
            'ka_cb': cb.play.KeepAlivePacket.get_id(cx),
            'ka_wide': rank[v] >= rank[rp.SNAPSHOT_SWITCH['keep_alive_long']],
            'pl_cb': cb.play.PlayerPositionAndLookPacket.get_id(cx), 'pl_fields': len(pl_def),
            'disc': cb.play.DisconnectPacket.get_id(cx), 'chat': cb.play.ChatMessagePacket.get_id(cx),
            'chat_uuid': rank[v] >= rank[rp.SNAPSHOT_SWITCH['chat_sender']],
            'ka_sb': sb.play.KeepAlivePacket.get_id(cx),
            'tc_sb': sb.play.TeleportConfirmPacket.get_id(cx) if rank[v] >= rank[107] else None,
            'pl_sb': sb.play.PositionAndLookPacket.get_id(cx), 'independent': False,
            'uuid_binary': rank[v] >= rank[rp.SNAPSHOT_SWITCH['login_uuid_binary']]}

    for vi, v in enumerate(versions):
        I = ids_for(v)
        cx = C.ConnectionContext(protocol_version=v)
        all_ids = [c.get_id(cx) for c in cb.play.get_packets(cx)]
        known_ids = set(all_ids)
        # on the few snapshot versions with an id collision (known finding of C06) a frame with a shared
        # id is decoded by whichever class the dict kept: keep such ids out of these histories
        shared = {i for i in all_ids if all_ids.count(i) > 1}
        chat_ok = I['chat'] not in shared
        unknown_ids = [i for i in (0x7E, 0x7F, 0x6F, 0xF0, 300, 2 ** 21) if i not in known_ids]
        newer = rank[v] >= rank[107]
        for rep in range(ctx.scale(4, 14)):
            n = rng.choice([1, 3, 10, 47, 48, 49, 50, 51, 60, 120, 320, 400]) if rep == 0 else rng.randrange(1, 130)
            comp = (vi + rep) % 2 == 1
            end = rng.choice(['none', 'disc-closed', 'disc-open'])
            if end == 'disc-closed' and n > 90:
                # a peer that has closed while more than TWO batches are still unread makes the client's own writes fail
                # and the error surface before it ever reads the disconnect packet: outside the property's clause.  With at
                # most two batches the write error of the second pass is still pending when the disconnect packet is read in
                # that pass, and is dropped ("may have been caused by trying to write to the closed socket")
                end = 'disc-open'
            evs, script = [], []
            for _ in range(n):
                r = rng.random()
                if r < 0.45:
                    kid = rng.choice(KA_IDS + (KA_LONG if I['ka_wide'] else KA_NEG32))
                    evs.append('ka:%d' % kid)
                    script.append(('raw', I['ka_cb'], rc.be(kid, 8) if I['ka_wide'] else rc.varint(kid)))
                elif r < 0.6:
                    x, y, z, yaw, pitch = (rng.randrange(-1000, 1000) for _ in range(5))
                    flags, tid = rng.randrange(32), rng.choice([0, 1, 127, 128, 99999])
                    body = struct.pack('>dddff', x, y, z, yaw, pitch) + bytes([flags])
                    if I['pl_fields'] >= 7:
                        body += rc.varint(tid)
                    if I['pl_fields'] >= 8:
                        body += b'\x00'
                    evs.append('pl:%d:%d:%d:%d:%d:%d:%d' % (x, y, z, yaw, pitch, flags, tid if I['pl_fields'] >= 7 else 0))
                    script.append(('raw', I['pl_cb'], body))
                elif r < 0.8 and unknown_ids:
                    pid = rng.choice(unknown_ids)
                    data = bytes(rng.randrange(256) for _ in range(rng.choice([0, 1, 5, 300, 64 - len(rc.varint(pid))])))
                    evs.append('un:%d:%s' % (pid, data.hex() or '-'))
                    script.append(('raw', pid, data))
                elif chat_ok:
                    body = rc.string('{"text":"hi"}') + b'\x01' + (bytes(16) if I['chat_uuid'] else b'')
                    evs.append('ot')
                    script.append(('raw', I['chat'], body))
                else:
                    kid = rng.choice(KA_IDS)
                    evs.append('ka:%d' % kid)
                    script.append(('raw', I['ka_cb'], rc.be(kid, 8) if I['ka_wide'] else rc.varint(kid)))
            if end != 'none':
                evs.append('disc')
                script.append(('raw', I['disc'], rc.string('{"text":"bye"}')))
                if end == 'disc-closed':
                    script.append(('close',))
            pre = ([('compress', 64)] if comp else []) + [('success',)]
            cfg = {'version': v, 'script': pre + script}
            if rng.random() < 0.4:      # the server's bytes arrive in small TCP segments
                if rng.random() < 0.5:
                    cfg['segment'] = rng.choice([1, 2, 3, 5, 7, 16])
                else:
                    import random
                    cfg['stream_rng'] = random.Random(rng.getrandbits(32))
                ctx.count('segmented')
            if 'uuid_binary' in I:
                cfg['uuid_binary'] = I['uuid_binary']
                # login-state ids of snapshots (the 1.13 snapshots 385..390 shift them): pyCraft's own tables
                cfg['login_ids'] = dict(success=cb.login.LoginSuccessPacket.get_id(cx),
                                        compress=cb.login.SetCompressionPacket.get_id(cx),
                                        start=sb.login.LoginStartPacket.get_id(cx))
            calls = []
            with simnet.Net(lambda s: RefServer(s, cfg)) as net:
                # a write to a peer that has closed fails with EPIPE or, when the peer's RST has arrived, ECONNRESET
                net.reset_by_peer = end == 'disc-closed' and rng.random() < 0.5
                if net.reset_by_peer:
                    ctx.count('end.disc-closed.econnreset')
                conn = C.Connection('h', 1, username='u', allowed_versions={v},
                                    handle_exception=lambda e, i: calls.append(('exc', repr(e))),
                                    handle_exit=lambda: calls.append(('exit',)))
                seen = []
                conn.register_packet_listener(lambda p: seen.append(p), P.Packet)
                conn.connect()
                net.run_threads()
                closed = net.sockets[0].closed_by_client
                spawned = getattr(conn, 'spawned', False)
                raw_sent = bytes(net.sockets[0].sent)
            srv = cfg['servers'][0]
            wire = []
            for st, pid, payload, _enc, _comp in srv.frames:
                if st != 'play':
                    continue
                if I['tc_sb'] is not None and pid == I['tc_sb']:
                    wire.append('tc:%d' % rc.read_varint(payload, 0)[0])
                elif pid == I['ka_sb']:
                    kid = int.from_bytes(payload, 'big') if I['ka_wide'] else rc.read_varint(payload, 0)[0]
                    wire.append('ka:%d' % kid)
                elif pid == I['pl_sb']:
                    x, y, z, yaw, pitch = struct.unpack('>dddff', payload[:32])
                    wire.append('pe:%d:%d:%d:%d:%d:%d' % (x, y, z, yaw, pitch, payload[32]))
                else:
                    wire.append('?%d' % pid)
            # ---- byte level (Model/PlayWire.lean, Props/C11Wire.lean)
            if end != 'disc-closed' and len(wlines) < ctx.scale(150, 1500):
                pev = []
                for (kind_, pid_, body_), e in zip([s_ for s_ in script if s_[0] == 'raw'], evs):
                    if e.startswith('ka:'):
                        pev.append(e)
                    elif e.startswith('pl:'):
                        f = [int(t) for t in e.split(':')[1:]]
                        pev.append('pos:%s:%s:%s:%s:%s:%d:%d' % (
                            struct.pack('>d', f[0]).hex(), struct.pack('>d', f[1]).hex(), struct.pack('>d', f[2]).hex(),
                            struct.pack('>f', f[3]).hex(), struct.pack('>f', f[4]).hex(), f[5], f[6]))
                    elif e == 'disc':
                        pev.append('disc:%s' % '{"text":"bye"}'.encode().hex())
                    else:        # unknown ids and packets without a reaction: opaque frames
                        pev.append('unk:%d:%s' % (pid_, body_.hex() or '-'))
                wlines.append('playwire.run %s thr=%s capw=300 capr=50 %s' % (
                    play_profile_tokens(ctx, v, I, newer), 64 if comp else 'none', ' '.join(pev)))
                srv_bytes = b''.join(rc.frame(rc.varint(pid_) + body_, 64 if comp else None)
                                     for kind_, pid_, body_ in [s_ for s_ in script if s_[0] == 'raw'])
                p_ = 0
                for _ in range(2):            # handshake and login start precede the play frames
                    n_, q_ = rc.read_varint(raw_sent, p_)
                    p_ = q_ + n_
                wimpl.append((srv_bytes, raw_sent[p_:]))
            pads = 3 + (1 if comp else 0)
            nplay = len([p for p in seen]) - (1 + (1 if comp else 0))
            got = 'ok wire=%s delivered=%d spawned=%d closed=%d exit=%d errors=%d' % (
                ','.join(wire) or '-', nplay + pads, bool(spawned), closed, calls.count(('exit',)),
                len([c for c in calls if c[0] == 'exc']))
            if not (end == 'disc-closed' and n > 40):
                # (the model's closed peer closes AT the disconnect packet; the stand-in server has closed before the client
                # writes anything of its second batch -- those histories are judged by the oracle below only)
                lines.append('play.run newer=%d capw=300 capr=50 peer=%d %s %s' % (
                    newer, 0 if end == 'disc-closed' else 1, ' '.join(['ot'] * pads), ' '.join(evs)))
                impl.append(got)
            else:
                ctx.count('end.disc-closed.two-batches')
            ctx.case((v, comp, tuple(evs)), sample={'version': v, 'compression': comp, 'events': len(evs),
                                                    'end': end, 'impl': got[:120]})
            ctx.count('v.%s' % ('release' if I['independent'] else 'snapshot'))
            ctx.count('end.' + end)
            ctx.count('len.%s' % ('>50' if n > 50 else '<=50'))
            # ------------------------------------------------------------ oracle
            exp = []
            for e in evs:
                if e.startswith('ka:'):
                    exp.append(e)
                elif e.startswith('pl:'):
                    f = e.split(':')
                    exp.append('tc:%s' % f[7] if newer else 'pe:%s:%s:%s:%s:%s:1' % tuple(f[1:6]))
            bad = None
            if end == 'disc-closed':
                if wire != exp[:len(wire)]:
                    bad = 'replies %r are not a prefix of the expected %r' % (wire[:6], exp[:6])
            elif wire != exp:
                bad = 'replies differ: got %d, expected %d (first diff %r)' % (
                    len(wire), len(exp), next(((a, b) for a, b in zip(wire + [None] * len(exp), exp) if a != b), None))
            if not bad and bool(spawned) != any(e.startswith('pl:') for e in evs):
                bad = 'spawned=%s' % spawned
            if not bad and nplay != len(evs):
                bad = 'listeners saw %d of %d packets' % (nplay, len(evs))
            if not bad:
                gens = [p for p in seen if type(p) is P.Packet]
                if len(gens) != sum(1 for e in evs if e.startswith('un:')):
                    bad = 'generic packets delivered: %d' % len(gens)
            if not bad and end != 'none':
                if not closed or calls.count(('exit',)) != 1 or any(c[0] == 'exc' for c in calls):
                    bad = 'server disconnect: closed=%s exit=%d errors=%r' % (
                        closed, calls.count(('exit',)), [c for c in calls if c[0] == 'exc'][:1])
            if not bad and end == 'none' and (closed or calls):
                bad = 'connection closed / callbacks without a disconnect: %r' % (calls[:2],)
            if bad:
                ctx.violation('protocol %d: %s' % (v, bad), {'version': v, 'compression': comp, 'end': end,
                                                            'events': evs[:30], 'n_events': len(evs)},
                              key={'version': v, 'comp': comp, 'events': evs[:50], 'end': end})
    # ---- a retry loop on ONE Connection: the first attempt fails (server not up yet: drops the socket, or refuses with a
    # login disconnect), the application connects again (from the exception handler, or later from its own thread); in
    # the second session the server's play-state disconnect must close the connection and run the exit callback once
    for trial in range(ctx.scale(16, 120)):
        v = rng.choice(list(rp.RELEASES))
        I = ids_for(v)
        first = [[('close',)], [('disconnect', '{"text":"starting"}')], [('compress', 64), ('close',)]][trial % 3]
        from_handler = trial // 3 % 2 == 0
        kas = [rng.choice(KA_IDS) for _ in range(rng.randrange(0, 4))]
        second = [('success',)] + [('raw', I['ka_cb'], rc.be(k, 8) if I['ka_wide'] else rc.varint(k)) for k in kas] \
            + [('raw', I['disc'], rc.string('{"text":"bye"}'))] + ([('close',)] if trial % 2 else [])
        cfgs = [{'version': v, 'script': first}, {'version': v, 'script': second}]
        made, calls = [], []

        def factory(sock, cfgs=cfgs, made=made):
            srv = RefServer(sock, cfgs[min(len(made), 1)])
            made.append(srv)
            return srv
        with simnet.Net(factory) as net:
            def on_exc(e, i):
                calls.append(('exc', type(e).__name__))
                if from_handler and len([c for c in calls if c[0] == 'exc']) == 1:
                    conn.connect()
            conn = C.Connection('h', 1, username='u', allowed_versions={v}, handle_exception=on_exc,
                                handle_exit=lambda: calls.append(('exit',)))
            conn.connect()
            net.run_threads()
            if not from_handler:
                conn.connect()
                net.run_threads()
            closed = len(net.sockets) == 2 and net.sockets[1].closed_by_client
        ka_sent = []
        if len(made) == 2:
            for st, pid, payload, _e, _c in made[1].frames:
                if st == 'play' and pid == I['ka_sb']:
                    ka_sent.append(int.from_bytes(payload, 'big') if I['ka_wide'] else rc.read_varint(payload, 0)[0])
        ctx.case(('retry-then-disconnect', v, trial % 3, from_handler, tuple(kas)))
        ctx.count('retry-then-disconnect')
        nexc = len([c for c in calls if c[0] == 'exc'])
        if len(made) != 2 or nexc != 1 or calls.count(('exit',)) != 1 or not closed or ka_sent != kas[:len(ka_sent)] \
                or (trial % 2 == 0 and ka_sent != kas):
            ctx.violation('protocol %d: first attempt fails (%s), the application connects again (%s); second session: %d keep-alives then a '
                          'play disconnect: connections=%d, errors reported=%d, exit callback ran %d time(s), closed=%s, keep-alive replies %r'
                          % (v, first[-1][0], 'from the exception handler' if from_handler else 'afterwards', len(kas), len(made), nexc,
                             calls.count(('exit',)), closed, ka_sent),
                          {'version': v, 'first': repr(first), 'from_handler': from_handler, 'calls': repr(calls)[:200]},
                          key={'kind': 'retry-then-disconnect', 'first': trial % 3, 'from_handler': from_handler})
    for line, mo, g in zip(lines, ctx.driver.ask(lines), impl):
        if mo != g:
            ctx.disagree('play loop', line[:300], mo[:300], g[:300])
    nw = nskip = 0
    for line, mo, (srv_b, cli_b) in zip(wlines, ctx.driver.ask(wlines), wimpl):
        if mo == 'skip:deflate':
            nskip += 1
            continue
        ctx.case(('playwire', line))
        f = dict(x.split('=', 1) for x in mo.split()[1:]) if mo.startswith('ok ') else {}
        want = 'srv=%s cli=%s' % (srv_b.hex() or '-', cli_b.hex() or '-')
        got_m = 'srv=%s cli=%s' % (f.get('srv'), f.get('cli'))
        nw += 1
        if got_m != want:
            k = next((i for i, (a, b) in enumerate(zip(got_m, want)) if a != b), min(len(got_m), len(want)))
            ctx.disagree('play-state bytes (server stream as framed by refcodec; raw bytes the client sent)', line[:300],
                         got_m[max(0, k - 40):k + 60], want[max(0, k - 40):k + 60])
    ctx.extra['play_wire_runs_compared'] = nw
    ctx.extra['play_wire_runs_skipped_deflate'] = nskip
    errors_tie(ctx)
    vprofile_play_tie(ctx)
    play47_tie(ctx)


def play47_tie(ctx):
    """Tie of the play-state Set Compression part of Model/PlayWire.lean (protocol <= 47): server streams with keep-alives,
    position packets, unknown frames and Set Compression packets in mid-stream against the real client; compared byte for
    byte: the server stream as framed by refcodec under the threshold in force, and the RAW bytes the client sent after
    login (each reply framed with the threshold in force when it was written)."""
    import minecraft.networking.connection as C
    from minecraft.networking.packets import clientbound as cb, serverbound as sb
    rng = ctx.rng
    V = 47
    cx = C.ConnectionContext(protocol_version=V)
    KA_CB, KA_SB = cb.play.KeepAlivePacket.get_id(cx), sb.play.KeepAlivePacket.get_id(cx)
    PL_CB, PL_SB = cb.play.PlayerPositionAndLookPacket.get_id(cx), sb.play.PositionAndLookPacket.get_id(cx)
    DISC, SETC = cb.play.DisconnectPacket.get_id(cx), cb.play.SetCompressionPacket.get_id(cx)
    lines, impl = [], []
    for case in range(ctx.scale(40, 400)):
        n = rng.choice([1, 2, 5, 20, 49, 50, 51, 52, 99, 100, 101, 120, 160])
        comp0 = rng.choice([None, None, 128])
        evs, script, srv = [], [], b''
        thr = comp0
        for i in range(n):
            r = rng.random()
            if r < 0.5:
                kid = rng.choice([0, 1, 127, 128, 300, 2 ** 31 - 1, 2 ** 32 - 2])
                evs.append('ka:%d' % kid)
                script.append(('raw', KA_CB, rc.varint(kid)))
                srv += rc.frame(rc.varint(KA_CB) + rc.varint(kid), thr)
            elif r < 0.7:
                x, y, z, yaw, pitch = (rng.randrange(-1000, 1000) for _ in range(5))
                fl = rng.randrange(32)
                body = struct.pack('>dddff', x, y, z, yaw, pitch) + bytes([fl])
                evs.append('pos:%s:%s:%s:%s:%s:%d:0' % (struct.pack('>d', x).hex(), struct.pack('>d', y).hex(), struct.pack('>d', z).hex(),
                                                      struct.pack('>f', yaw).hex(), struct.pack('>f', pitch).hex(), fl))
                script.append(('raw', PL_CB, body))
                srv += rc.frame(rc.varint(PL_CB) + body, thr)
            elif r < 0.85:
                data = bytes(rng.randrange(256) for _ in range(rng.choice([0, 1, 5, 40])))
                evs.append('unk:%d:%s' % (0x7E, data.hex() or '-'))
                script.append(('raw', 0x7E, data))
                srv += rc.frame(rc.varint(0x7E) + data, thr)
            else:
                t = rng.choice([64, 100, 256, 1000, 2 ** 31 - 1, 2 ** 32 - 1])
                evs.append('setc:%d' % t)
                script.append(('play_compress', t))
                srv += rc.frame(rc.varint(SETC) + rc.varint(t), thr)
                thr = t
        if rng.random() < 0.5:
            j = '{"text":"bye"}'
            evs.append('disc:%s' % j.encode().hex())
            script.append(('raw', DISC, rc.string(j)))
            srv += rc.frame(rc.varint(DISC) + rc.string(j), thr)
        pre = ([('compress', comp0)] if comp0 is not None else []) + [('success',)]
        cfg = {'version': V, 'script': pre + script, 'ignore_play_bytes': True}
        if rng.random() < 0.5:
            cfg['segment'] = rng.choice([1, 2, 3, 7, 16])
        calls = []
        with simnet.Net(lambda s: RefServer(s, cfg)) as net:
            conn = C.Connection('h', 1, username='u', allowed_versions={V},
                                handle_exception=lambda e, i: calls.append(('exc', repr(e))),
                                handle_exit=lambda: calls.append(('exit',)))
            conn.connect()
            net.run_threads()
            raw_sent = bytes(net.sockets[0].sent)
        p_ = 0
        for _ in range(2):
            n_, q_ = rc.read_varint(raw_sent, p_)
            p_ = q_ + n_
        lines.append('playwire.run ka=%d:%d:V pos=%d:%d:E:- disc=%d thr=%s capw=300 capr=50 setc=%d %s' % (
            KA_CB, KA_SB, PL_CB, PL_SB, DISC, 'none' if comp0 is None else comp0, SETC, ' '.join(evs)))
        impl.append((srv, raw_sent[p_:], calls))
    nw = nskip = nsc = nmixed = 0
    for line, mo, (srv_b, cli_b, calls) in zip(lines, ctx.driver.ask(lines), impl):
        if mo == 'skip:deflate':
            nskip += 1
            continue
        ctx.case(('playwire47', line), sample={'op': 'playwire.run (protocol 47, play-state set compression)', 'request': line[:140]}
                 if rng.random() < 0.05 else None)
        f = dict(x.split('=', 1) for x in mo.split()[1:]) if mo.startswith('ok ') else {}
        want = 'srv=%s cli=%s' % (srv_b.hex() or '-', cli_b.hex() or '-')
        got_m = 'srv=%s cli=%s' % (f.get('srv'), f.get('cli'))
        nw += 1
        nsc += 'setc:' in line
        nmixed += len(set(f.get('thrs', '-').split(','))) > 1
        if got_m != want or any(c[0] == 'exc' for c in calls):
            k = next((i for i, (a, b) in enumerate(zip(got_m, want)) if a != b), min(len(got_m), len(want)))
            ctx.disagree('play-state bytes at protocol 47 with Set Compression in mid-stream (client errors %r)' % (calls[:1],),
                         line[:300], got_m[max(0, k - 40):k + 60], want[max(0, k - 40):k + 60])
    ctx.extra['play47_wire_runs'] = {'compared': nw, 'with_set_compression': nsc, 'replies_under_more_than_one_threshold': nmixed,
                                     'skipped_deflate': nskip}


_VPROFILE = {}


def play_profile_tokens(ctx, v, I, newer):
    """the `ka=… pos=… disc=…` tokens of a `playwire.run` request.  Release versions: from the independent
    tables (refproto); snapshot versions: the first three tokens of the model's own `vprofile.play <v>` reply
    (Model/VersionProfiles.lean), so that the byte-level comparison of the real session also checks that profile."""
    own = 'ka=%d:%d:%s pos=%d:%d:%s:%s disc=%d' % (
        I['ka_cb'], I['ka_sb'], 'L' if I['ka_wide'] else 'V', I['pl_cb'],
        I['tc_sb'] if newer else I['pl_sb'], 'T' if newer else 'E', 'D' if I['pl_fields'] >= 8 else '-', I['disc'])
    if I.get('independent'):
        return own
    if v not in _VPROFILE:
        _VPROFILE[v] = ctx.driver.ask(['vprofile.play %d' % v])[0]
    toks = _VPROFILE[v].split()
    if len(toks) < 4 or toks[0] != 'ok' or not (toks[1].startswith('ka=') and toks[2].startswith('pos=') and toks[3].startswith('disc=')):
        ctx.disagree('vprofile.play gives no profile for a supported version', v, _VPROFILE[v], own)
        return own
    ctx.count('playwire.profile_from_vprofile')
    return ' '.join(toks[1:4])


def vprofile_play_tie(ctx):
    """Tie of Model/VersionProfiles.lean (driver `vprofile.play`), exhaustive: every supported protocol version vs
    the live get_id / get_definition of the play-state classes the reactor and the play loop depend on (keep alive
    both ways and its id width, position-and-look and its answer, disconnect, set compression, every other
    registered clientbound id in class-name order); every known-but-unsupported and some unknown numbers vs
    Connection's refusal (ValueError -> `err:value`)."""
    import minecraft
    import minecraft.networking.connection as C
    from minecraft.networking.packets import clientbound as cb, serverbound as sb
    from minecraft.networking.types import Long, VarInt
    sup = list(minecraft.SUPPORTED_PROTOCOL_VERSIONS)
    reqs, want = [], []
    for v in sup:
        c = C.ConnectionContext(protocol_version=v)
        ka_t = list(cb.play.KeepAlivePacket.get_definition(c)[0].values())[0]
        ka_t_sb = list(sb.play.KeepAlivePacket.get_definition(c)[0].values())[0]
        wide = ka_t is Long
        if ka_t not in (Long, VarInt) or ka_t_sb is not ka_t or wide != bool(c.protocol_later_eq(339)):
            ctx.disagree('keep-alive id type is not Long from 339 / VarInt before, both ways', v, None, [repr(ka_t), repr(ka_t_sb)])
        pd = [f for f in cb.play.PlayerPositionAndLookPacket.get_definition(c) if f]
        newer = bool(c.protocol_later_eq(107))
        if (len(pd) >= 8) != bool(c.protocol_later_eq(755)) or (len(pd) >= 7) != newer:
            ctx.disagree('position-and-look layout does not switch at 107 / 755', v, None, len(pd))
        sb_classes = set(sb.play.get_packets(c))
        tc_there = sb.play.TeleportConfirmPacket in sb_classes
        if tc_there != newer:
            ctx.disagree('TeleportConfirmPacket registered iff protocol >= 107', v, newer, tc_there)
        ack = sb.play.TeleportConfirmPacket.get_id(c) if newer else sb.play.PositionAndLookPacket.get_id(c)
        classes = sorted(cb.play.get_packets(c), key=lambda k: k.__name__)
        others = [k.get_id(c) for k in classes if k.packet_name not in ('keep alive', 'player position and look', 'disconnect')]
        sc = [k.get_id(c) for k in classes if k.packet_name == 'set compression']
        reqs.append('vprofile.play %d' % v)
        want.append('ok ka=%d:%d:%s pos=%d:%d:%s:%s disc=%d tc=%d echo=%d setcomp=%s others=%s' % (
            cb.play.KeepAlivePacket.get_id(c), sb.play.KeepAlivePacket.get_id(c), 'L' if wide else 'V',
            cb.play.PlayerPositionAndLookPacket.get_id(c), ack, 'T' if newer else 'E', 'D' if len(pd) >= 8 else '-',
            cb.play.DisconnectPacket.get_id(c), sb.play.TeleportConfirmPacket.get_id(c) if newer else 0,
            sb.play.PositionAndLookPacket.get_id(c), sc[0] if sc else '-', ','.join(map(str, others)) or '-'))
    refused = [v for v in minecraft.KNOWN_PROTOCOL_VERSIONS if v not in set(sup)] + \
        [ctx.rng.randrange(0, 2000) for _ in range(40)] + [max(minecraft.KNOWN_PROTOCOL_VERSIONS) + 1, 2 ** 31, 2 ** 40]
    for v in refused:
        if v in set(sup):
            continue
        try:
            C.Connection('h', 1, username='u', allowed_versions={v})
            got = 'accepted'
        except ValueError:
            got = 'err:value'
        except Exception as e:
            got = 'err:' + type(e).__name__
        reqs.append('vprofile.play %d' % v)
        want.append(got)
    for line, mo, w in zip(reqs, ctx.driver.ask(reqs), want):
        ctx.case(('vprofile.play', line))
        ctx.count('vprofile.play.' + w.split()[0])
        if mo != w:
            ctx.disagree('vprofile.play vs the live play-state tables', line, mo[:500], w[:500])
    ctx.extra['vprofile_play_pairs'] = ctx.extra.get('vprofile_play_pairs', 0) + len(reqs)


def errors_tie(ctx):
    """Tie of Model/C11Errors.lean (driver `playerr.run`): the real NetworkingThread.run on a play-state inbox
    with failing `_write_packet` calls (harness/gen/c11errors.py `observe`, `driver_reply`): which replies reach
    the wire / are lost / stay queued, deliveries, spawned, closed, exit and error callbacks.  Caps other than
    300/50 run an in-memory copy of `_run` with other literals (gen.c11errors._run_with_caps)."""
    import minecraft
    from gen import c11errors as G
    rng = ctx.rng
    sup = sorted(minecraft.SUPPORTED_PROTOCOL_VERSIONS)
    old = [v for v in sup if v < 107]
    reqs, want, meta = [], [], []

    def rnd_ev():
        x = rng.random()
        if x < 0.55:
            return ('ka', rng.choice([0, 1, 7, 2 ** 31, rng.randrange(2 ** 40)]))
        if x < 0.75:
            return ('pl', rng.randrange(-300, 300), rng.randrange(-64, 320), rng.randrange(-300, 300),
                    rng.randrange(-180, 180), rng.randrange(-90, 90), rng.randrange(32), rng.randrange(1000))
        if x < 0.85:
            return ('un', rng.choice([0x7e, 0x7f, 300]), [])
        if x < 0.93:
            return ('ot', 'chat message')
        return ('disc',)

    for i in range(ctx.scale(300, 4000)):
        v = rng.choice(old) if (old and rng.random() < 0.4) else rng.choice(sup)
        shape = rng.random()
        if shape < 0.5:              # short sessions, often with small caps
            evs = [rnd_ev() for _ in range(rng.randrange(0, 12))]
            caps = rng.choice([None, None, (1, 1), (2, 3), (3, 2), (1, 50), (300, 1), (4, 4), (2, 5)])
        else:                        # sessions long enough to hit the real caps (50 reads, then the write phase)
            n = rng.choice([49, 50, 51, 99, 100, 101, rng.randrange(30, 160)])
            evs = [('ka', k) if rng.random() < 0.85 else rnd_ev() for k in range(n)]
            caps = None if rng.random() < 0.8 else rng.choice([(5, 7), (10, 10), (7, 5)])
        if rng.random() < 0.5 and not any(e[0] == 'disc' for e in evs):
            evs.insert(rng.randrange(len(evs) + 1) if rng.random() < 0.5 else len(evs), ('disc',))
        nrep = sum(1 for e in evs if e[0] in ('ka', 'pl'))
        f = rng.random()
        if f < 0.25:
            fail_tok, fail_from, fails = 'none', None, None
        elif f < 0.6:
            k = rng.choice([0, 1, 2, 3, rng.randrange(0, nrep + 2)])
            fail_tok, fail_from, fails = 'from:%d' % k, k, None
        else:
            ks = sorted(set(rng.randrange(0, nrep + 2) for _ in range(rng.randrange(1, 4))))
            fail_tok, fail_from, fails = 'at:' + ','.join(map(str, ks)), None, (lambda k, ks=frozenset(ks): k in ks)
        newer, res = G.observe(v, fail_from, evs, fails=fails, caps=caps)
        capw, capr = caps or (300, 50)
        toks = []
        for e in evs:
            if e[0] == 'ka':
                toks.append('ka:%d' % e[1])
            elif e[0] == 'pl':
                toks.append('pl:' + ':'.join(str(x) for x in e[1:]))
            elif e[0] == 'un':
                toks.append('un:%d:-' % e[1])
            else:
                toks.append(e[0])
        reqs.append('playerr.run newer=%d capw=%d capr=%d fail=%s %s' % (newer, capw, capr, fail_tok, ' '.join(toks)))
        want.append(G.driver_reply(res))
        meta.append((v, len(evs)))
    for line, mo, w, (v, n) in zip(reqs, ctx.driver.ask(reqs), want, meta):
        ctx.case(('playerr.run', v, line), sample={'op': 'playerr.run', 'version': v, 'events': n, 'impl': w[:160]})
        ctx.count('playerr.%s' % line.split()[4].split('=')[1].split(':')[0])
        ctx.count('playerr.errors=%s' % w.rsplit('errors=', 1)[1])
        if mo != w:
            ctx.disagree('playerr.run vs the real networking thread (protocol %d)' % v, line[:1200], mo[:500], w[:500])
    ctx.extra['c11errors_pairs'] = ctx.extra.get('c11errors_pairs', 0) + len(reqs)


def replay(ctx, rp_):
    for v in rp_.get('violations', []):
        print(v)
    return not rp_.get('violations')
