"""C20: tracker objects replay packet histories; helper value types obey their laws."""
import itertools
from fractions import Fraction

import extract
from lib import hx

EXTRACT = ['enums', 'gen.c20maps', 'gen.c20live']
EXTRA_PROPS = ['C20Maps', 'C20Live']

RULE = ("player-list histories (length <= 200 actions) over a pool of 5 uuids, every action kind; map "
        "patches on small and 128x128 maps incl. the no-pixel packet; position packets for all 32 flag "
        "combinations on dyadic values (float arithmetic exact); every flag enum found in the library "
        "plus generated enums x values 0..255; record/vector/alias laws on boundary and random values; "
        "distinct by input")


def h(s):
    if s is None:
        return '~'
    return s.encode('utf-8').hex() or '-'


def frac(f):
    fr = Fraction(f)
    return str(fr.numerator) if fr.denominator == 1 else '%d/%d' % (fr.numerator, fr.denominator)


def run(ctx):
    from minecraft.networking.packets import clientbound
    from minecraft.networking import types as T
    from minecraft.networking.types import utility as U
    import minecraft.utility as MU
    ctx.extra['rule'] = RULE
    rng = ctx.rng
    PLI = clientbound.play.PlayerListItemPacket
    # ------------------------------------------------------------------ player list histories
    lines, impl = [], []
    names = ['al', 'bob', '', 'Zoë']
    for hi in range(ctx.scale(120, 1500)):
        pl = PLI.PlayerList()
        toks = []
        ref = {}     # independent replay: plain dict semantics
        for _ in range(rng.randrange(1, 9)):
            acts = []
            kind = rng.randrange(5)
            for _ in range(rng.randrange(0, 6) if hi % 7 else rng.randrange(20, 40)):
                u = rng.randrange(1, 6)
                if kind == 0:
                    a = PLI.AddPlayerAction()
                    a.uuid, a.name = u, rng.choice(names)
                    a.properties = [('textures', 'v%d' % rng.randrange(1000))] * rng.randrange(0, 3)
                    a.gamemode, a.ping = rng.randrange(4), rng.randrange(500)
                    a.display_name = rng.choice([None, 'dn', ''])
                    toks.append('add:%d:%s:%d:%d:%s' % (u, h(a.name), a.gamemode, a.ping, h(a.display_name)))
                    ref[u] = [a.name, a.gamemode, a.ping, a.display_name, list(a.properties)]
                elif kind == 1:
                    a = PLI.UpdateGameModeAction()
                    a.uuid, a.gamemode = u, rng.randrange(4)
                    toks.append('gm:%d:%d' % (u, a.gamemode))
                    if u in ref:
                        ref[u][1] = a.gamemode
                elif kind == 2:
                    a = PLI.UpdateLatencyAction()
                    a.uuid, a.ping = u, rng.randrange(500)
                    toks.append('lat:%d:%d' % (u, a.ping))
                    if u in ref:
                        ref[u][2] = a.ping
                elif kind == 3:
                    a = PLI.UpdateDisplayNameAction()
                    a.uuid, a.display_name = u, rng.choice([None, 'x', 'dn2'])
                    toks.append('dn:%d:%s' % (u, h(a.display_name)))
                    if u in ref:
                        ref[u][3] = a.display_name
                else:
                    a = PLI.RemovePlayerAction()
                    a.uuid = u
                    toks.append('rm:%d' % u)
                    ref.pop(u, None)
                acts.append(a)
                ctx.count('plist.' + toks[-1].split(':')[0])
            p = PLI()
            p.actions = acts
            p.action_type = type(acts[0]) if acts else PLI.AddPlayerAction
            p.apply(pl)
            toks.append('|')
        got = 'ok ' + ' '.join('%d:%s:%d:%d:%s' % (u, h(v.name), v.gamemode, v.ping, h(v.display_name))
                               for u, v in pl.players_by_uuid.items())
        lines.append('plist ' + ' '.join(toks))
        impl.append(got.rstrip())
        want = 'ok ' + ' '.join('%d:%s:%d:%d:%s' % (u, h(v[0]), v[1], v[2], h(v[3])) for u, v in ref.items())
        ctx.case(('plist', lines[-1]), sample={'history': lines[-1][:160], 'impl': got[:120]})
        props_ok = all(list(pl.players_by_uuid[u].properties) == ref[u][4] for u in ref if u in pl.players_by_uuid)
        if got.rstrip() != want.rstrip() or not props_ok:
            ctx.violation('player list after the history differs from an in-order replay' + ('' if props_ok else ' (properties)'),
                          {'history': lines[-1], 'impl': got, 'replay': want}, key={'plist': lines[-1]})
    for line, mo, g in zip(lines, ctx.driver.ask(lines), impl):
        if mo.rstrip() != g:
            ctx.disagree('PlayerListItemPacket.apply', line[:300], mo[:300], g[:300])
    # ------------------------------------------------------------------ map patches
    MP = clientbound.play.MapPacket
    lines, impl = [], []
    for mi in range(ctx.scale(150, 2000)):
        W, H = rng.choice([(4, 3), (8, 8), (128, 128), (5, 1)]) if mi % 11 else (128, 128)
        m = MP.Map(1, width=W, height=H)
        base = bytes(rng.randrange(256) for _ in range(W * H))
        m.pixels[:] = base
        cap = 6 if W * H > 100 else W     # the Lean list model is quadratic: small patches on big maps
        width = rng.randrange(0, min(W, cap) + 1)
        height = rng.randrange(1, min(H, cap) + 1) if width else 0
        ox = rng.randrange(0, W - width + 1)
        oy = rng.randrange(0, H - height + 1)
        px = bytes(rng.randrange(1, 256) for _ in range(width * height))
        p = MP()
        p.map_id, p.scale, p.icons = 1, 2, []
        p.is_tracking_position, p.is_locked = True, False
        p.width, p.height = width, height
        p.offset = (ox, oy) if width else None
        p.pixels = px if width else None
        try:
            p.apply_to_map(m)
            got = 'ok ' + hx(bytes(m.pixels))
        except Exception as e:
            got = 'err:' + type(e).__name__
        lines.append('mappatch %d %d %d %d %d %d %s %s' % (W, H, width, height, ox, oy,
                                                         hx(px) if width else '~', hx(base)))
        impl.append(got)
        want = bytearray(base)
        for i, b in enumerate(px):
            want[(ox + i % width) + W * (oy + i // width)] = b
        ctx.case(('map', lines[-1]), sample={'map': (W, H), 'patch': (width, height, ox, oy)})
        ctx.count('map.%dx%d' % (W, H))
        if got != 'ok ' + hx(bytes(want)):
            ctx.violation('map pixels do not land at offset + (i mod width, i div width)',
                          {'W': W, 'H': H, 'width': width, 'height': height, 'offset': (ox, oy)},
                          key={'map': lines[-1][:200]})
    for line, mo, g in zip(lines, ctx.driver.ask(lines), impl):
        if mo != g:
            ctx.disagree('MapPacket.apply_to_map', line[:200], mo[:200], g[:200])
    # map set: unknown id creates a map, known id patches in place
    ms = MP.MapSet()
    for mid in (3, 3, 9):
        p = MP()
        p.map_id, p.scale, p.icons, p.is_tracking_position, p.is_locked = mid, 0, [], False, True
        p.width, p.height, p.offset, p.pixels = 1, 1, (2, 1), bytes([mid])
        p.apply_to_map_set(ms)
    ctx.case(('mapset',))
    if sorted(ms.maps_by_id) != [3, 9] or ms.maps_by_id[3].pixels[2 + 128] != 3 or not ms.maps_by_id[9].is_locked:
        ctx.violation('map set replay', {'ids': sorted(ms.maps_by_id)}, key={'kind': 'mapset'})
    # map histories: several packets for a few map ids with changing lock / tracking flags; the tracked
    # state must equal an in-order replay written independently here
    for hi in range(ctx.scale(60, 600)):
        ms = MP.MapSet()
        ref = {}
        hist = []
        for _ in range(rng.randrange(2, 9)):
            mid = rng.choice([1, 2, 7])
            width = rng.choice([0, 1, 2, 3])
            height = rng.randrange(1, 4) if width else 0
            ox, oy = rng.randrange(0, 120), rng.randrange(0, 120)
            px = bytes(rng.randrange(1, 256) for _ in range(width * height))
            locked, tracking, scale = rng.random() < 0.5, rng.random() < 0.5, rng.randrange(0, 5)
            p = MP()
            icons = [(rng.randrange(0, 30), rng.randrange(0, 16), (rng.randrange(-128, 128), rng.randrange(-128, 128)),
                      rng.choice([None, 'a', 'Home'])) for _ in range(rng.choice([0, 0, 1, 2, 3]))]
            p.map_id, p.scale, p.icons = mid, scale, [MP.MapIcon(*ic) for ic in icons]
            p.is_tracking_position, p.is_locked = tracking, locked
            p.width, p.height = width, height
            p.offset = (ox, oy) if width else None
            p.pixels = px if width else None
            hist.append((mid, width, height, ox, oy, locked, tracking, scale, len(icons)))
            try:
                p.apply_to_map_set(ms)
            except Exception as e:
                ctx.violation('map history: apply_to_map_set raised %r' % (e,), {'history': hist}, key={'maphist': hist})
                break
            st = ref.setdefault(mid, {'px': bytearray(128 * 128)})
            for i, b in enumerate(px):
                st['px'][(ox + i % width) + 128 * (oy + i // width)] = b
            st.update(locked=locked, tracking=tracking, scale=scale, icons=icons)
            # the icons of EVERY tracked map after every packet (a packet for one map leaves the others alone)
            absent = [m_ for m_ in ref if m_ not in ms.maps_by_id]
            if absent:
                ctx.violation('after packet #%d (for map %d, %dx%d pixels) of a map history, map(s) %r are not in the map set although a '
                              'packet for them has been applied' % (len(hist), mid, width, height, absent),
                              {'history': hist}, key={'maphist-absent': hist})
                break
            wrong = [m_ for m_, st_ in ref.items()
                     if [(ic.type, ic.direction, tuple(ic.location), ic.display_name) for ic in ms.maps_by_id[m_].icons] != st_['icons']
                     or (ms.maps_by_id[m_].is_locked, ms.maps_by_id[m_].is_tracking_position, ms.maps_by_id[m_].scale)
                     != (st_['locked'], st_['tracking'], st_['scale'])]
            if wrong:
                ctx.violation('after packet #%d (for map %d) of a map history, the icons / flags / scale of map(s) %r differ from an in-order '
                              'replay (map %d shows %d icons, replay has %d)' % (len(hist), mid, wrong, wrong[0],
                                                                                len(ms.maps_by_id[wrong[0]].icons), len(ref[wrong[0]]['icons'])),
                              {'history': hist}, key={'maphist-icons': hist})
                break
        ctx.case(('maphist', tuple(hist)))
        for mid, st in ref.items():
            m = ms.maps_by_id.get(mid)
            if m is None or bytes(m.pixels) != bytes(st['px']) or (m.is_locked, m.is_tracking_position, m.scale) != \
                    (st['locked'], st['tracking'], st['scale']):
                ctx.violation('map %d after a %d-packet history differs from an in-order replay (pixels equal: %s)'
                              % (mid, len(hist), m is not None and bytes(m.pixels) == bytes(st['px'])),
                              {'history': hist}, key={'maphist': hist})
                break
    # ------------------------------------------------------------------ position and look
    PPL = clientbound.play.PlayerPositionAndLookPacket
    lines, impl = [], []
    vals = [0.0, 1.0, -1.0, 0.5, 359.5, 360.0, 720.25, -0.25, -360.0, 1e6 + 0.5, -1234.75, 90.0]
    for flags in range(32):
        for _ in range(ctx.scale(6, 60)):
            pk = [rng.choice(vals) for _ in range(5)]
            cur = [rng.choice(vals) for _ in range(5)]
            p = PPL()
            p.x, p.y, p.z, p.yaw, p.pitch = pk
            p.flags = flags
            t = T.PositionAndLook(x=cur[0], y=cur[1], z=cur[2], yaw=cur[3], pitch=cur[4])
            p.apply(t)
            got = 'ok %s %s %s %s %s' % tuple(frac(v) for v in (t.x, t.y, t.z, t.yaw, t.pitch))
            lines.append('poslook %d %s %s' % (flags, ' '.join(frac(v) for v in pk),
                                              ' '.join(frac(v) for v in cur)))
            impl.append(got)
            ctx.case(('pos', lines[-1]), sample={'flags': flags, 'packet': pk, 'current': cur, 'impl': got})
            exp = []
            for i in range(5):
                v = Fraction(pk[i]) + (Fraction(cur[i]) if flags >> i & 1 else 0)
                if i >= 3:
                    v = v % 360
                exp.append(v)
            if [Fraction(v) for v in (t.x, t.y, t.z, t.yaw, t.pitch)] != exp or not (0 <= t.yaw < 360 and 0 <= t.pitch < 360):
                ctx.violation('position update: relative flags add / angles wrap to [0,360)',
                              {'flags': flags, 'packet': pk, 'current': cur, 'impl': got},
                              key={'pos': lines[-1]})
    for line, mo, g in zip(lines, ctx.driver.ask(lines), impl):
        if mo != g:
            ctx.disagree('PlayerPositionAndLookPacket.apply', line, mo, g)
    # ------------------------------------------------------------------ flag enums
    enums = extract.flag_enums()

    def gen_enum(k):
        n = rng.randrange(1, 7)
        mem = {}
        for i in range(n):
            mem['F%d' % i] = rng.choice([0, 1, 2, 4, 8, 16, 32, 64, 128, 3, 5, 6, 127, 255, rng.randrange(256)])
        if rng.random() < 0.3:
            mem['lower'] = 1
        return type('Gen%d' % k, (T.BitFieldEnum,), mem)
    live = [(q, None) for q, _ in enums]
    import importlib
    classes = []
    for q, mem in enums:
        parts = q.split('.')
        for cut in range(len(parts) - 1, 0, -1):
            try:
                obj = importlib.import_module('.'.join(parts[:cut]))
            except ImportError:
                continue
            for a in parts[cut:]:
                obj = getattr(obj, a)
            classes.append((q, obj, mem))
            break
    for k in range(ctx.scale(25, 300)):
        c = gen_enum(k)
        classes.append((c.__name__, c, [(n, v) for n, v in c.__dict__.items() if isinstance(v, int) and not n.startswith('__')]))
    lines, impl = [], []
    for q, cls, mem in classes:
        mtok = ','.join('%s:%d' % (n, v) for n, v in mem if v >= 0) or '-'
        byname = {n: v for n, v in mem}
        for v in range(256):
            name = cls.name_from_value(v)
            lines.append('bitname %s %d' % (mtok, v))
            impl.append('ok ' + ('~' if name is None else name))
            ctx.case(('enum', q, tuple(mem), v), sample={'enum': q, 'value': v, 'name': name})
            if name is not None:
                acc = 0
                bad = False
                if name != '0':
                    for part in name.split('|'):
                        if part not in byname:
                            bad = True
                        else:
                            acc |= byname[part]
                if bad or acc != v:
                    ctx.violation('printed flag name %r of value %d does not parse back' % (name, v),
                                  {'enum': q, 'members': mem, 'value': v, 'name': name},
                                  key={'enum': q, 'value': v})
    for line, mo, g in zip(lines, ctx.driver.ask(lines), impl):
        if mo != g:
            ctx.disagree('BitFieldEnum.name_from_value', line, mo, g)
    ctx.extra['flag_enums_in_library'] = [q for q, _ in enums]
    # plain Enum
    for cls in (T.Difficulty, T.Dimension, T.GameMode, T.AbsoluteHand, T.BlockFace):
        mem = [(n, v) for n, v in cls.__dict__.items() if isinstance(v, int) and not n.startswith('__')]
        ls = ['enumname %s %d' % (','.join('%s:%d' % m for m in mem) or '-', v) for v in range(-2, 12)]
        for v, mo in zip(range(-2, 12), ctx.driver.ask(ls)):
            got = T.Enum.name_from_value.__func__(cls, v)
            ctx.case(('penum', cls.__name__, v))
            if mo != 'ok ' + ('~' if got is None else got):
                ctx.disagree('Enum.name_from_value', [cls.__name__, v], mo, got)
    # ------------------------------------------------------------------ records, vectors, aliases
    R = PLI.PlayerListItem
    vs = [0, 1, -1, 'a', None, (1, 2), 2.5]
    for a, b in itertools.product(itertools.product(vs[:4], repeat=2), repeat=2):
        r1 = R(uuid=a[0], name=a[1], properties=0, gamemode=0, ping=0, display_name=None)
        r2 = R(uuid=b[0], name=b[1], properties=0, gamemode=0, ping=0, display_name=None)
        ctx.case(('rec', a, b))
        eq = r1 == r2
        if eq != (a == b) or (r1 != r2) == eq or (eq and hash(r1) != hash(r2)):
            ctx.violation('record equality/hash law', {'a': a, 'b': b, 'eq': eq}, key={'rec': [a, b]})
    # partially assigned records (slots never set): whatever == answers, "equal" must imply equal hashes and
    # field-wise equality, and == must be symmetric; raising (the library's present behaviour) is fine
    PAL = U.PositionAndLook
    fields_ = ['x', 'y', 'z', 'yaw', 'pitch']
    partial = []
    for mask in range(32):
        for val in (1.0, 90.0):
            partial.append(PAL(**{f: val for i, f in enumerate(fields_) if mask >> i & 1}))
    ctx.case(('partial-records', len(partial)))
    for a_ in partial:
        for b_ in partial:
            try:
                eq = a_ == b_
            except AttributeError:
                continue
            try:
                eq_rev = b_ == a_
            except AttributeError:
                eq_rev = None
            fa = {f: getattr(a_, f, '<unset>') for f in fields_}
            fb = {f: getattr(b_, f, '<unset>') for f in fields_}
            if eq and (fa != fb or hash(a_) != hash(b_)) or (eq_rev is not None and eq_rev != eq):
                ctx.violation('records %r and %r: == gives %s / %s reversed, hashes %s, fields %s'
                              % (fa, fb, eq, eq_rev, 'equal' if hash(a_) == hash(b_) else 'differ', 'equal' if fa == fb else 'differ'),
                              {'a': repr(fa), 'b': repr(fb)}, key={'kind': 'partial-records'})
                break
        else:
            continue
        break
    # every record class of the library (base classes first, then the classes derived from them) and a
    # user-defined pair: equality/hash/repr cover ALL slots of the class, inherited and own
    class UBase(U.MutableRecord):
        __slots__ = 'a', 'b'

    class UDerived(UBase):
        __slots__ = 'c',

    class UDerived2(UDerived):
        __slots__ = 'd', 'e'

    def walk(c):
        yield c
        for sc in c.__subclasses__():
            for x in walk(sc):
                yield x
    rec_classes = []
    for c in walk(U.MutableRecord):
        if c is not U.MutableRecord and c not in rec_classes:
            rec_classes.append(c)
    ctx.extra['record_classes'] = len(rec_classes)
    built = []
    for c in rec_classes:
        slots = []
        for k in reversed(c.__mro__):
            sl = k.__dict__.get('__slots__', ())
            slots += [sl] if isinstance(sl, str) else list(sl)
        import inspect
        if inspect.isabstract(c) or not slots:
            continue

        def mk(vals, c=c, slots=slots):        # set every slot directly (some classes have their own __init__)
            r = object.__new__(c)
            for n, x in zip(slots, vals):
                setattr(r, n, x)
            return r
        base_vals = [10 + i for i in range(len(slots))]
        try:
            r0, r0b = mk(base_vals), mk(base_vals)
        except Exception as e:
            ctx.violation('record %s cannot be built from its slots %r: %r' % (c.__name__, slots, e), {'class': c.__name__},
                          key={'recclass': c.__name__, 'kind': 'build'})
            continue
        ctx.case(('recclass', c.__name__))
        bad = None
        if not (r0 == r0b) or (r0 != r0b) or hash(r0) != hash(r0b):
            bad = 'two records with the same slot values are not equal / hash differently'
        for i, sname in enumerate(slots):
            vals = list(base_vals)
            vals[i] = 'changed'
            r1 = mk(vals)
            if r0 == r1 or not (r0 != r1):
                bad = 'records differing in slot %r compare equal' % sname
            if '%s=%r' % (sname, base_vals[i]) not in repr(r0) and '%s=%r' % (sname, base_vals[i]) not in str(r0):
                bad = 'repr %r does not show slot %s' % (repr(r0)[:120], sname)
            if getattr(r1, sname) != 'changed':
                bad = 'slot %s does not read back' % sname
        if bad:
            ctx.violation('record class %s (slots %r): %s' % (c.__name__, slots, bad), {'class': c.__name__, 'slots': slots},
                          key={'recclass': c.__name__})
        built.append((c, slots, r0))
    # records of DIFFERENT classes (related by inheritance or not) that agree on the fields they share: == is symmetric,
    # and whenever it answers "equal" the two hash equally and have the same fields with the same values
    for (c1, s1, a_), (c2, s2, b_) in itertools.permutations(built, 2):
        ctx.case(('recpair', c1.__name__, c2.__name__))
        try:
            e12, e21 = (a_ == b_), (b_ == a_)
            n12 = a_ != b_
        except Exception:
            continue                      # raising on a foreign operand is not an answer
        bad = None
        if bool(e12) != bool(e21):
            bad = '== is not symmetric (%r one way, %r the other)' % (e12, e21)
        elif bool(n12) == bool(e12):
            bad = '!= is not the negation of =='
        elif e12 and hash(a_) != hash(b_):
            bad = 'they compare equal but hash differently'
        elif e12 and sorted(s1) != sorted(s2):
            bad = 'they compare equal although their fields differ (%r vs %r): not a field-wise comparison' % (s1, s2)
        if bad:
            ctx.violation('records of classes %s and %s (%s): %s' % (
                c1.__name__, c2.__name__, 'one derives from the other' if issubclass(c1, c2) or issubclass(c2, c1) else 'unrelated', bad),
                {'classes': [c1.__name__, c2.__name__]}, key={'recpair': sorted([c1.__name__, c2.__name__])})
    V = U.Vector
    P = T.Position
    pts = [(0, 0, 0), (1, -2, 3), (2 ** 40, -7, 5), (1.5, 2.25, -0.5), (3, 7, 9), (2 ** 53 + 1, 49, -49)]
    for a, b in itertools.product(pts, repeat=2):
        for cls in (V, P):
            va, vb = cls(*a), V(*b)
            ctx.case(('vec', cls.__name__, a, b))
            res = [(va + vb, tuple(x + y for x, y in zip(a, b))), (va - vb, tuple(x - y for x, y in zip(a, b))),
                   (-va, tuple(-x for x in a)), (va * 3, tuple(x * 3 for x in a)), (3 * va, tuple(3 * x for x in a)),
                   (va // 2, tuple(x // 2 for x in a)), (va / 2, tuple(x / 2 for x in a)),
                   (va / 10, tuple(x / 10 for x in a)), (va / 3, tuple(x / 3 for x in a)),
                   (va // 7, tuple(x // 7 for x in a)), (va * 0.1, tuple(x * 0.1 for x in a)),
                   (va / 0.3, tuple(x / 0.3 for x in a))]
            for got, want in res:
                if tuple(got) != want or type(got) is not cls:
                    ctx.violation('vector arithmetic is not component-wise / type-preserving',
                                  {'type': cls.__name__, 'a': a, 'b': b, 'got': repr(got), 'want': want},
                                  key={'vec': [cls.__name__, a, b]})
    # aliases read back what was set
    p = PPL()
    p.position = V(1, 2, 3)
    p.look = T.Direction(10.0, 20.0)
    rec = clientbound.play.MultiBlockChangePacket.Record(x=1, y=2, z=3, block_state_id=0x35)
    rec.blockStateId = 77
    rec.position = V(4, 5, 6)
    ctx.case(('alias',))
    if (p.x, p.y, p.z) != (1, 2, 3) or tuple(p.position) != (1, 2, 3) or tuple(p.look) != (10.0, 20.0) \
            or (p.yaw, p.pitch) != (10.0, 20.0) or rec.block_state_id != 77 or rec.blockStateId != 77 \
            or (rec.x, rec.y, rec.z) != (4, 5, 6) or tuple(rec.position) != (4, 5, 6):
        ctx.violation('attribute aliases do not read back what was set', {}, key={'kind': 'alias'})

    # keyword-style aliases whose container field names differ from the parent's attribute names
    import collections as _c
    Pair = _c.namedtuple('Pair', ('a', 'b'))
    Tagged = _c.namedtuple('Tagged', ('y', 'tag'))

    class KwHolder(object):
        pair = MU.multi_attribute_alias(Pair, a='left', b='right')
        crossed = MU.multi_attribute_alias(Pair, a='b', b='a')
        tagged = MU.multi_attribute_alias(Tagged, y='feet_y', tag='label')
        mixed = MU.multi_attribute_alias(Pair, 'left', b='label')
    kh = KwHolder()
    ctx.case(('kw-alias',))
    try:
        kh.pair = Pair(1, 2)
        kh.tagged = Tagged(64.5, 'spawn')
        ok = (kh.left, kh.right) == (1, 2) and kh.pair == Pair(1, 2) and (kh.feet_y, kh.label) == (64.5, 'spawn') \
            and kh.tagged == Tagged(64.5, 'spawn')
        kh.crossed = Pair(7, 8)
        ok = ok and (kh.b, kh.a) == (7, 8) and kh.crossed == Pair(7, 8)
        why = 'left/right=%r pair=%r feet_y/label=%r crossed=%r (b, a)=%r' % (
            (kh.left, kh.right), kh.pair, (kh.feet_y, kh.label), kh.crossed, (kh.b, kh.a))
    except Exception as e:
        ok, why = False, 'raised %r' % (e,)
    if not ok:
        ctx.violation('keyword attribute aliases do not read back what was set: %s' % why, {}, key={'kind': 'kw-alias'})

    class Holder(object):
        t = MU.attribute_transform('raw', lambda v: v * 2, lambda v: v // 2)
    hd = Holder()
    hd.t = 10
    ctx.case(('transform',))
    if hd.raw != 5 or hd.t != 10:
        ctx.violation('attribute_transform does not read back', {'raw': hd.raw}, key={'kind': 'transform'})
    # float edge of the wrap (outside the exact model): probe, reported as a note only
    t = T.PositionAndLook(x=0, y=0, z=0, yaw=0, pitch=0)
    p = PPL()
    p.x = p.y = p.z = p.pitch = 0.0
    p.yaw, p.flags = -1e-20, 0
    p.apply(t)
    ctx.extra['float_edge_probe'] = {'yaw_in': -1e-20, 'yaw_out': t.yaw}
    ctx.case(('float-edge',))
    if not (0 <= t.yaw < 360):
        ctx.violation('yaw %r after applying an absolute yaw of -1e-20 is not in [0, 360)' % t.yaw,
                      {'yaw_in': -1e-20, 'yaw_out': t.yaw}, key={'kind': 'float-wrap', 'yaw': '-1e-20'})
    mapset_tie(ctx)
    live_tie(ctx)


def live_tie(ctx):
    """Tie of Model/C20Live.lean (driver `pyand`/`pyor`, `bitnamez`, `poslookf`, `plistfull`): Python's `&` / `|`
    on arbitrary ints; `name_from_value` of a freshly built BitFieldEnum subclass with arbitrary (also negative /
    zero / repeated) member values and member names of every case shape; PlayerPositionAndLookPacket.apply of a
    subclass with arbitrary FLAG_REL_* attributes, any int `flags`, Fraction coordinates; `players_by_uuid.items()`
    after histories of PlayerListItemPackets with all six slots (properties and signatures included)."""
    from minecraft.networking.packets import clientbound
    from minecraft.networking import types as T
    rng = ctx.rng
    lines, want, what = [], [], []

    def add(line, w, wh):
        lines.append(line)
        want.append(w)
        what.append(wh)

    def rint():
        x = rng.random()
        if x < 0.3:
            return rng.randrange(-9, 300)
        if x < 0.6:
            return rng.choice([1, -1]) * (1 << rng.randrange(0, 70)) + rng.choice([-1, 0, 0, 1])
        return rng.randrange(-2 ** 66, 2 ** 66) if x < 0.8 else rng.randrange(-2 ** 31, 2 ** 31)
    # ---- pyand / pyor
    for _ in range(ctx.scale(300, 5000)):
        a, b = rint(), rint()
        add('pyand %d %d' % (a, b), 'ok %d' % (a & b), 'a & b')
        add('pyor %d %d' % (a, b), 'ok %d' % (a | b), 'a | b')
    # ---- bitnamez
    NAMES = ['A', 'B', 'C', 'D', 'F0', 'F1', 'AB', 'A_B', '_X', 'X_', 'lower', 'Mixed', 'mIXED', '_', '_1', 'x9', 'ZZ9']
    for k in range(ctx.scale(60, 900)):
        names = rng.sample(NAMES, rng.randrange(0, 7))
        small = rng.random() < 0.7
        mem = {}
        for n in names:
            mem[n] = rng.choice([0, 1, 2, 4, 8, 3, 5, 6, 16, 255, -1, -2, -4, rng.randrange(-40, 300)]) if small else rint()
        cls = type('LiveEnum%d' % k, (T.BitFieldEnum,), dict(mem))
        mtok = ','.join('%s:%d' % (n, v) for n, v in mem.items()) or '-'
        vals = set(rng.choice(list(mem.values()) + [0]) | rng.choice(list(mem.values()) + [0]) for _ in range(4))
        vals |= {0, -1, rng.randrange(-16, 64), rint()}
        for v in sorted(vals):
            name = cls.name_from_value(v)
            add('bitnamez %s %d' % (mtok, v), 'ok ' + ('~' if name is None else name), 'BitFieldEnum.name_from_value')
    # ---- poslookf
    PPL = clientbound.play.PlayerPositionAndLookPacket
    FL = ('FLAG_REL_X', 'FLAG_REL_Y', 'FLAG_REL_Z', 'FLAG_REL_YAW', 'FLAG_REL_PITCH')

    def rfrac():
        return Fraction(rng.choice([0, 1, -1, 90, 359, 360, 361, 720, -360, -1234, 10 ** 6, rng.randrange(-4000, 4000)]),
                        rng.choice([1, 1, 1, 2, 4, 3, 7, 360, 1000]))
    live_tab = [int(getattr(PPL, n)) for n in FL]
    for k in range(ctx.scale(150, 2500)):
        x = rng.random()
        if x < 0.4:
            tab = live_tab
        elif x < 0.8:
            tab = [rng.choice([0, 1, 2, 4, 8, 16, 32, 3, 24, -1, -2, 1 << 40]) for _ in FL]
        else:
            tab = [rint() for _ in FL]
        cls = type('LivePPL%d' % k, (PPL,), dict(zip(FL, tab)))
        flags = rng.choice([rng.randrange(32), rng.randrange(-128, 128), rint()])
        pk, cur = [rfrac() for _ in range(5)], [rfrac() for _ in range(5)]
        p = cls()
        p.x, p.y, p.z, p.yaw, p.pitch = pk
        p.flags = flags
        t = T.PositionAndLook(x=cur[0], y=cur[1], z=cur[2], yaw=cur[3], pitch=cur[4])
        p.apply(t)
        add('poslookf %s %d %s %s' % (','.join(map(str, tab)), flags, ' '.join(frac(v) for v in pk), ' '.join(frac(v) for v in cur)),
            'ok %s %s %s %s %s' % tuple(frac(v) for v in (t.x, t.y, t.z, t.yaw, t.pitch)), 'PlayerPositionAndLookPacket.apply')
    # ---- plistfull
    PLI = clientbound.play.PlayerListItemPacket
    STR = ['', 'al', 'bob', u'Zo\xeb', 'textures', 'dGV4', u'€ sig']

    def props_tok(props):
        return ';'.join('%s,%s,%s' % (h(p.name), h(p.value), h(p.signature)) for p in props) or '-'
    for k in range(ctx.scale(100, 1500)):
        pl = PLI.PlayerList()
        toks = []
        uuids = [0, 1, 2, 3, -1, 2 ** 127 - 1, -2 ** 70]
        for _ in range(rng.randrange(1, 8)):
            acts = []
            kind = rng.randrange(5)
            for _ in range(rng.randrange(0, 6)):
                u = rng.choice(uuids)
                if kind == 0:
                    props = [PLI.PlayerProperty(name=rng.choice(STR), value=rng.choice(STR), signature=rng.choice([None, None] + STR))
                             for _ in range(rng.choice([0, 0, 1, 2, 3]))]
                    a = PLI.AddPlayerAction(uuid=u, name=rng.choice(STR), properties=props, gamemode=rng.randrange(-1, 5),
                                            ping=rng.choice([0, 17, 250, -1, 2 ** 31 - 1]), display_name=rng.choice([None, None] + STR))
                    toks.append('add:%d:%s:%s:%d:%d:%s' % (u, h(a.name), props_tok(props), a.gamemode, a.ping, h(a.display_name)))
                elif kind == 1:
                    a = PLI.UpdateGameModeAction(uuid=u, gamemode=rng.randrange(-1, 5))
                    toks.append('gm:%d:%d' % (u, a.gamemode))
                elif kind == 2:
                    a = PLI.UpdateLatencyAction(uuid=u, ping=rng.choice([0, 5, 99, -1, 2 ** 31 - 1]))
                    toks.append('lat:%d:%d' % (u, a.ping))
                elif kind == 3:
                    a = PLI.UpdateDisplayNameAction(uuid=u, display_name=rng.choice([None] + STR))
                    toks.append('dn:%d:%s' % (u, h(a.display_name)))
                else:
                    a = PLI.RemovePlayerAction(uuid=u)
                    toks.append('rm:%d' % u)
                acts.append(a)
            PLI(action_type=type(acts[0]) if acts else PLI.AddPlayerAction, actions=acts).apply(pl)
            toks.append('|')
        got = ' '.join(['ok'] + ['%d=%d:%s:%s:%d:%d:%s' % (key, it.uuid, h(it.name), props_tok(it.properties), it.gamemode, it.ping,
                                                          h(it.display_name)) for key, it in pl.players_by_uuid.items()])
        add('plistfull ' + ' '.join(toks), got, 'PlayerListItemPacket.apply (all slots)')
    for line, mo, w, wh in zip(lines, ctx.driver.ask(lines), want, what):
        op = line.split()[0]
        ctx.case(('c20live', line), sample={'op': op, 'request': line[:140], 'impl': w[:100]} if op in ('poslookf', 'plistfull', 'bitnamez') else None)
        ctx.count('live_tie.' + op)
        if mo.rstrip() != w:
            ctx.disagree('%s vs %s' % (op, wh), line[:700], mo[:400], w[:400])
    ctx.extra['c20live_pairs'] = ctx.extra.get('c20live_pairs', 0) + len(lines)


def mapset_tie(ctx):
    """Tie of Model/C20Maps.lean (driver `mapset`): a MapSet built from `Map(id, width=, height=)` objects, a
    history of MapPackets applied with the real `apply_to_map_set` until one raises; compared: the items of
    `maps_by_id` in dict order (key, id, scale, flags, size, len(pixels), icons, runs of non-zero pixels) and
    whether / that an exception stopped the replay (IndexError / ZeroDivisionError = `err:other`)."""
    from minecraft.networking.packets import clientbound as cb
    MP = cb.play.MapPacket
    rng = ctx.rng

    def hexs(s):
        return hx(s.encode('utf-8'))

    def show_icons(icons):
        return ','.join('%d.%d.%d.%d.%s' % (ic.type, ic.direction, ic.location[0], ic.location[1],
                                            '~' if ic.display_name is None else hexs(ic.display_name))
                        for ic in icons) or '-'

    def runs(px):
        out = []
        for i, b in enumerate(px):
            if not b:
                continue
            if out and out[-1][0] + out[-1][1] == i and out[-1][2] == b:
                out[-1][1] += 1
            else:
                out.append([i, 1, b])
        return ','.join('%d*%d=%d' % tuple(r) for r in out) or '-'

    def show_map(key, m):
        opt = lambda v: '~' if v is None else '%d' % v
        return '%d:%s:%s:%d:%d:%d:%d:%d:%s:%s' % (key, opt(m.id), opt(m.scale), bool(m.is_tracking_position), bool(m.is_locked),
                                                  m.width, m.height, len(m.pixels), show_icons(m.icons), runs(bytes(m.pixels)))

    def rnd_icons():
        return [MP.MapIcon(rng.randrange(0, 30), rng.randrange(0, 16), (rng.randrange(-128, 128), rng.randrange(-128, 128)),
                           rng.choice([None, None, '', 'a', 'Home base', u'h\xe9 €']))
                for _ in range(rng.choice([0, 0, 1, 2, 3]))]
    reqs, want = [], []
    for case in range(ctx.scale(250, 4000)):
        ids = rng.sample([0, 1, 2, 3, 7, -1, 2 ** 31 - 1, -2 ** 31], rng.randrange(1, 4))
        init = []
        for _ in range(rng.randrange(0, 4)):
            init.append((rng.choice(ids), rng.randrange(0, 9), rng.randrange(0, 7)))      # duplicate ids: the later Map wins
        if rng.random() < 0.1:
            init.append((rng.choice(ids), 128, 128))
        ms = MP.MapSet(*[MP.Map(i, width=w, height=h) for i, w, h in init])
        toks, err = [], None
        for _ in range(rng.randrange(0, 6)):
            p = MP()
            p.map_id = rng.choice(ids) if rng.random() < 0.9 else rng.randrange(-5, 50)
            p.scale = rng.randrange(-128, 128)
            p.icons = rnd_icons()
            p.is_tracking_position, p.is_locked = rng.random() < 0.5, rng.random() < 0.5
            x = rng.random()
            if x < 0.2:                      # no pixel patch (what `read` produces for width 0)
                p.width, p.height, p.offset, p.pixels = 0, 0, (0, 0), None
            else:
                p.width = rng.choice([0, 1, 1, 2, 3, 4, 8, 255]) if x < 0.9 else rng.randrange(0, 256)
                p.height = rng.randrange(0, 5)
                n = rng.choice([p.width * p.height, p.width * p.height, rng.randrange(0, 12), 0, 1])
                p.pixels = bytearray(rng.choice([0, 1, 1, 2, 255, rng.randrange(256)]) for _ in range(min(n, 40)))
                p.offset = (rng.choice([0, 0, 1, 2, 5, -1, -2, 127, -128, rng.randrange(-128, 128)]),
                            rng.choice([0, 0, 1, 2, 5, -1, 127, -128, rng.randrange(-128, 128)]))
            toks.append('%d:%d:%d:%d:%d:%d:%d:%d:%s:%s' % (
                p.map_id, p.scale, p.is_tracking_position, p.is_locked, p.width, p.height, p.offset[0], p.offset[1],
                '~' if p.pixels is None else hx(p.pixels), show_icons(p.icons)))
            if err is None:                  # the model stops at the first exception; later tokens are still sent
                try:
                    p.apply_to_map_set(ms)
                except (IndexError, ZeroDivisionError):
                    err = 'other'
                except Exception as e:
                    err = type(e).__name__
        reqs.append('mapset %s %s' % (','.join('%d.%d.%d' % t for t in init) or '-', ' '.join(toks)))
        want.append(' '.join([('err:' + err) if err else 'ok'] + [show_map(k, m) for k, m in ms.maps_by_id.items()]))
    for line, mo, w in zip(reqs, ctx.driver.ask(reqs), want):
        ctx.case(('mapset', line), sample={'op': 'mapset', 'request': line[:160], 'impl': w[:160]})
        ctx.count('mapset.' + w.split()[0])
        if mo.rstrip() != w:
            ctx.disagree('mapset: apply_to_map_set history', line[:900], mo[:600], w[:600])
    ctx.extra['c20mapset_pairs'] = ctx.extra.get('c20mapset_pairs', 0) + len(reqs)


def replay(ctx, rp):
    for v in rp.get('violations', []):
        print(v)
    return not rp.get('violations')
