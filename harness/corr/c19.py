"""C19: AuthenticationToken against a local HTTP stand-in for the Yggdrasil service.
Correspondence with the Lean model (Model/Auth.lean) + independent property oracle."""
import http.server
import json
import threading

EXTRA_PROPS = ['C19Seq', 'C19SeqLive', 'C19SeqRuns']

EXTRACT = ['gen.c19seq']

RULE = ("operation sequences (length 1..5) over {authenticate, refresh, validate, invalidate, join, "
        "sign_out} x initial tokens (all 32 present/absent subsets, plus empty-string variants) x "
        "reply status {200,204,400,401,403,404,429,500,503} x body {complete result, result missing "
        "keys, error object (+/- cause), partial error object, JSON non-object (list, number, string, "
        "null), non-JSON, empty}; served by a real http.server on 127.0.0.1; distinct by "
        "(op, token, args, reply)")

STATUSES = [200, 204, 400, 401, 403, 404, 429, 500, 503]
OPS = ['authenticate', 'refresh', 'validate', 'invalidate', 'join', 'signout']


def h(s):
    if s is None:
        return '~'
    b = s.encode('utf-8').hex()
    return b or '-'


class Stand(http.server.BaseHTTPRequestHandler):
    protocol_version = 'HTTP/1.0'
    reply = (200, b'')
    log = []

    def do_POST(self):
        n = int(self.headers.get('content-length') or 0)
        body = self.rfile.read(n)
        Stand.log.append((self.path, body, self.headers.get('content-type')))
        st, data = Stand.reply
        self.send_response(st)
        self.send_header('Content-Type', 'application/json')
        self.send_header('Content-Length', str(len(data)))
        self.end_headers()
        if st != 204:
            self.wfile.write(data)

    def log_message(self, *a):
        pass


def gen_body(rng):
    """-> (kind token for the model, fields token, bytes served)"""
    k = rng.random()
    pool = ['acc-B', 'cli-B', 'id-B', 'Bob', '', 'x y', 'é']
    if k < 0.40:
        a, c, pid, pn = (rng.choice(pool) for _ in range(4))
        miss = set()
        if rng.random() < 0.35:
            miss = set(rng.sample(['a', 'c', 'sel', 'pid', 'pn'], rng.randrange(1, 3)))
        obj = {}
        if 'a' not in miss:
            obj['accessToken'] = a
        if 'c' not in miss:
            obj['clientToken'] = c
        if 'sel' not in miss:
            sel = {}
            if 'pid' not in miss:
                sel['id'] = pid
            if 'pn' not in miss:
                sel['name'] = pn
            obj['selectedProfile'] = sel
        if rng.random() < 0.3:
            obj['user'] = 'ignored'
        f = [h(a) if 'a' not in miss else '~', h(c) if 'c' not in miss else '~']
        if 'sel' in miss:
            f += ['~', '~', '0']
        else:
            f += [h(pid) if 'pid' not in miss else '~', h(pn) if 'pn' not in miss else '~', '1']
        return 'result', ','.join(f), json.dumps(obj).encode()
    if k < 0.65:
        e, m = rng.choice(['ForbiddenOperationException', 'E', '']), rng.choice(['Invalid credentials.', 'm', ''])
        cause = rng.choice([None, 'UserMigratedException', ''])
        obj = {'error': e, 'errorMessage': m}
        if cause is not None:
            obj['cause'] = cause
        return 'error', '%s,%s,%s' % (h(e), h(m), h(cause)), json.dumps(obj).encode()
    if k < 0.73:
        obj = rng.choice([{'error': 'x'}, {'errorMessage': 'y'}, {}, {'cause': 'z'}])
        return 'partial', '_', json.dumps(obj).encode()
    if k < 0.85:
        return 'nonobj', '_', rng.choice([b'[]', b'[1, 2]', b'5', b'null', b'true', b'"error errorMessage"', b'"x"'])
    if k < 0.93:
        return 'nonjson', '_', rng.choice([b'<html>Bad Gateway</html>', b'{', b'error', b'\xff\xfe'])
    return 'empty', '_', b''


def tok_state(t):
    return [t.username, t.access_token, t.client_token, t.profile.id_, t.profile.name]


def run(ctx):
    from minecraft import authentication as A
    from minecraft.exceptions import YggdrasilError
    ctx.extra['rule'] = RULE
    rng = ctx.rng
    srv = http.server.HTTPServer(('127.0.0.1', 0), Stand)
    th = threading.Thread(target=srv.serve_forever, daemon=True)
    th.start()
    port = srv.server_address[1]
    old = (A.AUTH_SERVER, A.SESSION_SERVER)
    A.AUTH_SERVER = 'http://127.0.0.1:%d' % port            # same shape as the real constants:
    A.SESSION_SERVER = 'http://127.0.0.1:%d/session/minecraft' % port   # no path / a path prefix
    real_uuid4 = A.uuid.uuid4
    lines, impl = [], []
    try:
        init_tokens = []
        for mask in range(32):
            vals = ['alice', 'acc-A', 'cli-A', 'id-A', 'Alice']
            init_tokens.append([v if mask >> i & 1 else None for i, v in enumerate(vals)])
        for _ in range(12):
            init_tokens.append([rng.choice([None, '', 'v']) for _ in range(5)])
        nseq = ctx.scale(220, 2500)
        for si in range(nseq):
            st0 = init_tokens[si % len(init_tokens)] if si < 3 * len(init_tokens) else rng.choice(init_tokens)
            t = A.AuthenticationToken(st0[0], st0[1], st0[2])
            t.profile.id_, t.profile.name = st0[3], st0[4]
            for step in range(rng.randrange(1, 6)):
                op = OPS[(si + step) % 6] if si < 60 else rng.choice(OPS)
                status = rng.choice(STATUSES) if rng.random() < 0.75 else rng.choice([200, 204])
                kind, fields, data = gen_body(rng)
                if status == 200 and rng.random() < 0.5:
                    kind, fields, data = gen_body(rng) if rng.random() < 0.3 else next(
                        x for x in iter(lambda: gen_body(rng), None) if x[0] == 'result')
                if status == 204:   # a 204 reply carries no body on the wire
                    kind, fields, data = 'empty', '_', b''
                before = tok_state(t)
                was_auth = bool(t.authenticated)
                Stand.reply = (status, data)
                Stand.log = []
                fresh = '%032x' % rng.getrandbits(128)

                class U:
                    hex = fresh
                A.uuid.uuid4 = lambda: U
                user, pw, inval, sid = rng.choice(['bob', '', 'é']), rng.choice(['pw', '']), rng.random() < 0.3, 'srv%d' % step
                if op == 'authenticate':
                    args = '%s,%s,%d,%s' % (h(user), h(pw), inval, h(fresh))
                    call = lambda: t.authenticate(user, pw, invalidate_previous=inval)
                elif op == 'signout':
                    args = '%s,%s' % (h(user), h(pw))
                    call = lambda: A.AuthenticationToken.sign_out(user, pw)
                elif op == 'join':
                    args = h(sid)
                    call = lambda: t.join(sid)
                else:
                    args = '_'
                    call = getattr(t, op)
                try:
                    r = call()
                    out = 'ret:1' if r is True else 'ret:none' if r is None else 'ret:0' if r is False else 'ret:%r' % (r,)
                    exc = None
                except YggdrasilError as e:
                    exc = e
                    mal = 1 if (e.args and 'Malformed error message' in str(e.args[0])) else 0
                    out = 'ygg:%s:%s:%s:%s:%d' % ('~' if e.status_code is None else e.status_code,
                                                  h(e.yggdrasil_error), h(e.yggdrasil_message),
                                                  h(e.yggdrasil_cause), mal)
                except ValueError as e:
                    exc, out = e, 'value'
                except KeyError as e:
                    exc, out = e, 'key'
                except TypeError as e:
                    exc, out = e, 'type'
                except Exception as e:
                    exc, out = e, type(e).__name__
                after = tok_state(t)
                reqs = list(Stand.log)
                if reqs:
                    path, body, ctype = reqs[0]
                    pj = json.loads(body)
                    if path.startswith('/session/minecraft/'):
                        srvname, endpoint = 'session', path[len('/session/minecraft/'):]
                    else:
                        srvname, endpoint = 'auth', path.lstrip('/')

                    def flat(prefix, o):
                        items = []
                        for k, v in o.items():
                            if isinstance(v, dict):
                                items += flat(prefix + k + '.', v)
                            elif isinstance(v, bool) or isinstance(v, int):
                                items.append('%s%s=%d' % (prefix, k, v))
                            else:
                                items.append('%s%s=%s' % (prefix, k, h(v)))
                        return items
                    reqs_s = 'req=%s/%s pay=%s' % (srvname, endpoint, ';'.join(flat('', pj)) or '-')
                else:
                    pj = None
                    reqs_s = 'req=none pay=-'
                got = 'ok token=%s out=%s %s' % (','.join(h(x) for x in after), out, reqs_s)
                lines.append('auth.op %s %s %s %d:%s:%s' % (op, ','.join(h(x) for x in before), args,
                                                           status, kind, fields))
                impl.append((got, op, before, after, status, kind, out, reqs, pj, was_auth, data,
                             (user, pw, inval, fresh, sid)))
                lines.append('auth.authenticated %s' % ','.join(h(x) for x in after))
                impl.append(('ok %d' % bool(t.authenticated), 'authenticated', after, after, 0, '', '', [], None,
                             was_auth, b'', None))
    finally:
        A.AUTH_SERVER, A.SESSION_SERVER = old
        A.uuid.uuid4 = real_uuid4
        srv.shutdown()
        srv.server_close()
    outs = ctx.driver.ask(lines)
    for line, mo, rec in zip(lines, outs, impl):
        got, op, before, after, status, kind, out, reqs, pj, was_auth, data, args = rec
        ctx.case(line, sample={'request': line, 'impl': got})
        ctx.count('op.' + op)
        if op != 'authenticated':
            ctx.count('status.%d' % status)
            ctx.count('body.' + kind)
            ctx.count('out.' + out.split(':')[0])
        if got != mo:
            ctx.disagree('AuthenticationToken.' + op, line, mo, got)
        # ------------------------------------------------------------ property oracle
        bad = None
        key = {'op': op, 'token': before, 'status': status, 'body': data.decode('latin-1')}
        if op == 'authenticated':
            want = all(bool(x) for x in after[:3]) and after[3] is not None and after[4] is not None
            if got != 'ok %d' % want:
                bad = 'authenticated=%s for token %r' % (got, after)
        else:
            http_error = status >= 400
            if len(reqs) > 1:
                bad = 'more than one request sent'
            if op == 'authenticate' and not reqs:
                # authenticate() has no precondition on the token: it always asks the service, and its outcome is the reply's
                bad = 'authenticate(%r, …, invalidate_previous=%s) posted nothing to the service (out=%s, token before %r)' % (
                    args[0], args[2], out, before)
            if op == 'validate' and before[1] is not None:
                if (out == 'ret:1') != (status == 204):
                    bad = 'validate returned %s for status %d' % (out, status)
                if after != before:
                    bad = 'validate altered the token'
            if op == 'join' and not was_auth:
                if reqs or not out.startswith('ygg:') or after != before:
                    bad = 'join on an unauthenticated token: out=%s requests=%d' % (out, len(reqs))
            if http_error and op != 'validate' and reqs:
                if not out.startswith('ygg:%d:' % status):
                    bad = 'HTTP %d reply did not raise YggdrasilError with that status (out=%s)' % (status, out)
                elif after != before:
                    bad = 'HTTP error reply altered the stored credentials'
                else:
                    try:
                        j = json.loads(data)
                    except ValueError:
                        j = None
                    is_err = isinstance(j, dict) and 'error' in j and 'errorMessage' in j
                    if is_err:
                        want = 'ygg:%d:%s:%s:%s:0' % (status, h(j['error']), h(j['errorMessage']), h(j.get('cause')))
                        if out != want:
                            bad = 'error fields not carried: %s, expected %s' % (out, want)
                    elif not out.endswith(':1'):
                        bad = 'non-error-object body not reported as malformed: %s' % out
            if op in ('authenticate', 'refresh') and status == 200 and kind == 'result' and reqs:
                j = json.loads(data)
                sel = j.get('selectedProfile')
                complete = 'accessToken' in j and 'clientToken' in j and isinstance(sel, dict) \
                    and 'id' in sel and 'name' in sel
                if complete:
                    want_after = [args[0] if op == 'authenticate' else before[0], j['accessToken'],
                                  j['clientToken'], sel['id'], sel['name']]
                    if out != 'ret:1' or after != want_after:
                        bad = 'success reply not stored exactly: out=%s token=%r expected %r' % (out, after, want_after)
            if reqs and pj is not None and not bad:
                user, pw, inval, fresh, sid = args
                path = reqs[0][0]
                exp = None
                if op == 'authenticate':
                    exp = ('/authenticate', {'agent': {'name': 'Minecraft', 'version': 1},
                                                  'username': user, 'password': pw})
                    if not inval:
                        exp[1]['clientToken'] = before[2] or fresh
                elif op == 'refresh':
                    exp = ('/refresh', {'accessToken': before[1], 'clientToken': before[2]})
                elif op == 'validate':
                    exp = ('/validate', {'accessToken': before[1]})
                elif op == 'invalidate':
                    exp = ('/invalidate', {'accessToken': before[1], 'clientToken': before[2]})
                elif op == 'signout':
                    exp = ('/signout', {'username': user, 'password': pw})
                elif op == 'join':
                    exp = ('/session/minecraft/join', {'accessToken': before[1],
                                             'selectedProfile': {'id': before[3], 'name': before[4]},
                                             'serverId': sid})
                if exp and (path, pj) != exp:
                    bad = 'request %s %r is not the documented %s %r' % (path, pj, exp[0], exp[1])
                if reqs[0][2] != 'application/json':
                    bad = 'content-type %r' % (reqs[0][2],)
        if bad:
            ctx.violation('%s: %s' % (op, bad), {'request': line, 'impl': got, 'body': data.decode('latin-1')}, key=key)
    profile_change_sequences(ctx)
    seq_tie(ctx)


def profile_change_sequences(ctx):
    """join -> the stored profile changes (refresh / re-authenticate returning another profile, or the application
    assigning the fields) -> join: every join posts the profile stored AT THAT MOMENT"""
    from minecraft import authentication as A
    rng = ctx.rng
    srv = http.server.HTTPServer(('127.0.0.1', 0), Stand)
    th = threading.Thread(target=srv.serve_forever, daemon=True)
    th.start()
    port = srv.server_address[1]
    old = (A.AUTH_SERVER, A.SESSION_SERVER)
    A.AUTH_SERVER = 'http://127.0.0.1:%d' % port
    A.SESSION_SERVER = 'http://127.0.0.1:%d/session/minecraft' % port
    try:
        for trial in range(ctx.scale(9, 60)):
            t = A.AuthenticationToken('alice', 'acc-0', 'cli-0')
            t.profile.id_, t.profile.name = 'id-0', 'Name0'
            bad = None
            for step in range(1, 5):
                Stand.reply = (204, b'')
                Stand.log = []
                try:
                    t.join('srv%d' % step)
                    pj = json.loads(Stand.log[-1][1]) if Stand.log else None
                except Exception as e:
                    pj = repr(e)
                want = {'accessToken': t.access_token, 'selectedProfile': {'id': t.profile.id_, 'name': t.profile.name},
                        'serverId': 'srv%d' % step}
                ctx.case(('profile-change', trial, step))
                if pj != want:
                    bad = 'join #%d posts %r, the stored token/profile at that moment is %r' % (step, pj, want)
                    break
                how = (trial + step) % 3
                if how == 0:
                    t.profile.id_, t.profile.name = 'id-%d' % step, 'Name%d' % step
                else:
                    body = json.dumps({'accessToken': 'acc-%d' % step, 'clientToken': 'cli-0',
                                       'selectedProfile': {'id': 'id-%d' % step, 'name': 'Name%d' % step}}).encode()
                    Stand.reply = (200, body)
                    Stand.log = []
                    try:
                        if how == 1:
                            t.refresh()
                        else:
                            t.authenticate('alice', 'pw')
                    except Exception as e:
                        bad = 'step %d raised %r' % (step, e)
                        break
            if bad:
                ctx.violation('join / profile change / join on one token: %s' % bad, {'trial': trial},
                              key={'kind': 'profile-change-sequence'})
                break
    finally:
        A.AUTH_SERVER, A.SESSION_SERVER = old
        srv.shutdown()


def seq_tie(ctx):
    """Tie of Model/C19Seq.lean / Model/C19Json.lean (driver `authseq.run`, `c19json`) to the real code: whole
    program runs of the real AuthenticationToken (0-3 tokens with arbitrary JSON-valued attributes, 0-6 calls of
    authenticate / refresh / validate / invalidate / join / sign_out, replies of any status with result objects,
    error objects, JSON non-objects, non-JSON, empty bodies, transport failures), every HTTP exchange
    intercepted at requests.adapters.HTTPAdapter.send -- per call the outcome (return value / exception class,
    attributes and text) and the request as prepared (method, URL, non-default headers, body, timeout), at the
    end the five attributes of every token; and random JSON texts (well-formed in all accepted spellings,
    mutated, malformed) through the real json.loads/json.dumps.  The observation script
    harness/xcheck/c19seq_xcheck.py <N> <seed> patches HTTPAdapter.send and uuid.uuid4 while it runs: a
    subprocess, which also bounds the run (timeout -> disagreement).  It prints `request<TAB>expected` lines;
    all randomness from the seed drawn here from ctx.rng."""
    import os
    import subprocess
    import sys
    import lib
    script = os.path.join(os.path.dirname(os.path.dirname(os.path.abspath(__file__))), 'xcheck', 'c19seq_xcheck.py')
    n = ctx.scale(1500, 20000)
    seed = ctx.rng.getrandbits(48)
    env = dict(os.environ, PYCRAFT_REPO=lib.REPO, PYTHONDONTWRITEBYTECODE='1')
    limit = 120 + n // 50
    try:
        p = subprocess.run([sys.executable, script, str(n), str(seed)], capture_output=True, text=True, env=env,
                           timeout=limit)
    except subprocess.TimeoutExpired:
        ctx.disagree('authseq.run: the real-code observation script did not finish in %d s (the code under test hangs '
                     'or spins)' % limit, [script, n, seed], None, 'timeout')
        return
    pairs = [l.split('\t') for l in p.stdout.splitlines()]
    if p.returncode != 0 or len(pairs) != n or any(len(x) != 2 for x in pairs):
        ctx.disagree('authseq.run/c19json: the real-code observation script could not run against this tree',
                     [script, n, seed], None, (p.stderr or p.stdout)[-1500:])
        return
    npairs = {}
    for (req, exp), mo in zip(pairs, ctx.driver.ask([q for q, _ in pairs])):
        cmd = req.split(' ', 1)[0]
        ctx.case(('c19seq', req), sample={'request': req[:200], 'impl': exp[:200]} if cmd == 'authseq.run' else None)
        npairs[cmd] = npairs.get(cmd, 0) + 1
        if cmd == 'authseq.run':
            steps = req.split(' ')[2:]
            ctx.count('seq.steps', len(steps))
            for st in steps:
                ctx.count('seq.call.' + st.split(':', 1)[0])
            if exp.startswith('ok obs='):
                for ob in exp[len('ok obs='):].split(' final=')[0].split(';'):
                    if ob != '-':
                        ctx.count('seq.out.' + ob.split('/')[0].split(':')[0])
        else:
            ctx.count('seq.json.' + exp.split(' ')[0])
        if mo != exp:
            ctx.disagree('authseq.run vs program runs of the real AuthenticationToken (HTTP intercepted at HTTPAdapter.send)'
                         if cmd == 'authseq.run' else 'c19json vs json.dumps(json.loads(text))', req[:3000], mo[:1500], exp[:1500])
    for cmd, k in npairs.items():
        name = 'c19%s_pairs' % cmd.replace('.', '')
        ctx.extra[name] = ctx.extra.get(name, 0) + k


def replay(ctx, rp):
    for v in rp.get('violations', []):
        print(v)
    return not rp.get('violations')
