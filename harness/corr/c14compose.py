"""C14, composed (Model/C14Compose.lean): the REAL `NetworkingThread.run`, `_run`, `_react`,
`_handle_exit`, `_handle_exception`, `connect`, `disconnect`, `_check_connection`,
`_start_network_thread`, `register_*` of /repo are executed synchronously on a `Connection` whose
socket, reactor and write phase are scripted; what they do is compared, event by event, with the
driver command `thread` (Drive/C14Compose.lean).

Stand-alone:  cd /verif/harness && /venv/bin/python corr/c14compose.py [N] [seed] [repo] [a|b|c]
(through the ordinary driver binary, like `run(ctx)` below, which corr/c14.py calls).  With a fourth
argument the model side is the CHANGED code `thread.mut <a|b|c>` (PART III of Props/C14Compose.lean)
and `repo` should be a copy of /repo with the corresponding change applied: this checks that the
mutant models mirror the changed Python.

Not observable on the real code and therefore removed from the model's log before comparing: the
events `fg:` (deferred write error forgiven) and `df:` (deferred write error raised) -- their
consequences (which exception enters `_handle_exception`, or none) are compared.
"""
import os
import random
import sys
from collections import deque

RULE = ("scripted write phases (ok / IOError after n packets / other exception) x scripted read_packet results "
        "(timeout / packet of 3 classes, disconnect or not / exception) x 0..2 early and ordinary listeners "
        "(type filters, ok / IgnorePacket / exception, optional disconnect()) x reactions per class x reactor "
        "handler (False / True / raises, optional disconnect()/connect()) x 0..3 handlers (type filters, "
        "return / raise, API calls) x final handler {None, False, fn} x exit callback")


class StopScript(BaseException):
    pass


def make_cases(n, seed, repo='/repo'):
    if repo not in sys.path:
        sys.path.insert(0, repo)
    import minecraft.networking.connection as C
    from minecraft.networking import packets as P
    from minecraft.networking.packets import Packet
    from minecraft.exceptions import InvalidState, IgnorePacket
    from minecraft import SUPPORTED_PROTOCOL_VERSIONS

    rng = random.Random(seed)

    class ErrA(Exception):
        pass

    class ErrB(ErrA):
        pass

    class ErrC(Exception):
        pass
    exc_classes = [Exception, OSError, ErrA, ErrB, ErrC, EOFError, InvalidState, ValueError]
    cid = {c: i + 1 for i, c in enumerate(exc_classes)}

    class PA(Packet):
        pass

    class PB(PA):
        pass

    class PC(Packet):
        pass
    pkt_classes = {100: Packet, 101: PA, 102: PB, 103: PC}
    edges = []
    for c in exc_classes:
        for b in c.__mro__[1:]:
            if b in cid:
                edges.append('%d:%d' % (cid[c], cid[b]))
                break
    edges += ['101:100', '102:101', '103:100']
    hier = ','.join(edges)
    INV = '%d.0' % cid[InvalidState]

    keep = []
    tags = {}

    def mk(cls):
        e = cls('x%d' % len(keep))
        keep.append(e)
        tags[id(e)] = len(keep)
        return e

    def cls_id(e):
        for c in type(e).__mro__:
            if c in cid:
                return cid[c]
        return 0

    def show(e):
        if e is None:
            return 'none'
        if isinstance(e, InvalidState):
            return INV
        return '%d.%d' % (cls_id(e), tags.get(id(e), 999))

    non_io = [ErrA, ErrB, ErrC, ValueError, EOFError]
    any_exc = non_io + [OSError]
    orig_start = C.NetworkingThread.start
    C.NetworkingThread.start = lambda self: None
    # the reactor installed by a real `connect()` (LoginReactor) inherits this method; wrap it only
    # to LOG the call, the result is the real one
    orig_rh = C.PacketReactor.handle_exception
    cur_log = [None]

    def logged_rh(self, exc, exc_info):
        r = orig_rh(self, exc, exc_info)
        cur_log[0].append('call:r:%s:none:%s' % (show(exc), show(exc_info[1])))
        return r
    C.PacketReactor.handle_exception = logged_rh
    cases = []
    try:
        for trial in range(n):
            log = []
            cur_log[0] = log

            def lout():
                r = rng.random()
                if r < 0.6:
                    return None
                if r < 0.75:
                    return 'ign'
                return mk(rng.choice(any_exc))

            def lout_tok(o):
                return 'ok' if o is None else 'ign' if o == 'ign' else 'X' + show(o)

            def acts():
                return rng.choice(['_', '_', '_', 'dc', 'c', 'd', 'cd', 'dcc'])

            def beh():
                return None if rng.random() < 0.6 else mk(rng.choice(any_exc))

            def beh_tok(b):
                return 'ret' if b is None else 'X' + show(b)

            def types_tok(ts, ids):
                return '+'.join(str(ids[t]) for t in ts) or '_'
            pid_of = {v: k for k, v in pkt_classes.items()}
            final_spec = rng.choice(['none', 'false', 'fn', 'fn'])
            fin_acts, fin_beh = acts(), beh()
            exit_spec = rng.choice(['none', 'fn', 'fn'])
            exit_acts, exit_beh = acts(), beh()

            def do_acts(a):
                for ch in a:
                    if ch == 'd':
                        conn.disconnect(immediate=rng.random() < 0.5)
                    elif ch == 'c':
                        conn.connect()

            def call_logged(kind, a, nominal, arg, info):
                try:
                    do_acts('' if a == '_' else a)
                except InvalidState as x:
                    log.append('call:%s:%s:%s:%s' % (kind, show(arg), show(x), show(info)))
                    raise
                log.append('call:%s:%s:%s:%s' % (kind, show(arg), show(nominal), show(info)))
                if nominal is not None:
                    raise nominal

            def final_fn(e, info):
                call_logged('f', fin_acts, fin_beh, e, info[1])

            def exit_fn():
                try:
                    do_acts('' if exit_acts == '_' else exit_acts)
                except InvalidState as x:
                    log.append('ex:%s' % show(x))
                    raise
                log.append('ex:%s' % show(exit_beh))
                if exit_beh is not None:
                    raise exit_beh
            final = {'none': None, 'false': False, 'fn': final_fn}[final_spec]
            conn = C.Connection('h', 1, username='u', allowed_versions={SUPPORTED_PROTOCOL_VERSIONS[-1]},
                                handle_exception=final, handle_exit=exit_fn if exit_spec == 'fn' else None)
            socks, closed = [], []

            class FakeSock(object):
                def __init__(self, k):
                    self.k = k
                    self.is_closed = False

                def shutdown(self, how):
                    pass

                def send(self, data):
                    return len(data)

                def close(self):
                    if not self.is_closed:
                        self.is_closed = True
                        closed.append(self.k)

            class FakeFile(object):
                def close(self):
                    pass

            def fake_connect():
                conn._outgoing_packet_queue = deque()
                s = FakeSock(len(socks))
                socks.append(s)
                conn.socket = s
                conn.file_object = FakeFile()
                conn.options.compression_enabled = False
                conn.options.compression_threshold = -1
                conn.connected = True
            conn._connect = fake_connect
            # listeners
            ltoks = {True: [], False: []}
            lid = [0]
            for early in (True, False):
                for _ in range(rng.randrange(0, 3)):
                    lid[0] += 1
                    ts = rng.sample(list(pkt_classes.values()), rng.randrange(0, 3))
                    d = rng.random() < 0.15
                    o = lout()
                    name = ('e%d' if early else 'o%d') % lid[0]

                    def cb(pkt, name=name, d=d, o=o):
                        log.append('cb:%s:%d:%s' % (name, d, lout_tok(o)))
                        if d:
                            conn.disconnect(immediate=rng.random() < 0.5)
                        if o == 'ign':
                            raise IgnorePacket
                        if o is not None:
                            raise o
                    conn.register_packet_listener(cb, *ts, early=early)
                    ltoks[early].append('%d/%s/%d/%s' % (lid[0], types_tok(ts, pid_of), d, lout_tok(o)))
            rx = {}
            for k in (101, 102, 103):
                if rng.random() < 0.7:
                    rx[k] = (rng.random() < 0.25, lout())
            rx_tok = ';'.join('%d/%d/%s' % (k, v[0], lout_tok(v[1])) for k, v in sorted(rx.items())) or '-'
            rh_acts = rng.choice(['_', '_', '_', 'dc', 'c', 'd'])
            r = rng.random()
            rh_beh = 'F' if r < 0.7 else 'T' if r < 0.85 else mk(rng.choice(any_exc))
            rh_tok = '%s/%s' % (rh_acts, rh_beh if isinstance(rh_beh, str) else 'X' + show(rh_beh))
            swallowed = [False]
            # scripts
            ws = []
            for _ in range(rng.randrange(1, 5)):
                r = rng.random()
                if r < 0.7:
                    ws.append(('w', rng.choice([0, 0, 0, 2, 49, 50, 55])))
                elif r < 0.88:
                    ws.append(('i', rng.choice([0, 1, 49, 50]), mk(OSError)))
                else:
                    ws.append(('X', mk(rng.choice(non_io))))
            rs = []
            for _ in range(rng.randrange(0, 9)):
                r = rng.random()
                if r < 0.2:
                    rs.append(('n',))
                elif r < 0.85:
                    rs.append(('p', rng.choice([100, 101, 102, 103]), rng.random() < 0.2))
                else:
                    rs.append(('X', mk(rng.choice(any_exc))))

            def w_tok(w):
                return 'w%d' % w[1] if w[0] == 'w' else 'i%d:%s' % (w[1], show(w[2])) if w[0] == 'i' \
                    else 'X' + show(w[1])

            def w_log(w):
                return 'W%d' % w[1] if w[0] == 'w' else 'WI%d:%s' % (w[1], show(w[2])) if w[0] == 'i' \
                    else 'WX' + show(w[1])

            def r_tok(x):
                return 'n' if x[0] == 'n' else 'p%d:%d' % (x[1], x[2]) if x[0] == 'p' else 'X' + show(x[1])
            ws_tok = ','.join(map(w_tok, ws)) or '-'
            rs_tok = ','.join(map(r_tok, rs)) or '-'
            wq, rq = deque(ws), deque(rs)
            cur = [None]
            real_pop = type(conn)._pop_packet

            def pop_packet():
                if sys._getframe(1).f_code.co_name != '_run':
                    return real_pop(conn)
                if cur[0] is None:
                    if not wq:
                        raise StopScript()
                    w = wq.popleft()
                    cur[0] = [w, w[1] if w[0] != 'X' else 0]
                w, left = cur[0]
                if left > 0:
                    cur[0][1] -= 1
                    return True
                cur[0] = None
                log.append(w_log(w))
                if w[0] == 'w':
                    return False
                raise (w[2] if w[0] == 'i' else w[1])
            conn._pop_packet = pop_packet

            class StubReactor(object):
                def read_packet(self, stream, timeout=0):
                    if not rq:
                        log.append('Rn')
                        return None
                    x = rq.popleft()
                    if x[0] == 'n':
                        log.append('Rn')
                        return None
                    if x[0] == 'X':
                        log.append('RX' + show(x[1]))
                        raise x[1]
                    log.append('Rp%d:%d' % (x[1], x[2]))
                    pkt = pkt_classes[x[1]]()
                    if x[2]:
                        pkt.packet_name = 'disconnect'
                    pkt.cls_id = x[1]
                    return pkt

                def react(self, pkt):
                    d, o = rx.get(pkt.cls_id, (False, None))
                    log.append('cb:R:%d:%s' % (d, lout_tok(o)))
                    if d:
                        conn.disconnect(immediate=rng.random() < 0.5)
                    if o == 'ign':
                        raise IgnorePacket
                    if o is not None:
                        raise o

                def handle_exception(self, exc, exc_info):
                    try:
                        do_acts('' if rh_acts == '_' else rh_acts)
                    except InvalidState as x:
                        log.append('call:r:%s:%s:%s' % (show(exc), show(x), show(exc_info[1])))
                        raise
                    if isinstance(rh_beh, str):
                        log.append('call:r:%s:none:%s' % (show(exc), show(exc_info[1])))
                        swallowed[0] = rh_beh == 'T'
                        return rh_beh == 'T'
                    log.append('call:r:%s:%s:%s' % (show(exc), show(rh_beh), show(exc_info[1])))
                    raise rh_beh
            # handlers
            htoks = []
            order = []
            for i in range(rng.randrange(0, 4)):
                ts = tuple(rng.sample(exc_classes, rng.randrange(0, 3)))
                a, b = acts(), beh()
                early = rng.random() < 0.3
                hid = 10 + i

                def hfun(e, info, hid=hid, a=a, b=b):
                    call_logged('h%d' % hid, a, b, e, info[1])
                conn.register_exception_handler(hfun, *ts, early=early)
                tok = '%d/%s/%s/%s' % (hid, types_tok(ts, cid), a, beh_tok(b))
                if early:
                    order.insert(0, tok)
                else:
                    order.append(tok)
            fin_tok = final_spec if final_spec != 'fn' else '%s/%s' % (fin_acts, beh_tok(fin_beh))
            exit_tok = 'none' if exit_spec == 'none' else '%s/%s' % (exit_acts, beh_tok(exit_beh))
            line = 'thread %s %s %s %s %s %s _/F %s %s %s %s %s' % (
                hier, INV, ';'.join(ltoks[True]) or '-', ';'.join(ltoks[False]) or '-', rx_tok, rh_tok,
                ';'.join(order) or '-', fin_tok, exit_tok, ws_tok, rs_tok)
            # initial state = Conn.fresh
            fake_connect()
            conn.reactor = StubReactor()
            T = C.NetworkingThread(conn)
            conn.networking_thread = T
            entered = [None]
            real_hx = type(conn)._handle_exception
            real_disc = type(conn).disconnect
            cleanup = [False]

            def hx_wrap(exc, exc_info):
                entered[0] = (exc, exc_info[1])
                log.append('SI')
                return real_hx(conn, exc, exc_info)

            def disc_wrap(immediate=False):
                if sys._getframe(1).f_code.co_name == '_handle_exception':
                    cleanup[0] = True
                    log.append('cl:1')
                return real_disc(conn, immediate=immediate)
            conn._handle_exception = hx_wrap
            conn.disconnect = disc_wrap
            reraised, ended = None, True
            try:
                T.run()
            except StopScript:
                ended = False
            except Exception as e:
                reraised = e
            cl = '-'
            if entered[0] is not None:
                if swallowed[0]:
                    cl = 'n'
                elif cleanup[0]:
                    cl = 'd'
                else:
                    cl = 's'
                    log.append('cl:0')
            if ended:
                log.append('SC')

            def flag(t):
                return 'x' if t is None else '%d' % bool(t.interrupt)
            nt = flag(conn.networking_thread)
            connstr = '%s/%s/%s/%d/%d/%s' % (
                nt if ended else '*', flag(conn.new_networking_thread),
                'x' if conn.socket is None else conn.socket.k, conn.connected, len(socks),
                '+'.join(map(str, closed)) or '_')
            recorded = conn.exception if entered[0] is not None and not swallowed[0] else None
            info = conn.exc_info[1] if recorded is not None else None
            got = 'ok log=%s ended=%d entered=%s recorded=%s info=%s reraised=%s cleanup=%s conn=%s rest=%d' % (
                ','.join(log) or '-', ended, show(entered[0][0]) if entered[0] else 'none', show(recorded),
                show(info), show(reraised), cl, connstr, len(rq))
            if entered[0] is not None and entered[0][0] is not entered[0][1]:
                got += ' EXCINFO-MISMATCH'
            cases.append((line, got, ended))
    finally:
        C.NetworkingThread.start = orig_start
        C.PacketReactor.handle_exception = orig_rh
    return cases


def normalise(model_reply, ended):
    """Drop the unobservable `fg:` / `df:` events; blank the slot flag of a still-running thread."""
    parts = model_reply.split(' ')
    out = []
    for p in parts:
        if p.startswith('log='):
            evs = [e for e in p[4:].split(',') if not (e.startswith('fg:') or e.startswith('df:'))]
            p = 'log=' + (','.join(evs) or '-')
        if p.startswith('conn=') and not ended:
            f = p[5:].split('/')
            f[0] = '*'
            p = 'conn=' + '/'.join(f)
        out.append(p)
    return ' '.join(out)


def run(ctx):
    """Correspondence run in the style of the other corr modules: called from corr/c14.py's run (the `thread`
    command is in the driver's handler list).  All randomness derives from ctx.rng."""
    import lib
    ctx.extra.setdefault('rule_c14compose', RULE)
    cases = make_cases(ctx.scale(600, 6000), ctx.rng.random(), lib.REPO)
    replies = ctx.driver.ask([c[0] for c in cases])
    for (line, got, ended), mo in zip(cases, replies):
        ctx.case(('t', line), sample={'op': 'thread', 'impl': got[:160]} if ctx.rng.random() < 0.01 else None)
        ctx.count('thread.cleanup.' + got.split(' cleanup=')[1].split(' ')[0] + ('' if ended else '.running'))
        if normalise(mo, ended) != got:
            ctx.disagree('thread run', line, mo, got)
    ctx.extra['c14compose_pairs'] = ctx.extra.get('c14compose_pairs', 0) + len(cases)


if __name__ == '__main__':
    n = int(sys.argv[1]) if len(sys.argv) > 1 else 300
    seed = sys.argv[2] if len(sys.argv) > 2 else '1'
    repo = sys.argv[3] if len(sys.argv) > 3 else '/repo'
    mut = sys.argv[4] if len(sys.argv) > 4 else None
    cases = make_cases(n, seed, repo)
    if mut:
        cases = [('thread.mut %s %s' % (mut, line[len('thread '):]), got, ended)
                 for line, got, ended in cases]
    sys.path.insert(0, os.path.dirname(os.path.dirname(os.path.abspath(__file__))))
    import lib
    try:
        outs = lib.Driver().ask([c[0] for c in cases])
    except lib.InfraError as e:
        print('driver failed', e)
        sys.exit(2)
    bad = 0
    stats = {}
    for (line, got, ended), mo in zip(cases, outs):
        key = got.split(' cleanup=')[1].split(' ')[0] + ('' if ended else ' running')
        stats[key] = stats.get(key, 0) + 1
        if normalise(mo, ended) != got:
            bad += 1
            if bad <= 5:
                print('DISAGREE\n  line : %s\n  model: %s\n  impl : %s' % (line, normalise(mo, ended), got))
    print('%d cases, %d disagreements; cleanup distribution %s' % (len(cases), bad, stats))
    sys.exit(1 if bad else 0)
