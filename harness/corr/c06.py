"""C06: id tables total + injective.  The tie is the tabulation itself (Generated/Ids.lean rebuilt
from the live code, theorems re-checked by the kernel).  The oracle recomputes totality/collisions
on the live classes directly and through the dict that PacketReactor builds."""
import extract

EXTRACT = ['ids', 'versions', 'gen.c06dispatch']
EXTRA_PROPS = ['C06Dispatch']

RULE = ("exhaustive: 8 state/direction tables x every known protocol version; a case = one "
        "(table, version) row; non-trivial = row with at least one registered class")


def run(ctx):
    import minecraft
    from minecraft.networking import connection as C
    ctx.extra['rule'] = RULE
    ctx.extra['exhaustive'] = True
    tabs = extract.id_tables()
    sup = set(minecraft.SUPPORTED_PROTOCOL_VERSIONS)
    unsupported_report = []
    for tname, rows in tabs.items():
        for pv, supported, ents in rows:
            ctx.case((tname, pv), nontrivial=bool(ents),
                     sample={'table': tname, 'version': pv, 'entries': ents[:4]})
            ctx.count('rows.' + tname)
            byid = {}
            for cls, i in ents:
                byid.setdefault(i, []).append(cls)
            bad_total = [cls for cls, i in ents if i is None or i < 0]
            coll = {i: sorted(c) for i, c in byid.items() if i is not None and len(c) > 1}
            if not supported:
                if bad_total or coll:
                    unsupported_report.append({'table': tname, 'version': pv,
                                               'no_id': bad_total, 'collisions': coll})
                continue
            for cls in bad_total:
                ctx.violation('%s: %s has no non-negative integer id at protocol %d'
                              % (tname, cls, pv), {'table': tname, 'version': pv, 'class': cls},
                              key={'table': tname, 'version': pv, 'class': cls, 'kind': 'no-id'})
            for i, classes in coll.items():
                ctx.violation('%s: id 0x%02X shared by %s at protocol %d'
                              % (tname, i, '/'.join(classes), pv),
                              {'table': tname, 'version': pv, 'id': i, 'classes': classes},
                              key={'table': tname, 'version': pv, 'id': i})
    # the dict the reactors really build: its size equals the number of classes iff injective
    reactors = {'cbLogin': C.LoginReactor, 'cbPlay': C.PlayingReactor, 'cbStatus': C.StatusReactor}

    class FakeConn:
        pass
    for tname, R in reactors.items():
        for pv, supported, ents in tabs[tname]:
            if not supported:
                continue
            fc = FakeConn()
            fc.context = C.ConnectionContext(protocol_version=pv)
            r = R(fc)
            ctx.case(('reactor', tname, pv))
            ids = {i for _, i in ents}
            if set(r.clientbound_packets) != ids:
                ctx.disagree('reactor dict keys differ from the tabulated ids', [tname, pv],
                             sorted(i for i in ids if i is not None),
                             sorted(r.clientbound_packets, key=repr))
            for i, cls in r.clientbound_packets.items():
                if cls.get_id(fc.context) != i:
                    ctx.violation('reactor maps id %r to %s whose id is %r' %
                                  (i, cls.__name__, cls.get_id(fc.context)),
                                  {'table': tname, 'version': pv, 'id': i},
                                  key={'table': tname, 'version': pv, 'id': i, 'kind': 'wrong-class'})
    # ONE context object whose version is reassigned (what Connection does on every connect / negotiation):
    # each reactor built on it must carry exactly the ids of the CURRENT version
    import random as _random
    wrng = _random.Random(ctx.seed)
    shared = FakeConn()
    shared.context = C.ConnectionContext(protocol_version=47)
    for tname, R in reactors.items():
        rows = {pv: ents for pv, supported, ents in tabs[tname] if supported}
        walk = [47, 757, 340, 754, 47] + [wrng.choice(sorted(rows)) for _ in range(ctx.scale(25, 250))]
        for pv in walk:
            if pv not in rows:
                continue
            shared.context.protocol_version = pv
            ctx.case(('reactor-walk', tname, pv))
            try:
                r = R(shared)
                keys = set(r.clientbound_packets)
            except Exception as e:
                keys = repr(e)
            ids = {i for _, i in rows[pv]}
            if keys != ids:
                ctx.violation('%s built on a context that was used for other versions before: at protocol %d its ids are %s, '
                              'the registered classes have %s' % (R.__name__, pv, sorted(keys, key=repr)[:8] if isinstance(keys, set) else keys,
                                                               sorted(i for i in ids if i is not None)[:8]),
                              {'table': tname, 'version': pv}, key={'table': tname, 'version': pv, 'kind': 'reused-context'})
                break
    # the documented re-initialisation entry points must leave the id tables as they are: the plain
    # `initglobals()` (after a user edited SUPPORTED_MINECRAFT_VERSIONS) and the full rebuild
    try:
        for mode, kw in (('initglobals()', {}), ('initglobals(use_known_records=True)', {'use_known_records': True})):
            try:
                minecraft.initglobals(**kw)
                again = extract.id_tables()
                err = None
            except Exception as e:
                again, err = None, repr(e)
            ctx.case(('reinit', mode))
            if err is not None or again != tabs:
                diff = err
                if diff is None:
                    for tname in tabs:
                        for r0, r1 in zip(tabs[tname], again[tname]):
                            if r0 != r1:
                                diff = '%s at protocol %d: %r -> %r' % (tname, r0[0], r0[2][:3], r1[2][:3])
                                break
                        if diff:
                            break
                    diff = diff or 'row sets differ (%d vs %d versions)' % (
                        sum(len(v) for v in tabs.values()), sum(len(v) for v in again.values()))
                ctx.violation('after minecraft.%s registered classes no longer resolve to the same ids: %s' % (mode, diff),
                              {'call': mode}, key={'kind': 'reinit', 'call': mode})
    finally:
        minecraft.initglobals(use_known_records=True)
    ctx.extra['unsupported_versions_report'] = unsupported_report[:40]
    ctx.extra['unsupported_versions_with_issues'] = len(unsupported_report)
    dispatch_tie(ctx)


def dispatch_tie(ctx):
    """Tie of Model/C06Dispatch.lean (driver c06dict / c06get / c06classes / c06resolve) to the real
    `PacketReactor.__init__` comprehension: a subclass whose `get_clientbound_packets` returns an ORDERED
    list of real packet classes (shuffled, truncated, with duplicates), built on a stub `.context`."""
    import minecraft
    from minecraft.networking import connection as C
    from minecraft.networking import packets
    rng = ctx.rng
    mods = [packets.clientbound.play, packets.clientbound.login, packets.clientbound.status,
            packets.serverbound.play]
    vers = sorted(minecraft.SUPPORTED_PROTOCOL_VERSIONS)
    k1 = [v for v in (317, 336, 337, 343, 344, 389, 390, 391, 392) if v in vers]

    class Stub:
        pass

    def reactor(order, context):
        class R(C.PacketReactor):
            get_clientbound_packets = staticmethod(lambda c, order=order: list(order))
        s = Stub()
        s.context = context
        return R(s)

    reqs, expect, cases = [], [], []

    def add(req, exp, case):
        reqs.append(req)
        expect.append(exp)
        cases.append(case)

    for n in range(ctx.scale(150, 1500)):
        pv = rng.choice(vers + k1 * 10) if k1 else rng.choice(vers)
        context = C.ConnectionContext(protocol_version=pv)
        mod = rng.choice(mods)
        classes = sorted(mod.get_packets(context), key=lambda c: c.__name__)
        classes = [c for c in classes if type(c.get_id(context)) is int]
        rng.shuffle(classes)
        order = classes[:rng.randint(0, len(classes))]
        if len(order) > 6 and rng.random() < 0.5:
            order = order[:rng.randint(0, 6)]
        if order and rng.random() < 0.2:      # the same class twice is legal in a list, too
            order.append(rng.choice(order))
        ents = [(c.__name__, c.get_id(context)) for c in order]
        tok = ','.join('%s:%d' % e for e in ents) or '-'
        r = reactor(order, context)
        items = sorted((k, v.__name__) for k, v in r.clientbound_packets.items())
        case = {'version': pv, 'ents': tok}
        add('c06dict ' + tok, 'ok ' + (','.join('%d:%s' % kv for kv in items) or '-'), case)
        for i in sorted(set([e[1] for e in ents][:3] + [rng.randint(0, 100)])):
            got = r.clientbound_packets.get(i)
            add('c06get %s %d' % (tok, i), 'ok ' + (got.__name__ if got else 'base'), dict(case, id=i))
            # c06classes: the candidates, in list order, computed from the real get_id values
            add('c06classes %s %d' % (tok, i),
                'ok ' + (','.join(c.__name__ for c in order if c.get_id(context) == i) or '-'), dict(case, id=i))
        # c06resolve: some get_id raises -> the constructor raises; otherwise the (class, key) pairs in the
        # order the comprehension evaluated them
        calls = []
        bad = set(j for j in range(len(order)) if rng.random() < 0.15) if rng.random() < 0.5 else set()
        wrapped = []
        for j, c in enumerate(order):
            def get_id(context_, c=c, j=j):
                if j in bad:
                    raise AttributeError('no id')
                i = c.get_id(context_)
                calls.append((c.__name__, i))
                return i
            wrapped.append(type(c.__name__, (c,), {'get_id': staticmethod(get_id)}))
        row = ','.join('%s:%s' % (n_, 'x' if j in bad else i) for j, (n_, i) in enumerate(ents)) or '-'
        try:
            reactor(wrapped, context)
            exp = 'ok ' + (','.join('%s:%d' % e for e in calls) or '-')
        except AttributeError:
            exp = 'none'
        add('c06resolve ' + row, exp, dict(case, row=row))
    outs = ctx.driver.ask(reqs)
    for req, exp, mo, case in zip(reqs, expect, outs, cases):
        ctx.case(('c06dispatch', req))
        ctx.count('dispatch.' + req.split()[0])
        if mo != exp:
            ctx.disagree('PacketReactor dict / lookup (%s)' % req.split()[0], dict(case, request=req), mo, exp)
    ctx.extra['c06dispatch_pairs'] = ctx.extra.get('c06dispatch_pairs', 0) + len(reqs)


def replay(ctx, rp):
    tabs = extract.id_tables()
    ok = True
    for v in rp.get('violations', []):
        c = v['case']
        row = [r for r in tabs[c['table']] if r[0] == c['version']][0]
        print(c, '->', row[2])
        ok = False
    return ok
