"""C06: id tables total + injective.  The tie is the tabulation itself (Generated/Ids.lean rebuilt
from the live code, theorems re-checked by the kernel).  The oracle recomputes totality/collisions
on the live classes directly and through the dict that PacketReactor builds."""
import extract

EXTRACT = ['ids']
RULE = ("exhaustive: 8 state/direction tables x every known protocol version; a case = one "
        "(table, version) row; non-trivial = row with at least one registered class")


def run(ctx):
    import minecraft
    from minecraft.networking import connection as C
    ctx.extra['rule'] = RULE
    ctx.extra['exhaustive'] = True
    tabs = extract.id_tables()
    sup = set(minecraft.SUPPORTED_PROTOCOL_VERSIONS)
    unsupported_report = []
    for tname, rows in tabs.items():
        for pv, supported, ents in rows:
            ctx.case((tname, pv), nontrivial=bool(ents),
                     sample={'table': tname, 'version': pv, 'entries': ents[:4]})
            ctx.count('rows.' + tname)
            byid = {}
            for cls, i in ents:
                byid.setdefault(i, []).append(cls)
            bad_total = [cls for cls, i in ents if i is None or i < 0]
            coll = {i: sorted(c) for i, c in byid.items() if i is not None and len(c) > 1}
            if not supported:
                if bad_total or coll:
                    unsupported_report.append({'table': tname, 'version': pv,
                                               'no_id': bad_total, 'collisions': coll})
                continue
            for cls in bad_total:
                ctx.violation('%s: %s has no non-negative integer id at protocol %d'
                              % (tname, cls, pv), {'table': tname, 'version': pv, 'class': cls},
                              key={'table': tname, 'version': pv, 'class': cls, 'kind': 'no-id'})
            for i, classes in coll.items():
                ctx.violation('%s: id 0x%02X shared by %s at protocol %d'
                              % (tname, i, '/'.join(classes), pv),
                              {'table': tname, 'version': pv, 'id': i, 'classes': classes},
                              key={'table': tname, 'version': pv, 'id': i})
    # the dict the reactors really build: its size equals the number of classes iff injective
    reactors = {'cbLogin': C.LoginReactor, 'cbPlay': C.PlayingReactor, 'cbStatus': C.StatusReactor}

    class FakeConn:
        pass
    for tname, R in reactors.items():
        for pv, supported, ents in tabs[tname]:
            if not supported:
                continue
            fc = FakeConn()
            fc.context = C.ConnectionContext(protocol_version=pv)
            r = R(fc)
            ctx.case(('reactor', tname, pv))
            ids = {i for _, i in ents}
            if set(r.clientbound_packets) != ids:
                ctx.disagree('reactor dict keys differ from the tabulated ids', [tname, pv],
                             sorted(i for i in ids if i is not None),
                             sorted(r.clientbound_packets, key=repr))
            for i, cls in r.clientbound_packets.items():
                if cls.get_id(fc.context) != i:
                    ctx.violation('reactor maps id %r to %s whose id is %r' %
                                  (i, cls.__name__, cls.get_id(fc.context)),
                                  {'table': tname, 'version': pv, 'id': i},
                                  key={'table': tname, 'version': pv, 'id': i, 'kind': 'wrong-class'})
    # the documented re-initialisation entry points must leave the id tables as they are: the plain
    # `initglobals()` (after a user edited SUPPORTED_MINECRAFT_VERSIONS) and the full rebuild
    try:
        for mode, kw in (('initglobals()', {}), ('initglobals(use_known_records=True)', {'use_known_records': True})):
            try:
                minecraft.initglobals(**kw)
                again = extract.id_tables()
                err = None
            except Exception as e:
                again, err = None, repr(e)
            ctx.case(('reinit', mode))
            if err is not None or again != tabs:
                diff = err
                if diff is None:
                    for tname in tabs:
                        for r0, r1 in zip(tabs[tname], again[tname]):
                            if r0 != r1:
                                diff = '%s at protocol %d: %r -> %r' % (tname, r0[0], r0[2][:3], r1[2][:3])
                                break
                        if diff:
                            break
                    diff = diff or 'row sets differ (%d vs %d versions)' % (
                        sum(len(v) for v in tabs.values()), sum(len(v) for v in again.values()))
                ctx.violation('after minecraft.%s registered classes no longer resolve to the same ids: %s' % (mode, diff),
                              {'call': mode}, key={'kind': 'reinit', 'call': mode})
    finally:
        minecraft.initglobals(use_known_records=True)
    ctx.extra['unsupported_versions_report'] = unsupported_report[:40]
    ctx.extra['unsupported_versions_with_issues'] = len(unsupported_report)


def replay(ctx, rp):
    tabs = extract.id_tables()
    ok = True
    for v in rp.get('violations', []):
        c = v['case']
        row = [r for r in tabs[c['table']] if r[0] == c['version']][0]
        print(c, '->', row[2])
        ok = False
    return ok
