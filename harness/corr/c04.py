"""C04: block position / chunk-section / multi-block record packings.
Tie: (1) layout flag tabulated for all 369 versions (Generated/PosLayout.lean, kernel-checked facts);
(2) byte-level correspondence real codec vs Lean model; oracle = reference packing written here."""
import io
import itertools

import extract
from lib import hx

EXTRACT = ['versions', 'poslayout', 'gen.c04codec']
EXTRA_PROPS = ['C04Codec', 'C04Wrap']

RULE = ("all 369 known versions x full product of per-axis boundary values (6x5x6 = 180 triples) x "
        "encode+decode; every single-bit and sign-boundary 64-bit word decoded under every version; "
        "seeded random triples; chunk-section positions and block records on both sides of protocol "
        "741; distinct by (version-flag, input)")


class Sink:
    def __init__(self):
        self.b = bytearray()

    def send(self, d):
        self.b += d


def ename(e):
    import struct
    if isinstance(e, struct.error):
        return 'struct'
    if isinstance(e, EOFError):
        return 'eof'
    if isinstance(e, ValueError) and 'too long' in str(e):
        return 'toolong'
    if isinstance(e, ValueError):
        return 'value'
    if isinstance(e, TypeError):
        return 'type'
    return type(e).__name__


def ref_word(newer, x, y, z):
    if newer:
        return ((x % 2 ** 26) * 2 ** 38 + (z % 2 ** 26) * 2 ** 12 + y % 2 ** 12).to_bytes(8, 'big')
    return ((x % 2 ** 26) * 2 ** 38 + (y % 2 ** 12) * 2 ** 26 + z % 2 ** 26).to_bytes(8, 'big')


def sx(v, bits):
    v %= 2 ** bits
    return v - 2 ** bits if v >= 2 ** (bits - 1) else v


def ref_unword(newer, w):
    n = int.from_bytes(w, 'big')
    x = sx(n >> 38, 26)
    if newer:
        return x, sx(n, 12), sx(n >> 12, 26)
    return x, sx(n >> 26, 12), sx(n, 26)


def run(ctx):
    import minecraft
    from minecraft.networking.connection import ConnectionContext
    from minecraft.networking.types import Position
    from minecraft.networking.packets.clientbound.play import MultiBlockChangePacket as MBC
    ctx.extra['rule'] = RULE
    rng = ctx.rng
    known = list(minecraft.KNOWN_PROTOCOL_VERSIONS)
    idx = minecraft.PROTOCOL_VERSION_INDICES
    table = dict(extract.pos_layout_table())
    # Model/C04Codec.lean: reader and writer each with its OWN version test, over the live version table
    from minecraft.networking.packets import PacketBuffer
    import io as _io
    vlines, vimpl = [], []
    for v in [rng.choice(known) for _ in range(ctx.scale(40, 369))] + [443, 442, 404, 476, 477, 740, 741, 9999]:
        cxv = ConnectionContext(protocol_version=v)
        x, y, z = rng.choice([0, -1, 33554431, -33554432, 5]), rng.choice([0, -1, 2047, -2048, 70]), rng.choice([0, -1, 33554431, -33554432, 7])
        buf = PacketBuffer()
        try:
            Position.send_with_context(Position(x, y, z), buf, cxv)
            data = buf.get_writable()
            vimpl.append('ok ' + data.hex())
        except KeyError:
            data = None
            vimpl.append('err:other')
        except Exception as e:
            data = None
            vimpl.append('raised:%s' % type(e).__name__)
        vlines.append('posv.enc live %d %d %d %d' % (v, x, y, z))
        raw = data if data is not None else bytes(rng.randrange(256) for _ in range(8))
        try:
            p_ = Position.read_with_context(_io.BytesIO(raw + b'\x2a'), cxv)
            vimpl.append('ok %d %d %d 2a' % (p_.x, p_.y, p_.z))
        except KeyError:
            vimpl.append('err:other')
        except Exception as e:
            vimpl.append('raised:%s' % type(e).__name__)
        vlines.append('posv.dec live %d %s' % (v, (raw + b'\x2a').hex()))
        rx, ry, rz, bid = rng.randrange(16), rng.randrange(16), rng.randrange(16), rng.choice([0, 1, 300, 2 ** 20, 2 ** 32 + 5])
        buf = PacketBuffer()
        try:
            MBC.Record.send_with_context(MBC.Record(x=rx, y=ry, z=rz, block_state_id=bid), buf, cxv)
            rdata = buf.get_writable()
            vimpl.append('ok ' + rdata.hex())
            vlines.append('recordv.enc live %d %d %d %d %d' % (v, rx, ry, rz, bid))
            r_ = MBC.Record.read_with_context(_io.BytesIO(rdata + b'\x77'), cxv)
            vimpl.append('ok %d %d %d %d 77' % (r_.x, r_.y, r_.z, r_.block_state_id))
            vlines.append('recordv.dec live %d %s' % (v, (rdata + b'\x77').hex()))
        except KeyError:
            vimpl.append('err:other')
            vlines.append('recordv.enc live %d %d %d %d %d' % (v, rx, ry, rz, bid))
        except Exception as e:
            vimpl.append('err:%s' % type(e).__name__)
            vlines.append('recordv.enc live %d %d %d %d %d' % (v, rx, ry, rz, bid))
    for line, mo, g in zip(vlines, ctx.driver.ask(vlines), vimpl):
        ctx.case(('codec-by-version', line))
        if mo != g and not (g.startswith('err:') and mo.startswith('err:')):
            ctx.disagree('Position / Record codec under a version (reader and writer tests separate)', line, mo, g)
    # ---- oracle on the table itself (the property's version clause), recomputed live
    flags = [table[v] for v in known]
    for v in known:
        f = table[v]
        want = None
        if idx[v] >= idx[477]:
            want = 1
        elif idx[v] <= idx[404]:
            want = 0
        ctx.case(('layout', v), sample={'version': v, 'layout': f})
        if f == 2 or (want is not None and f != want):
            ctx.violation('protocol %d packs positions with %s' % (v, ['x,y,z', 'x,z,y', 'neither layout'][f]),
                          {'version': v, 'layout': f, 'required': want}, key={'version': v, 'kind': 'layout'})
    if 2 not in flags and flags != sorted(flags):
        ctx.violation('more than one switch-over between the two layouts',
                      {'flags': flags}, key={'kind': 'switch'})
    # ---- byte correspondence
    X = [-2 ** 25, -2 ** 25 + 1, -1, 0, 1, 2 ** 25 - 1]
    Y = [-2 ** 11, -1, 0, 1, 2 ** 11 - 1]
    triples = list(itertools.product(X, Y, X))
    triples += [(rng.randrange(-2 ** 25, 2 ** 25), rng.randrange(-2 ** 11, 2 ** 11),
                 rng.randrange(-2 ** 25, 2 ** 25)) for _ in range(ctx.scale(120, 3000))]
    words = [(1 << k).to_bytes(8, 'big') for k in range(64)]
    words += [bytes(8), b'\xff' * 8] + [((1 << k) - 1).to_bytes(8, 'big') for k in (12, 26, 38, 63)]
    words += [((1 << 63) | (1 << k)).to_bytes(8, 'big') for k in (11, 25, 37)]
    words += [bytes(rng.randrange(256) for _ in range(8)) for _ in range(ctx.scale(50, 2000))]
    menc = {}
    for nf in (0, 1):
        outs = ctx.driver.ask(['pos.enc %d %d %d %d' % ((nf,) + t) for t in triples])
        for t, o in zip(triples, outs):
            menc[(nf, t)] = o
        outs = ctx.driver.ask(['pos.dec %d %s' % (nf, hx(w + b'\x99')) for w in words])
        for w, o in zip(words, outs):
            menc[(nf, w)] = o
    vers = known if (ctx.thorough or ctx.searching) else \
        [v for v in known if idx[v] % 3 == ctx.seed % 3 or v in (47, 404, 440, 441, 442, 443, 477, 757)
         or abs(idx[v] - idx[443]) < 6]
    ctx.extra['versions_byte_checked'] = len(vers)
    for v in vers:
        c = ConnectionContext(protocol_version=v)
        nf = table[v]
        if nf == 2:
            continue
        for t in triples:
            s = Sink()
            try:
                Position.send_with_context(Position(*t), s, c)
                got = 'ok ' + hx(s.b)
            except Exception as e:
                got = 'err:' + ename(e)
            ctx.case((nf, 'enc', t), sample={'version': v, 'xyz': t, 'impl': got})
            if got != menc[(nf, t)]:
                ctx.disagree('Position.send', [v, t], menc[(nf, t)], got)
            want = ref_word(nf, *t)
            ok = got == 'ok ' + hx(want)
            if ok:
                try:
                    p = Position.read_with_context(io.BytesIO(bytes(s.b)), c)
                    ok = (p.x, p.y, p.z) == t
                    got += ' -> %r' % ((p.x, p.y, p.z),)
                except Exception as e:
                    ok = False
                    got += ' -> raised ' + ename(e)
            if not ok:
                ctx.violation('position %r under protocol %d: expected word %s decoding to itself'
                              % (t, v, want.hex()), {'version': v, 'xyz': t, 'impl': got},
                              key={'version': v, 'xyz': list(t)})
        for w in words:
            f = io.BytesIO(w + b'\x99')
            try:
                p = Position.read_with_context(f, c)
                got = 'ok %d %d %d %s' % (p.x, p.y, p.z, hx(f.read()))
            except Exception as e:
                got = 'err:' + ename(e)
            ctx.case((nf, 'dec', w))
            if got != menc[(nf, w)]:
                ctx.disagree('Position.read', [v, hx(w)], menc[(nf, w)], got)
            if got != 'ok %d %d %d 99' % ref_unword(nf, w):
                ctx.violation('word %s under protocol %d decodes wrongly' % (w.hex(), v),
                              {'version': v, 'word': w.hex(), 'impl': got},
                              key={'version': v, 'word': w.hex()})
    # ---- coordinates OUTSIDE the signed ranges (Props/C04Wrap: mask on send, sign-extend on read, so
    # the value read back is the coordinate wrapped into its range).  The property speaks about
    # in-range positions only, so this comparison is RECORDED in the evidence and never judged: a
    # range check added to Position.send is not an alarm.
    def wrapk(v, k):
        return (v + 2 ** (k - 1)) % 2 ** k - 2 ** (k - 1)
    WX = [2 ** 25, 2 ** 25 + 1, -2 ** 25 - 1, 2 ** 26, -2 ** 26, 2 ** 26 + 5, 2 ** 40 + 3, -2 ** 63, 7]
    WY = [2 ** 11, -2 ** 11 - 1, 2 ** 12, 2 ** 12 + 9, -2 ** 30, 5]
    wild = [t for t in itertools.product(WX, WY, WX)
            if not (-2 ** 25 <= t[0] < 2 ** 25 and -2 ** 11 <= t[1] < 2 ** 11 and -2 ** 25 <= t[2] < 2 ** 25)]
    wild += [(rng.randrange(-2 ** 70, 2 ** 70), rng.randrange(-2 ** 20, 2 ** 20), rng.randrange(-2 ** 70, 2 ** 70))
             for _ in range(ctx.scale(60, 600))]
    for nf in (0, 1):
        v = next((u for u in known if table[u] == nf), None)
        if v is None:
            continue
        c = ConnectionContext(protocol_version=v)
        outs = ctx.driver.ask(['pos.enc %d %d %d %d' % ((nf,) + t) for t in wild])
        for t, mo in zip(wild, outs):
            s = Sink()
            try:
                Position.send_with_context(Position(*t), s, c)
                got = 'ok ' + hx(s.b)
                p = Position.read_with_context(io.BytesIO(bytes(s.b)), c)
                back = (p.x, p.y, p.z)
            except Exception as e:
                got, back = 'err:' + ename(e), None
            ctx.count('pos.wild.' + got.split()[0])
            if got != mo or back != (wrapk(t[0], 26), wrapk(t[1], 12), wrapk(t[2], 26)):
                ctx.count('pos.wild.differs-from-model(recorded, not judged)')
    # ---- ONE long-lived context whose protocol_version is reassigned (what Connection.connect() does
    # after negotiation and on every reconnect): the layout must follow the CURRENT version
    walk = [404, 477, 404, 757, 340, 498, 47, 443, 442, 443, 757, 404]
    walk += [rng.choice(known) for _ in range(ctx.scale(40, 400))]
    shared = ConnectionContext(protocol_version=walk[0])
    for v in walk:
        if v not in idx or table.get(v) == 2:
            continue
        shared.protocol_version = v
        nf = table[v]
        t = rng.choice(triples)
        s = Sink()
        Position.send_with_context(Position(*t), s, shared)
        back = Position.read_with_context(io.BytesIO(bytes(s.b)), shared)
        ctx.case(('reuse', v, t))
        ctx.count('reused_context_steps')
        if bytes(s.b) != ref_word(nf, *t) or (back.x, back.y, back.z) != t:
            ctx.violation('reused context now at protocol %d: position %r encodes to %s (expected %s)'
                          % (v, t, bytes(s.b).hex(), ref_word(nf, *t).hex()),
                          {'walk': walk[:walk.index(v) + 1][-6:], 'version': v, 'xyz': t},
                          key={'reuse': v, 'xyz': list(t)})
    # ---- what is handed to the sink is that position's word for good: a sink may keep the chunks it is given (a gather
    # list, a write queue) and look at them later, after further positions have been encoded
    class Keep:
        def __init__(self):
            self.chunks = []

        def send(self, d):
            self.chunks.append(d)             # no copy: exactly the object the library passed
    for v in [x for x in (47, 404, 477, 578, 757) if x in idx]:
        c = ConnectionContext(protocol_version=v)
        nf = idx[v] >= idx[477]
        ts = [(rng.randrange(-2 ** 25, 2 ** 25), rng.randrange(-2 ** 11, 2 ** 11), rng.randrange(-2 ** 25, 2 ** 25)) for _ in range(5)]
        k = Keep()
        for t in ts:
            Position.send_with_context(Position(*t), k, c)
        ctx.case(('retained-chunks', v, tuple(ts)))
        got = b''.join(bytes(ch) for ch in k.chunks)
        want = b''.join(ref_word(nf, *t) for t in ts)
        if got != want:
            firstbad = next((i for i in range(len(ts)) if got[8 * i:8 * i + 8] != want[8 * i:8 * i + 8]), None)
            ctx.violation('five positions encoded one after the other into a sink that keeps the chunks it is given (protocol %d): looked '
                          'at afterwards, chunk #%r holds %s, the word of position %r is %s'
                          % (v, firstbad, got[8 * (firstbad or 0):8 * (firstbad or 0) + 8].hex(), ts[firstbad or 0],
                             want[8 * (firstbad or 0):8 * (firstbad or 0) + 8].hex()),
                          {'version': v, 'positions': ts}, key={'kind': 'retained-chunks', 'version': v})
    # ---- chunk section positions (22/22/20)
    SX = [-2 ** 21, -2 ** 21 + 1, -1, 0, 1, 2 ** 21 - 1]
    SY = [-2 ** 19, -1, 0, 1, 2 ** 19 - 1]
    secs = list(itertools.product(SX, SY, SX)) + \
        [(rng.randrange(-2 ** 21, 2 ** 21), rng.randrange(-2 ** 19, 2 ** 19), rng.randrange(-2 ** 21, 2 ** 21))
         for _ in range(ctx.scale(200, 5000))]
    outs = ctx.driver.ask(['secpos.enc %d %d %d' % t for t in secs])
    CSP = MBC.ChunkSectionPos
    for t, mo in zip(secs, outs):
        s = Sink()
        try:
            CSP.send(CSP(*t), s)
            got = 'ok ' + hx(s.b)
        except Exception as e:
            got = 'err:' + ename(e)
        ctx.case(('sec', t))
        if got != mo:
            ctx.disagree('ChunkSectionPos.send', t, mo, got)
        x, y, z = t
        want = ((x % 2 ** 22) * 2 ** 42 + (z % 2 ** 22) * 2 ** 20 + y % 2 ** 20).to_bytes(8, 'big')
        back = None
        if got == 'ok ' + hx(want):
            p = CSP.read(io.BytesIO(want))
            back = (p.x, p.y, p.z)
        if back != t:
            ctx.violation('chunk section position %r: expected %s decoding to itself' % (t, want.hex()),
                          {'xyz': t, 'impl': got, 'decoded': back}, key={'secpos': list(t)})
    # out-of-range section positions (Props/C04Wrap.section_wraps): recorded, never judged
    wsecs = [t for t in itertools.product([2 ** 21, -2 ** 21 - 1, 2 ** 22 + 3, -2 ** 50, 4],
                                          [2 ** 19, -2 ** 19 - 1, 2 ** 20 + 7, 2],
                                          [2 ** 21, -2 ** 21 - 1, 2 ** 40, 6])
             if not (-2 ** 21 <= t[0] < 2 ** 21 and -2 ** 19 <= t[1] < 2 ** 19 and -2 ** 21 <= t[2] < 2 ** 21)]
    wsecs += [(rng.randrange(-2 ** 66, 2 ** 66), rng.randrange(-2 ** 30, 2 ** 30), rng.randrange(-2 ** 66, 2 ** 66))
              for _ in range(ctx.scale(60, 600))]
    outs = ctx.driver.ask(['secpos.enc %d %d %d' % t for t in wsecs])
    for t, mo in zip(wsecs, outs):
        s = Sink()
        try:
            CSP.send(CSP(*t), s)
            got = 'ok ' + hx(s.b)
            p = CSP.read(io.BytesIO(bytes(s.b)))
            back = (p.x, p.y, p.z)
        except Exception as e:
            got, back = 'err:' + ename(e), None
        ctx.count('secpos.wild.' + got.split()[0])
        if got != mo or back != (wrapk(t[0], 22), wrapk(t[1], 20), wrapk(t[2], 22)):
            ctx.count('secpos.wild.differs-from-model(recorded, not judged)')
    swords = words[:80]
    outs = ctx.driver.ask(['secpos.dec %s' % hx(w) for w in swords])
    for w, mo in zip(swords, outs):
        f = io.BytesIO(w)
        p = CSP.read(f)
        got = 'ok %d %d %d %s' % (p.x, p.y, p.z, hx(f.read()))
        ctx.case(('secdec', w))
        if got != mo:
            ctx.disagree('ChunkSectionPos.read', hx(w), mo, got)
    # ---- multi-block-change records either side of 741
    for v in (47, 404, 578, 736, 740, 741, 745, 757):
        if v not in idx:
            continue
        c = ConnectionContext(protocol_version=v)
        new = idx[v] >= idx[741]
        recs = list(itertools.product([0, 1, 15], [0, 1, 15] + ([] if new else [16, 255]), [0, 1, 15],
                                      [0, 1, 127, 128, 2 ** 14, 2 ** 21 - 1, 2 ** 31 - 1]))
        recs += [(rng.randrange(16), rng.randrange(16 if new else 256), rng.randrange(16),
                  rng.randrange(2 ** 20)) for _ in range(ctx.scale(100, 2000))]
        outs = ctx.driver.ask(['record.enc %d %d %d %d %d' % ((1 if new else 0,) + r) for r in recs])
        for r, mo in zip(recs, outs):
            x, y, z, bs = r
            s = Sink()
            try:
                MBC.Record.send_with_context(MBC.Record(x=x, y=y, z=z, block_state_id=bs), s, c)
                got = 'ok ' + hx(s.b)
            except Exception as e:
                got = 'err:' + ename(e)
            ctx.case((new, 'rec', r), sample={'version': v, 'record': r, 'impl': got})
            if got != mo:
                ctx.disagree('Record.send', [v, r], mo, got)
            back = None
            if got.startswith('ok'):
                f = io.BytesIO(bytes(s.b) + b'\x55')
                q = MBC.Record.read_with_context(f, c)
                back = (q.x, q.y, q.z, q.block_state_id, f.read())
            if back != (x, y, z, bs, b'\x55'):
                ctx.violation('block record %r under protocol %d does not round-trip' % (r, v),
                              {'version': v, 'record': r, 'impl': got, 'decoded': repr(back)},
                              key={'version': v, 'record': list(r)})
    # ---- the record packing at EVERY known version (supported or not, development snapshots included): the packed form
    # (one VarLong: state << 12 | x << 8 | z << 4 | y) from 20w29a (protocol 741) on, byte/byte/VarInt before; the packet
    # header and the chunk-section position switch at the same version, so the two must agree everywhere
    import refcodec as rc_
    for v in sorted(idx, key=idx.get):
        c = ConnectionContext(protocol_version=v)
        new = idx[v] >= idx[741]
        for _ in range(2):
            x, y, z, bs = rng.randrange(16), rng.randrange(16 if new else 256), rng.randrange(16), rng.choice([0, 1, 4095, rng.randrange(2 ** 20)])
            want = rc_.varint(bs << 12 | x << 8 | z << 4 | y) if new else bytes([x << 4 | z, y]) + rc_.varint(bs)
            s = Sink()
            back = None
            try:
                MBC.Record.send_with_context(MBC.Record(x=x, y=y, z=z, block_state_id=bs), s, c)
                got = bytes(s.b)
                f = io.BytesIO(want + b'\x55')
                q = MBC.Record.read_with_context(f, c)
                back = (q.x, q.y, q.z, q.block_state_id, f.read())
            except Exception as e:
                got = 'err:' + ename(e)
            ctx.case(('rec-all-versions', v, x, y, z, bs))
            if got != want or back != (x, y, z, bs, b'\x55'):
                ctx.violation('block record %r under known protocol %d (%s 741 in release order): encodes to %s, the %s form is %s; '
                              'that form decodes to %r' % ((x, y, z, bs), v, 'at or after' if new else 'before',
                                                           got.hex() if isinstance(got, bytes) else got,
                                                           'packed VarLong' if new else 'byte/byte/VarInt', want.hex(), back),
                              {'version': v, 'record': [x, y, z, bs]}, key={'kind': 'record-all-versions', 'version': v})
                break


def replay(ctx, rp):
    for v in rp.get('violations', []):
        print(v)
    return not rp.get('violations')
