"""C13: listener dispatch order / exactly-once / ignore locality, on the sequential simnet."""
import refcodec as rc
import refproto as rp
import types
import simnet
from refserver import RefServer

EXTRA_PROPS = ['C13Roles']

EXTRACT = ['gen.c13roles']

RULE = ("random listener configurations (0..4 listeners in each of the four classes early/ordinary x "
        "incoming/outgoing; type filters drawn from the real packet class hierarchy incl. Packet, the "
        "abstract bases and unrelated classes, 0..3 types each; a random subset raising IgnorePacket) x "
        "server packet histories in login and play states (set-compression, plugin request, success, "
        "keep-alives, position-and-look, unknown ids, chat) and client-written packets; distinct by "
        "(configuration, packet)")


def run(ctx):
    import minecraft.networking.connection as C
    from minecraft.networking import packets as P
    from minecraft.networking.packets import clientbound as cb, serverbound as sb
    from minecraft.exceptions import IgnorePacket
    ctx.extra['rule'] = RULE
    rng = ctx.rng
    V = 757
    # class hierarchy used for filters (real classes) -> small integers for the model
    pool = [P.Packet, P.AbstractKeepAlivePacket, P.AbstractPluginMessagePacket, cb.play.KeepAlivePacket,
            sb.play.KeepAlivePacket, cb.play.PlayerPositionAndLookPacket, cb.play.ChatMessagePacket,
            cb.login.SetCompressionPacket, cb.login.PluginRequestPacket, cb.login.LoginSuccessPacket,
            cb.play.DisconnectPacket, sb.play.ChatPacket, sb.play.TeleportConfirmPacket,
            sb.login.PluginResponsePacket, cb.play.JoinGamePacket]
    cid = {c: i + 1 for i, c in enumerate(pool)}

    def nearest(c):
        """ids of the nearest ancestors of c that are in the pool (direct edges of the restricted order)"""
        out = []
        for b in c.__mro__[1:]:
            if b in cid and not any(issubclass(o, b) for o in out):
                out.append(b)
        return out
    edges = []
    for c in pool:
        for b in nearest(c):
            edges.append('%d:%d' % (cid[c], cid[b]))
    hier = ','.join(edges) or '-'

    def class_of(pkt):
        for c in type(pkt).__mro__:
            if c in cid:
                return cid[c]
        return 0

    lines, impl = [], []
    react_wrapped = {}
    for R in (C.LoginReactor, C.PlayingReactor):
        react_wrapped[R] = R.react
    for trial in range(ctx.scale(60, 700)):
        log = []
        lst = {}
        lid = [0]

        def mk(kind, types_=None):
            lid[0] += 1
            me = lid[0]
            if types_ is None:
                types_ = rng.sample(pool, rng.randrange(0, 4)) if rng.random() < 0.85 else [P.Packet]
            ign = rng.random() < 0.25

            def cb_(pkt, me=me, ign=ign, kind=kind):
                log.append((kind, me))
                if ign:
                    raise IgnorePacket
            lst[me] = (kind, types_, ign)
            return cb_, types_
        cfg = {'version': V, 'script': [
            ('compress', 256) if trial % 3 == 0 else ('plugin', 4, 'chan', b'xy'),
            ('plugin', 9, 'c2', b''), ('success',), ('keepalive', 11), ('poslook', 1.0, 2.0, 3.0, 0.0, 0.0, 0, 5),
            ('raw', 0x7E, b'unknown-payload'), ('raw', rp.packet_id('chat_cb', V), rc.string('{"text":"hi"}') + b'\x00' + bytes(16)),
            ('keepalive', 12)]}
        order = []     # registration order with flags
        try:
            def wrap(R):
                orig = react_wrapped[R]

                def react(self, packet):
                    log.append(('R', 0))
                    return orig(self, packet)
                R.react = react
            for R in react_wrapped:
                wrap(R)
            orig_react = C.Connection._react

            def _react(self, packet):
                log.append(('PKT', class_of(packet), type(packet).__name__))
                return orig_react(self, packet)
            C.Connection._react = _react
            with simnet.Net(lambda s: RefServer(s, cfg)) as net:
                conn = C.Connection('h', 1, username='u', allowed_versions={V},
                                    handle_exception=lambda e, i: log.append(('EXC', repr(e))))
                n_each = [rng.randrange(0, 5) for _ in range(4)]
                regs = [(k, e, o) for k, (e, o) in enumerate([(True, False), (False, False), (True, True), (False, True)])
                        for _ in range(n_each[k])]
                rng.shuffle(regs)
                for k, early, outgoing in regs:
                    kind_ = ('e' if early else 'o') + ('O' if outgoing else 'I')
                    f, types_ = mk(kind_)
                    how = rng.random()
                    if how < 0.6:
                        conn.register_packet_listener(f, *types_, early=early, outgoing=outgoing)
                    else:
                        # the documented decorator form; one decorator object may be applied to several handlers
                        dec = conn.listener(*types_, early=early, outgoing=outgoing)
                        if dec(f) is not f:
                            ctx.violation('the listener() decorator does not return the handler it was applied to', {},
                                          key={'kind': 'decorator-return'})
                        ctx.count('registered.by-decorator')
                        if how > 0.8:
                            f2, _ = mk(kind_, types_)
                            dec(f2)
                            ctx.count('registered.decorator-reused')
                conn.connect()
                net.run_threads()
                srv = cfg['servers'][0]
                # client-written packets while the connection is still open
                out_marks = []
                if not any(x[0] == 'EXC' for x in log) and not net.sockets[0].closed_by_client:
                    for pk in (sb.play.ChatPacket(message='hello'), sb.play.TeleportConfirmPacket(teleport_id=3),
                               sb.play.KeepAlivePacket(keep_alive_id=77)):
                        before = len(srv.frames)
                        log.append(('OUT', class_of(pk), type(pk).__name__))
                        try:
                            conn.write_packet(pk, force=True)
                        except IgnorePacket:
                            ctx.violation('IgnorePacket raised by an outgoing listener escaped to the caller of '
                                          'write_packet(force=True)', {'packet': type(pk).__name__},
                                          key={'kind': 'ignore-escapes', 'packet': type(pk).__name__})
                        log.append(('W', len(srv.frames) - before))
        finally:
            for R, f in react_wrapped.items():
                R.react = f
            C.Connection._react = orig_react
        # listener lists in registration order per class
        def ltok(kind):
            xs = ['%d/%s/%d' % (i, '+'.join(str(cid[t]) for t in ts) or '_', ign)
                  for i, (k, ts, ign) in sorted(lst.items()) if k == kind]
            return ';'.join(xs) or '-'
        # split the log per packet
        i = 0
        while i < len(log):
            ev = log[i]
            if ev[0] == 'PKT':
                j = i + 1
                seg = []
                while j < len(log) and log[j][0] in ('eI', 'oI', 'R'):
                    seg.append(log[j])
                    j += 1
                if j < len(log) and log[j][0] == 'EXC':
                    # the reaction (or a decoder fed by a deliberately ignored set-compression) raised a real
                    # exception while this packet was processed: that is C14's subject, and the connection
                    # state is gone, so the rest of this trial is not judged here
                    ctx.count('in.aborted-by-exception')
                    break
                shown = ','.join('R' if k == 'R' else ('e%d' % n if k == 'eI' else 'o%d' % n) for k, n in seg) or '-'
                # ignored? = a listener flagged ignore was the last call
                last_ign = bool(seg) and seg[-1][0] != 'R' and lst[seg[-1][1]][2]
                lines.append('dispatch.in %s %s %s 0 %d' % (hier, ltok('eI'), ltok('oI'), ev[1]))
                impl.append('ok %s ignored=%d' % (shown, last_ign))
                ctx.case(('in', lines[-1]), sample={'packet': ev[2], 'early': ltok('eI'), 'ordinary': ltok('oI'), 'calls': shown})
                ctx.count('in.' + ev[2])
                # ---- oracle (independent of the model): order, exactly once, ignore stops
                pcls = [c for c in pool if cid[c] == ev[1]]
                def matches(n):
                    return bool(pcls) and any(issubclass(pcls[0], t) for t in lst[n][1])
                exp = []
                stop = False
                for n in [n for n, (k, _, _) in sorted(lst.items()) if k == 'eI']:
                    if matches(n) and not stop:
                        exp.append('e%d' % n)
                        stop = lst[n][2]
                if not stop:
                    exp.append('R')
                    for n in [n for n, (k, _, _) in sorted(lst.items()) if k == 'oI']:
                        if matches(n) and not stop:
                            exp.append('o%d' % n)
                            stop = lst[n][2]
                if shown != (','.join(exp) or '-'):
                    ctx.violation('incoming %s: listeners ran %s, documented order gives %s' % (ev[2], shown, ','.join(exp)),
                                  {'packet': ev[2], 'early': ltok('eI'), 'ordinary': ltok('oI'), 'calls': shown},
                                  key={'in': lines[-1]})
                i = j
            elif ev[0] == 'OUT':
                j = i + 1
                seg = []
                while j < len(log) and log[j][0] in ('eO', 'oO', 'W', 'PKT', 'R', 'eI', 'oI'):
                    if log[j][0] == 'W':
                        wrote = log[j][1]
                        j += 1
                        break
                    if log[j][0] in ('eO', 'oO'):
                        seg.append(log[j])
                    j += 1
                # position of the write: frames reach the server synchronously, so 'W' sits after the
                # last early-outgoing call; reconstruct the sequence e…, W, o…
                shown = [('e%d' % n) for k, n in seg if k == 'eO']
                if wrote:
                    shown.append('W')
                shown += [('o%d' % n) for k, n in seg if k == 'oO']
                lines.append('dispatch.out %s %s %s %d' % (hier, ltok('eO'), ltok('oO'), ev[1]))
                impl.append('ok ' + (','.join(shown) or '-'))
                ctx.case(('out', lines[-1]), sample={'packet': ev[2], 'calls': ','.join(shown)})
                ctx.count('out.' + ev[2])
                pcls = [c for c in pool if cid[c] == ev[1]][0]
                def matches(n):
                    return any(issubclass(pcls, t) for t in lst[n][1])
                exp, stop = [], False
                for n in [n for n, (k, _, _) in sorted(lst.items()) if k == 'eO']:
                    if matches(n) and not stop:
                        exp.append('e%d' % n)
                        stop = lst[n][2]
                if not stop:
                    exp.append('W')
                    for n in [n for n, (k, _, _) in sorted(lst.items()) if k == 'oO']:
                        if matches(n) and not stop:
                            exp.append('o%d' % n)
                            stop = lst[n][2]
                # order within the real run: every early call before the frame reached the server
                if shown != exp or wrote not in (0, 1):
                    ctx.violation('outgoing %s: %s, documented %s' % (ev[2], shown, exp),
                                  {'packet': ev[2], 'calls': shown, 'frames': wrote}, key={'out': lines[-1]})
                i = j
            else:
                i += 1
    # ---- the SAME callable registered several times (each registration is a listener of its own, at its own
    # place in the registration order), in each of the four groups
    for early in (False, True):
        for outgoing in (False, True):
            calls = []
            cfg = {'version': V, 'script': [('success',), ('keepalive', 5)]}
            with simnet.Net(lambda s: RefServer(s, cfg)) as net:
                conn = C.Connection('h', 1, username='u', allowed_versions={V}, handle_exception=lambda e, i: calls.append(('EXC', repr(e))))
                KA = sb.play.KeepAlivePacket if outgoing else cb.play.KeepAlivePacket
                OTHER = sb.play.ChatPacket if outgoing else cb.play.ChatMessagePacket

                def f(pkt):
                    if isinstance(pkt, P.AbstractKeepAlivePacket):
                        calls.append('f')

                def g(pkt):
                    calls.append('g')
                    if early:
                        raise IgnorePacket
                conn.register_packet_listener(f, OTHER, early=early, outgoing=outgoing)     # registration 1: no match
                conn.register_packet_listener(g, KA, early=early, outgoing=outgoing)        # registration 2
                conn.register_packet_listener(f, KA, early=early, outgoing=outgoing)        # registration 3: same callable
                conn.register_packet_listener(f, P.AbstractKeepAlivePacket, early=early, outgoing=outgoing)   # registration 4
                conn.connect()
                net.run_threads()
            ctx.case(('same-callable', early, outgoing))
            # early: g (registered before f's matching registrations) ignores the packet -> f never runs;
            # otherwise g, then f once per matching registration
            want = ['g'] if early else ['g', 'f', 'f']
            if calls != want:
                ctx.violation('%s %s listeners, one callable registered three times (types: unrelated, KeepAlive, abstract '
                              'KeepAlive) around another listener: calls %r, registration order gives %r'
                              % ('early' if early else 'ordinary', 'outgoing' if outgoing else 'incoming', calls, want),
                              {'early': early, 'outgoing': outgoing, 'calls': calls}, key={'kind': 'same-callable', 'early': early, 'outgoing': outgoing})
    # ---- a queued packet whose write fails (the peer is gone) while a server disconnect is already readable: the
    # library forgives the write error and flushes on disconnect; every outgoing listener still runs at most once
    # per packet
    for variant in range(ctx.scale(4, 12)):
        counts = {}
        cfg = {'version': V, 'script': [('success',), ('keepalive', 5)]}
        orig_send = simnet.FakeSocket.send
        state = {'skip': 10 ** 9, 'fails': 0}

        def failing_send(self_, data):
            if state['skip'] > 0:
                state['skip'] -= 1
            elif state['fails'] > 0:
                state['fails'] -= 1
                raise BrokenPipeError(32, 'Broken pipe')
            return orig_send(self_, data)

        class KickServer(RefServer):
            """answers the client's keep-alive reply with a play-state disconnect"""
            def handle(self, pid, payload):
                if self.state == 'play' and pid == rp.packet_id('keep_alive_sb', V):
                    self.send_packet(rp.packet_id('disconnect_play', V), rc.string('{"text":"bye"}'))
                    return
                return RefServer.handle(self, pid, payload)
        simnet.FakeSocket.send = failing_send
        try:
            with simnet.Net(lambda s: KickServer(s, cfg)) as net:
                conn = C.Connection('h', 1, username='u', allowed_versions={V}, handle_exception=lambda e, i: counts.setdefault('exc', []).append(repr(e)))

                def count_early(pkt):
                    counts[('early', id(pkt))] = counts.get(('early', id(pkt)), 0) + 1

                def count_late(pkt):
                    counts[('late', id(pkt))] = counts.get(('late', id(pkt)), 0) + 1
                pks = [sb.play.ChatPacket(message='m%d' % k) for k in range(1 + variant % 3)]

                def on_keepalive(pkt):
                    # on the networking thread, after the built-in reaction queued its reply: queue our packets;
                    # the two sends of the keep-alive reply still pass, from then on the peer is gone
                    for pk in pks:
                        conn.write_packet(pk)
                    state['skip'], state['fails'] = 2, 1 + variant // 3 % 2
                conn.register_packet_listener(count_early, sb.play.ChatPacket, outgoing=True, early=True)
                conn.register_packet_listener(count_late, sb.play.ChatPacket, outgoing=True)
                conn.register_packet_listener(on_keepalive, cb.play.KeepAlivePacket)
                conn.connect()
                net.run_threads()
        finally:
            simnet.FakeSocket.send = orig_send
        ctx.case(('write-fails-then-disconnect', variant))
        worst = max([n for k, n in counts.items() if isinstance(k, tuple)] or [0])
        if worst > 1:
            ctx.violation('a queued packet whose write failed was offered to an outgoing listener %d times (write error, then the '
                          'flush of the server-initiated disconnect)' % worst, {'variant': variant}, key={'kind': 'write-fails-then-disconnect'})
    # ---- a burst: more packets readable back to back than one networking-loop batch takes (and, in a variant, a listener
    # that queues outgoing packets so that writes use up part of the batch): every packet still passes all three stages
    for variant in range(ctx.scale(6, 40)):
        nburst = [49, 50, 51, 52, 101, 150][variant % 6]
        queue_out = variant // 6 % 2 == 1 or variant % 4 == 3
        ids = [rng.randrange(1, 2 ** 20) for _ in range(nburst)]
        cfg = {'version': V, 'script': [('success',)] + [('keepalive', k) for k in ids]}
        blog = []
        orig_ka = C.PlayingReactor.react

        def react_b(self, packet):
            if isinstance(packet, cb.play.KeepAlivePacket):
                blog.append(('R', packet.keep_alive_id))
            return orig_ka(self, packet)
        C.PlayingReactor.react = react_b
        try:
            with simnet.Net(lambda s: RefServer(s, cfg)) as net:
                conn = C.Connection('h', 1, username='u', allowed_versions={V}, handle_exception=lambda e, i: blog.append(('EXC', repr(e))))
                conn.register_packet_listener(lambda p: blog.append(('e', p.keep_alive_id)) if isinstance(p, cb.play.KeepAlivePacket) else None,
                                              P.Packet, early=True)

                def late(p):
                    blog.append(('o', p.keep_alive_id))
                    if queue_out:
                        conn.write_packet(sb.play.ChatPacket(message='x'))
                conn.register_packet_listener(late, cb.play.KeepAlivePacket)
                conn.connect()
                net.run_threads()
        finally:
            C.PlayingReactor.react = orig_ka
        want = [(st, k) for k in ids for st in ('e', 'R', 'o')]
        ctx.case(('burst', variant, nburst, queue_out))
        ctx.count('burst.%d' % nburst)
        if blog != want:
            k = next((i for i, (a, b) in enumerate(zip(blog + [None] * len(want), want)) if a != b), len(want))
            ctx.violation('%d keep-alives readable back to back%s: stage log differs from early, built-in, ordinary for every packet at '
                          'packet #%d (%r instead of %r); %d of %d stage calls recorded'
                          % (nburst, ', an ordinary listener queues a chat packet per keep-alive' if queue_out else '', k // 3 + 1,
                             blog[k] if k < len(blog) else None, want[k] if k < len(want) else None, len(blog), len(want)),
                          {'burst': nburst, 'queue_out': queue_out}, key={'kind': 'burst', 'n': nburst, 'queue_out': queue_out})
    # ---- registration from two threads at once: a second thread registers a listener in the same group while the first is in
    # the middle of `register_packet_listener` (forced at every line of it, harness/interleave.py); afterwards both listeners
    # must run exactly once for a matching packet
    import interleave
    import minecraft.networking.connection as Cmod
    conn_file = Cmod.__file__.rstrip('c')
    KAc, KAs = cb.play.KeepAlivePacket, sb.play.KeepAlivePacket
    for early, outgoing in ((False, False), (True, False), (False, True), (True, True)):
        def make(early=early, outgoing=outgoing):
            conn = C.Connection('h', 1, username='u', allowed_versions={V})
            ran = []
            T_ = KAs if outgoing else KAc
            fa = lambda: conn.register_packet_listener(lambda p: ran.append('a'), T_, early=early, outgoing=outgoing)
            fb = lambda: conn.register_packet_listener(lambda p: ran.append('b'), T_, early=early, outgoing=outgoing)

            def judge():
                pk = T_(context=conn.context) if True else None
                pk.keep_alive_id = 5
                try:
                    if outgoing:
                        conn.socket = types.SimpleNamespace(send=lambda d: len(d))
                        conn._write_packet(pk)
                    else:
                        conn.socket = types.SimpleNamespace(send=lambda d: len(d))
                        conn.connected = True
                        conn.reactor = types.SimpleNamespace(react=lambda p: None)
                        conn._react(pk)
                except Exception as e:
                    ran.append('raised %r' % (e,))
                return sorted(ran)
            return fa, fb, judge
        npts = 0
        for k, ran in interleave.every_point(make, lambda fn: fn.rstrip('c') == conn_file):
            npts += 1
            ctx.case(('concurrent-registration', early, outgoing, k))
            if ran != ['a', 'b']:
                ctx.violation('two threads register a listener each (early=%s, outgoing=%s), the second in the middle of the first '
                              '(interruption point #%d of register_packet_listener): listeners that ran for one matching packet: %r'
                              % (early, outgoing, k, ran), {'early': early, 'outgoing': outgoing, 'point': k},
                              key={'kind': 'concurrent-registration', 'early': early, 'outgoing': outgoing})
                break
        ctx.count('concurrent-registration.points', npts)
    # ---- dispatch is re-entrant: a listener that itself writes a packet (forced) while it is being called; the nested packet is
    # an outgoing packet in its own right and passes through EVERY outgoing listener, the calling one included
    for variant in range(4):
        wire, log = [], []
        conn = C.Connection('h', 1, username='u', allowed_versions={V})
        conn.socket = types.SimpleNamespace(send=lambda d: wire.append(bytes(d)) or len(d))
        conn.connected = True

        def censor(p):
            log.append(('censor', p.message))
            if p.message == 'outer' and variant % 2 == 0:
                q = sb.play.ChatPacket(message='secret')
                conn.write_packet(q, force=True)
            if p.message == 'secret':
                raise IgnorePacket
        conn.register_packet_listener(censor, sb.play.ChatPacket, outgoing=True, early=True)

        def late(p):
            log.append(('late', p.message))
            if p.message == 'outer' and variant % 2 == 1:
                conn.write_packet(sb.play.ChatPacket(message='inner'), force=True)
        conn.register_packet_listener(late, sb.play.ChatPacket, outgoing=True)
        try:
            conn.write_packet(sb.play.ChatPacket(message='outer'), force=True)
        except Exception as e:
            log.append(('raised', repr(e)))
        ctx.case(('nested-write', variant))
        sent = b''.join(wire)
        if variant % 2 == 0:
            want = [('censor', 'outer'), ('censor', 'secret'), ('late', 'outer')]
            bad = log != want or b'secret' in sent or b'outer' not in sent
        else:
            want = [('censor', 'outer'), ('late', 'outer'), ('censor', 'inner'), ('late', 'inner')]
            bad = log != want or b'inner' not in sent or b'outer' not in sent
        if bad:
            ctx.violation('an outgoing listener writes a packet (forced) while it is being called: listener calls %r, expected %r; '
                          'on the wire: outer=%s nested=%s' % (log, want, b'outer' in sent, (b'secret' in sent) or (b'inner' in sent)),
                          {'variant': variant}, key={'kind': 'nested-write', 'variant': variant % 2})
    # ---- (a) "ordinary outgoing listeners run after it has been written": when such a listener is called for a QUEUED packet,
    # the server has that packet's frame;  (b) an early incoming listener that calls disconnect() and returns normally has
    # not signalled 'ignore': the built-in reaction and the ordinary listeners still run for that packet
    for variant in range(ctx.scale(4, 16)):
        cfg = {'version': V, 'script': ([('compress', 64)] if variant % 2 else []) + [('success',)]}
        seen_at_call = []
        with simnet.Net(lambda s: RefServer(s, cfg)) as net:
            conn = C.Connection('h', 1, username='u', allowed_versions={V}, handle_exception=lambda e, i: seen_at_call.append(('EXC', repr(e))))
            nq = 2 + variant % 3

            def on_success(p):
                for k in range(nq):
                    conn.write_packet(sb.play.ChatPacket(message='queued-%d' % k))
            conn.register_packet_listener(on_success, cb.login.LoginSuccessPacket)

            def after_write(p):
                srv_ = cfg['servers'][0]
                got_ = [f for f in srv_.frames if f[0] == 'play' and p.message.encode() in f[2]]
                seen_at_call.append((p.message, len(got_)))
            conn.register_packet_listener(after_write, sb.play.ChatPacket, outgoing=True)
            conn.connect()
            net.run_threads()
        ctx.case(('after-written', variant))
        want = [('queued-%d' % k, 1) for k in range(nq)]
        if seen_at_call != want:
            ctx.violation('%d queued chat packets, an ordinary outgoing listener looks at what the server has received when it is called: %r '
                          '(expected each packet\'s own frame to be there: %r)' % (nq, seen_at_call[:6], want),
                          {'variant': variant}, key={'kind': 'after-written'})
    for variant in range(ctx.scale(3, 9)):
        cfg = {'version': V, 'script': [('success',), ('keepalive', 41 + variant)]}
        elog = []
        orig_r = C.PlayingReactor.react

        def react_c(self, packet):
            if isinstance(packet, cb.play.KeepAlivePacket):
                elog.append('R')
            return orig_r(self, packet)
        C.PlayingReactor.react = react_c
        try:
            with simnet.Net(lambda s: RefServer(s, cfg)) as net:
                conn = C.Connection('h', 1, username='u', allowed_versions={V}, handle_exception=lambda e, i: elog.append('EXC:%s' % type(e).__name__))
                conn.register_packet_listener(lambda p: elog.append('e1'), cb.play.KeepAlivePacket, early=True)

                def e2(p):
                    elog.append('e2')
                    if variant % 3 != 2:
                        conn.disconnect(immediate=bool(variant % 3))
                conn.register_packet_listener(e2, cb.play.KeepAlivePacket, early=True)
                conn.register_packet_listener(lambda p: elog.append('e3'), cb.play.KeepAlivePacket, early=True)
                conn.register_packet_listener(lambda p: elog.append('o1'), cb.play.KeepAlivePacket)
                conn.register_packet_listener(lambda p: elog.append('o2'), cb.play.KeepAlivePacket)
                conn.connect()
                net.run_threads()
        finally:
            C.PlayingReactor.react = orig_r
        ctx.case(('early-listener-disconnects', variant))
        if [x for x in elog if not x.startswith('EXC')] != ['e1', 'e2', 'e3', 'R', 'o1', 'o2']:
            ctx.violation('an early listener %s and returns normally (no ignore): stages that ran for the keep-alive: %r, expected '
                          'e1 e2 e3, the built-in reaction, o1 o2' % (['calls disconnect()', 'calls disconnect(immediate=True)', 'does nothing'][variant % 3], elog),
                          {'variant': variant}, key={'kind': 'early-listener-disconnects', 'variant': variant % 3})
    # ---- an early listener that ignores Set Compression suppresses the built-in reaction: compression stays
    # off, and it is still off while the early listener runs
    for state in ('login',):
        seen = []
        cfg = {'version': V, 'script': [('compress', 64), ('success',)]}
        with simnet.Net(lambda s: RefServer(s, cfg)) as net:
            conn = C.Connection('h', 1, username='u', allowed_versions={V}, handle_exception=lambda e, i: seen.append(('EXC', type(e).__name__)))

            def early_l(pkt):
                seen.append(('early', conn.options.compression_enabled, conn.options.compression_threshold))
                raise IgnorePacket
            conn.register_packet_listener(early_l, cb.login.SetCompressionPacket, early=True)
            orig_react2 = C.Connection._react

            def _react2(self, packet):
                r = orig_react2(self, packet)
                if isinstance(packet, cb.login.SetCompressionPacket):
                    seen.append(('after', self.options.compression_enabled, self.options.compression_threshold))
                return r
            C.Connection._react = _react2
            try:
                conn.connect()
                net.run_threads()
            finally:
                C.Connection._react = orig_react2
        ctx.case(('ignored-set-compression', state))
        first = [x for x in seen if x[0] in ('early', 'after')][:2]
        if first != [('early', False, -1), ('after', False, -1)]:
            ctx.violation('Set Compression ignored by an early listener: compression (enabled, threshold) seen by the early '
                          'listener and after the dispatch: %r; the built-in reaction must not have run' % (first,),
                          {'seen': repr(seen)[:200]}, key={'kind': 'ignored-set-compression'})
    for line, mo, g in zip(lines, ctx.driver.ask(lines), impl):
        if mo.rstrip() != g:
            ctx.disagree('listener dispatch', line[-200:], mo, g)
    roles_tie(ctx)


def roles_tie(ctx):
    """Tie of Model/C13Roles.lean (driver `roles.session`): random sessions of listener registrations, queued /
    forced writes, pops, flushes, arrivals and networking-thread iterations run on a live Connection by
    harness/gen/c13roles.py (`run_session`, instance-level instrumentation only) vs the model's trace, queue and
    inbox; the class hierarchy sent to the model is read off the live `__bases__`."""
    from gen import c13roles as G
    rng = ctx.rng
    edges = G.hier_edges(G.probe_classes())
    reqs, want, meta = [], [], []
    for _ in range(ctx.scale(600, 8000)):
        rw, ri, ops = G.random_session(rng)
        cap_w, cap_r = 300, 50         # the constants of NetworkingThread._run (not parameters of the real code)
        reqs.append(G.request(edges, rw, ri, ops, cap_w, cap_r))
        want.append(G.render(*G.run_session(rw, ri, ops)))
        meta.append(len(ops))
    for line, mo, w, nops in zip(reqs, ctx.driver.ask(reqs), want, meta):
        ctx.case(('roles.session', line), sample={'op': 'roles.session', 'ops': nops, 'impl': w[:160]})
        ctx.count('roles.session.ops', nops)
        if mo != w:
            ctx.disagree('roles.session vs a live Connection', line[:1500], mo[:800], w[:800])
    ctx.extra['c13roles_pairs'] = ctx.extra.get('c13roles_pairs', 0) + len(reqs)


def replay(ctx, rp_):
    for v in rp_.get('violations', []):
        print(v)
    return not rp_.get('violations')
