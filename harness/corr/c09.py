"""C09: version negotiation and status queries, on the sequential simnet with the stand-in server."""
import json
import types

import refcodec as rc
import simnet
from refserver import RefServer

EXTRA_PROPS = ['C09Wire', 'C09Status', 'C09Clock']

EXTRACT = ['gen.c09clock']

RULE = ("allowed-version sets (singletons, pairs, chronological prefixes, all supported; as numbers or "
        "names) x default versions x server behaviours (every supported protocol in turn, unsupported/"
        "unknown/negative numbers, missing version object, missing protocol key, empty object, close "
        "before reply, close right after the handshake) on the sequential simnet; constructor inputs incl. "
        "unsupported, unknown, wrong-typed and empty; plain status query in all four handler modes; "
        "distinct by scenario")


def h(s):
    if s is None:
        return '~'
    return s.encode('utf-8').hex() or '-'


def clist(xs):
    xs = list(xs)
    return ','.join(str(x) for x in xs) if xs else '-'


def run(ctx):
    import minecraft
    import minecraft.networking.connection as C
    from minecraft.networking.packets import serverbound as sb
    from minecraft.exceptions import VersionMismatch
    ctx.extra['rule'] = RULE
    rng = ctx.rng
    SUP = list(minecraft.SUPPORTED_PROTOCOL_VERSIONS)
    KNOWN = list(minecraft.KNOWN_PROTOCOL_VERSIONS)
    NAMES = dict(minecraft.SUPPORTED_MINECRAFT_VERSIONS)
    rank = minecraft.PROTOCOL_VERSION_INDICES
    sv = ','.join('%s:%d' % (h(k), v) for k, v in NAMES.items())
    env = 'sv=%s sp=%s kp=%s' % (sv, clist(SUP), clist(KNOWN))
    unsupported = [v for v in KNOWN if v not in SUP]
    # names the library knows but does not support; some of them share their protocol NUMBER with a supported release
    known_only = sorted(k for k in minecraft.KNOWN_MINECRAFT_VERSIONS if k not in NAMES)
    known_only_shared = [k for k in known_only if minecraft.KNOWN_MINECRAFT_VERSIONS[k] in SUP] or known_only or ['nonsense']
    # ------------------------------------------------------------------ constructor
    lines, impl = [], []
    name_of = {}
    for k, v in NAMES.items():
        name_of.setdefault(v, k)

    def item(x):
        if isinstance(x, bool) or not isinstance(x, (int, str)):
            return 'x'
        return ('i%d' % x) if isinstance(x, int) else 's' + h(x)
    cases = []
    for _ in range(ctx.scale(150, 1500)):
        k = rng.random()
        if k < 0.15:
            allowed = None
        elif k < 0.3:
            allowed = [rng.choice(SUP)]
        elif k < 0.8:
            allowed = rng.sample(SUP, rng.randrange(1, 6))
            if rng.random() < 0.3:
                allowed = [name_of[v] if rng.random() < 0.6 else v for v in allowed]
        elif k < 0.9:
            allowed = rng.sample(SUP, 2) + [rng.choice(unsupported + [99999, -1, 'nonsense', '1.99', 2.5, None]
                                                       + [rng.choice(known_only_shared), rng.choice(known_only or ['zz'])])]
            rng.shuffle(allowed)
        else:
            allowed = []
        ini = rng.choice([None, None, rng.choice(SUP), name_of[rng.choice(SUP)], rng.choice(unsupported), 'bad', 3.5,
                          rng.choice(known_only_shared)])
        cases.append((allowed, ini))
    for nm in known_only_shared[:ctx.scale(12, 60)]:
        cases.append(([nm], None))
        cases.append((None, nm))
    for allowed, ini in cases:
        try:
            c = C.Connection('h', 25565, username='u', allowed_versions=allowed, initial_version=ini)
            got = 'ok allowed=%s default=%d ctx=%d' % (
                clist(sorted(c.allowed_proto_versions, key=rank.get)), c.default_proto_version,
                c.context.protocol_version)
        except ValueError:
            got = 'err:value'
        except TypeError:
            got = 'err:type'
        lines.append('neg.ctor %s allowed=%s initial=%s' % (
            env, '~' if allowed is None else (','.join(item(x) for x in allowed) or '-'),
            '~' if ini is None else item(ini)))
        impl.append(got)
        ctx.case(('ctor', repr(allowed), repr(ini)), sample={'allowed': repr(allowed)[:80], 'initial': repr(ini), 'impl': got[:80]})
        ctx.count('ctor.' + got.split()[0])
        # oracle: unknown/unsupported refused at construction
        def resolves(x):
            if isinstance(x, str):
                return NAMES.get(x) in SUP
            return isinstance(x, int) and x in SUP
        should_fail = (allowed is not None and (not allowed or not all(resolves(x) for x in allowed))) \
            or (ini is not None and not resolves(ini))
        if should_fail != got.startswith('err'):
            ctx.violation('constructor %s versions allowed=%r initial=%r' % (
                'accepted unsupported/unknown' if should_fail else 'refused valid', allowed, ini),
                {'allowed': repr(allowed), 'initial': repr(ini), 'impl': got},
                key={'ctor': [repr(allowed), repr(ini)]})
    for line, mo, g in zip(lines, ctx.driver.ask(lines), impl):
        if mo != g:
            ctx.disagree('Connection.__init__', line[-200:], mo, g)
    # ------------------------------------------------------------------ negotiation scenarios
    names_of = {}
    for nm, pv in minecraft.SUPPORTED_MINECRAFT_VERSIONS.items():
        names_of.setdefault(pv, []).append(nm)
    lines, impl = [], []
    wlines, wimpl = [], []
    scen = []
    prefixes = [SUP[:k] for k in (2, 3, len(SUP) // 2, len(SUP))]
    for i in range(ctx.scale(260, 2500)):
        k = i % 6
        if k == 0:
            allowed = [rng.choice(SUP)]
        elif k == 1:
            allowed = rng.sample(SUP, 2)
        elif k == 2:
            allowed = list(rng.choice(prefixes))
        else:
            allowed = rng.sample(SUP, rng.randrange(2, 8))
        default = rng.choice([None, rng.choice(allowed), rng.choice(SUP)])
        r = rng.random()
        if r < 0.45:
            n = SUP[i % len(SUP)] if rng.random() < 0.6 else rng.choice(allowed)
            # incl. a KNOWN version name whose table protocol differs from the number reported
            other = rng.choice(SUP)
            name = rng.choice([None, 'srv 1.x', name_of.get(n), name_of.get(other)])
            reply = ('proto', n, name)
        elif r < 0.6:
            reply = ('proto', rng.choice(unsupported + [99999, -3, 0, 2 ** 31]), rng.choice([None, 'weird']))
        elif r < 0.7:
            reply = ('noversion',)
        elif r < 0.8:
            reply = ('noprotokey',)
        elif r < 0.87:
            reply = ('empty',)
        elif r < 0.95:
            reply = ('closed',)
        else:
            reply = ('close-early',)
        scen.append((allowed, default, reply))
    for allowed, default, reply in scen:
        if reply[0] == 'proto':
            ver = {'protocol': reply[1]}
            if reply[2] is not None:
                ver['name'] = reply[2]
            status = ('json', json.dumps({'version': ver, 'description': 'x'}))
        elif reply[0] == 'noversion':
            status = ('json', json.dumps({'description': 'x'}))
        elif reply[0] == 'noprotokey':
            status = ('json', json.dumps({'version': {'name': 'y'}}))
        elif reply[0] == 'empty':
            status = ('json', '{}')
        elif reply[0] == 'closed':
            status = 'close'
        else:
            status = 'close-early'
        cfg = {'version': 47, 'status': status, 'close_after_status': True, 'script': [('close',)]}
        log = []
        with simnet.Net(lambda s: RefServer(s, cfg)) as net:
            # the same SET of protocol versions, spelled with aliases and repetitions (several version
            # names share one protocol number; numbers and names may be mixed)
            given = set(allowed)
            if rng.random() < 0.45:
                given = []
                for v_ in allowed:
                    names = names_of.get(v_, [])
                    forms = [v_] + names
                    given += rng.sample(forms, min(len(forms), rng.choice([1, 2, 3])))
                rng.shuffle(given)
                ctx.count('alias-spelling')
            conn = C.Connection('play.example.org', 25570, username='user7', allowed_versions=given,
                                initial_version=default,
                                handle_exception=lambda e, i: log.append(e),
                                handle_exit=lambda: log.append('exit'))
            # the default, when none is configured, is the chronologically latest allowed version
            eff_default = default if default is not None else max(set(allowed), key=rank.get)
            if conn.default_proto_version != eff_default or conn.context.protocol_version != max(set(allowed), key=rank.get):
                ctx.violation('constructed with allowed=%r initial=%r: default=%r context=%r (latest allowed is %r)' % (
                    sorted(set(allowed)), default, conn.default_proto_version, conn.context.protocol_version,
                    max(set(allowed), key=rank.get)), {'allowed': allowed, 'default': default},
                    key={'ctor-default': sorted(set(allowed)), 'initial': default})
            try:
                conn.connect()
                net.run_threads()
            except Exception as e:
                log.append(e)
            servers = cfg['servers']
            raws = [bytes(s_.sent) for s_ in net.sockets if s_.connected]
        hs = [s.handshake for s in servers]
        first = [[(f[1], f[2]) for f in s.frames if f[0] != 'handshake'][:1] for s in servers]
        excs = [e for e in log if isinstance(e, BaseException)]
        # classify the implementation's outcome
        if len(servers) == 2 or (len(allowed) == 1 and len(servers) == 1 and hs[0] and hs[0]['next'] == 2):
            last = hs[-1]
            got = 'ok connect %d' % last['protocol']
        elif excs and isinstance(excs[-1], VersionMismatch):
            e = excs[-1]
            got = 'ok mismatch %s %s supported=%d msg=%s' % (
                e.server_protocol, h(e.server_version), 'not supported' not in str(e), str(e).encode().hex())
        elif excs and isinstance(excs[-1], IOError) and 'Invalid server status' in str(excs[-1]):
            got = 'ok invalid'
        else:
            got = 'other %r' % (excs[-1:],)
        ctx.case(('neg', tuple(allowed), default, reply),
                 sample={'allowed': allowed[:6], 'default': default, 'server': reply, 'impl': got[:90]})
        ctx.count('neg.' + reply[0])
        ctx.count('neg.out.' + got.split()[1] if got.startswith('ok') else 'neg.out.other')
        allowed_sorted = sorted(set(allowed), key=rank.get)
        if len(set(allowed)) >= 2:
            rtok = {'proto': 'p:%s:%s' % (reply[1] if reply[0] == 'proto' else 0, h(reply[2]) if reply[0] == 'proto' else '~'),
                    'noversion': 'noversion', 'noprotokey': 'noprotokey', 'empty': 'empty',
                    'closed': 'closed', 'close-early': 'closed'}[reply[0]]
            lines.append('neg.eval sp=%s allowed=%s default=%d reply=%s' % (clist(SUP), clist(allowed_sorted), eff_default, rtok))
            impl.append(got)
        lines.append('neg.plan kp=%s allowed=%s' % (clist(KNOWN), clist(allowed_sorted)))
        impl.append('ok %s %d' % (('direct', hs[0]['protocol']) if hs[0]['next'] == 2 else ('query', hs[0]['protocol'])))
        # ---------------- byte level (Model/HandshakeWire.lean, Props/C09Wire.lean): the raw bytes of each
        # connection are the model's first frames for (protocol, host, port, next state[, login start])
        for raw, hsk in zip(raws, hs):
            if not hsk:
                continue
            cxr = C.ConnectionContext(protocol_version=hsk['protocol'])
            line = 'hswire.first proto=%d host=%s port=%d next=%d' % (
                hsk['protocol'], 'play.example.org'.encode().hex(), 25570, hsk['next'])
            if hsk['next'] == 2:
                line += ' start=%d:%s' % (sb.login.LoginStartPacket.get_id(cxr), b'user7'.hex())
            wlines.append(line)
            wimpl.append(('ok ' + raw.hex(), reply[0] == 'close-early'))
            wlines.append('hswire.parse ' + raw.hex())
            wimpl.append(None)
        # ---------------- oracle: the property
        bad = None
        latest = max(set(allowed), key=rank.get)
        for hsk in hs:
            if hsk['host'] != 'play.example.org' or hsk['port'] != 25570:
                bad = 'handshake carries host/port %r' % (hsk,)
        if len(set(allowed)) == 1:
            only = allowed[0]
            if len(servers) != 1 or hs[0]['next'] != 2 or hs[0]['protocol'] != only:
                bad = 'single allowed version: expected one direct login handshake with %d' % only
            elif not first[0] or rc.read_string(first[0][0][1], 0) != ('user7', len(first[0][0][1])):
                bad = 'login start does not name the configured user'
        else:
            if hs[0]['next'] != 1 or hs[0]['protocol'] != latest:
                bad = 'status query handshake %r (latest allowed %d)' % (hs[0], latest)
            elif reply[0] == 'proto' and reply[1] in allowed:
                want = reply[1]
                if got != 'ok connect %d' % want or len(servers) != 2 or hs[1]['next'] != 2:
                    bad = 'server reports allowed protocol %d but outcome is %s' % (want, got)
            elif reply[0] == 'proto':
                n = reply[1]
                if not got.startswith('ok mismatch %d ' % n) or ('supported=%d' % (n in SUP)) not in got \
                        or str(n) not in bytes.fromhex(got.split('msg=')[1]).decode():
                    bad = 'server reports disallowed protocol %d but outcome is %s' % (n, got[:80])
            elif reply[0] in ('noversion', 'noprotokey', 'closed', 'close-early'):
                if got != 'ok connect %d' % eff_default:
                    bad = 'no version reported: expected fallback to default %d, got %s' % (eff_default, got[:80])
            elif reply[0] == 'empty' and got != 'ok invalid':
                bad = 'empty status object not rejected as invalid: %s' % got[:80]
            if not bad and got.startswith('ok connect') and len(servers) == 2:
                fr = first[1]
                if not fr or rc.read_string(fr[0][1], 0) != ('user7', len(fr[0][1])):
                    bad = 'login start after negotiation does not name the configured user'
        if bad:
            ctx.violation(bad, {'allowed': allowed, 'default': default, 'server': reply, 'impl': got[:200]},
                          key={'allowed': sorted(set(allowed)), 'default': default, 'server': list(reply)})
    for line, mo, g in zip(lines, ctx.driver.ask(lines), impl):
        if mo != g:
            ctx.disagree('negotiation', line[-160:], mo[:200], g[:200])
    nw = 0
    for line, mo, g in zip(wlines, ctx.driver.ask(wlines), wimpl):
        if g is None:         # the Lean reference server must parse the real bytes to the same record
            ok = mo.startswith('ok proto=') and ' host=%s port=25570 ' % 'play.example.org'.encode().hex() in mo
            g = 'ok proto=… host=play.example.org port=25570 …'
        else:
            g, early = g
            # a server that hangs up on the handshake makes the client's next write fail: a frame-wise prefix
            ok = mo == g or (early and mo.startswith(g) and len(g) > 10)
            nw += 1
        if not ok:
            ctx.disagree('first frames on the wire', line[:200], mo[:200], g[:200])
    ctx.extra['first_frame_streams_compared'] = nw
    # ------------------------------------------------------------------ authenticated profile name
    class Tok:
        username = 'account@example.org'       # the account login is NOT the in-game name
        class profile:
            name = 'ProfileName'

        def __bool__(self):
            return True
    cfg = {'version': 47, 'script': [('close',)]}
    with simnet.Net(lambda s: RefServer(s, cfg)) as net:
        conn = C.Connection('h', 1, auth_token=Tok(), username='ignored', allowed_versions={47},
                            handle_exception=lambda e, i: None)
        conn.connect()
        net.run_threads()
    fr = [f for f in cfg['servers'][0].frames if f[0] == 'login']
    ctx.case(('profile-name',))
    if not fr or rc.read_string(fr[0][2], 0)[0] != 'ProfileName':
        ctx.violation('login start does not name the authenticated profile', {'frames': repr(fr)[:200]},
                      key={'kind': 'profile-name'})
    # ---- the same object used again.  (A) a login session in which the server switched compression on ends; a plain status
    # query on the same object must go out in plain framing and run its handlers.  (B) a negotiation that ends in a version
    # mismatch leaves the allowed set as the application gave it: a retry asks the server again and logs in with a version
    # that is allowed.
    for trial in range(ctx.scale(8, 40)):
        v1 = rng.choice([47, 340, 757])
        first = {'version': v1, 'script': [('compress', rng.choice([0, 64, 256])), ('success',), ('play_disconnect', '{"text":"bye"}')]}
        second = {'version': v1, 'status': ('json', json.dumps({'description': 'again', 'n': trial}))}
        cfgs, made, calls = [first, second], [], []

        def factory(sock, cfgs=cfgs, made=made):
            srv = RefServer(sock, cfgs[min(len(made), len(cfgs) - 1)])
            made.append(srv)
            return srv
        with simnet.Net(factory) as net:
            conn = C.Connection('h', 25565, username='u', allowed_versions={v1}, handle_exception=lambda e, i: calls.append(('exc', type(e).__name__)),
                                handle_exit=lambda: calls.append(('exit',)))
            conn.connect()
            net.run_threads()
            do_ping = trial % 2 == 0
            conn.status(handle_status=lambda d: calls.append(('status', d)), handle_ping=(lambda ms: calls.append(('latency', ms))) if do_ping else False)
            net.run_threads()
        ctx.case(('status-after-compressed-session', trial, v1, do_ping))
        ctx.count('reuse.status-after-compressed-session')
        s2 = made[1] if len(made) > 1 else None
        st = [c for c in calls if c[0] == 'status']
        lat = [c for c in calls if c[0] == 'latency']
        if s2 is None or s2.errors or s2.handshake is None or s2.handshake.get('next') != 1 or len(st) != 1 or st[0][1] != {'description': 'again', 'n': trial} \
                or len(lat) != (1 if do_ping else 0) or any(c[0] == 'exc' for c in calls) or calls.count(('exit',)) != 2:
            ctx.violation('a login session with compression ends (server disconnect), then status() on the same object: the status server read '
                          'handshake %r (parse errors %r); handler calls %r'
                          % (s2 and s2.handshake, s2 and s2.errors[:1], [c[0] for c in calls]),
                          {'version': v1, 'ping': do_ping}, key={'kind': 'status-after-compressed-session', 'ping': do_ping})
    for trial in range(ctx.scale(8, 40)):
        allowed = rng.sample([47, 340, 498, 578, 757], 2)
        off = rng.choice([x for x in SUP if x not in allowed] + [99999]) if trial % 4 else rng.choice(unsupported)
        good = rng.choice(allowed)
        reply = lambda pv: ('json', json.dumps({'version': {'name': 'x', 'protocol': pv}, 'description': 'd'}))
        cfgs = [{'version': 47, 'status': reply(off), 'close_after_status': True, 'script': [('close',)]},
                {'version': 47, 'status': reply(good), 'close_after_status': True, 'script': [('close',)]},
                {'version': good, 'script': [('success',)]}]
        made, excs = [], []

        def factory(sock, cfgs=cfgs, made=made):
            srv = RefServer(sock, cfgs[min(len(made), len(cfgs) - 1)])
            made.append(srv)
            return srv
        with simnet.Net(factory) as net:
            conn = C.Connection('h', 25565, username='u', allowed_versions=set(allowed), handle_exception=lambda e, i: excs.append(e))
            conn.connect()
            net.run_threads()
            after_first = sorted(conn.allowed_proto_versions)
            second_error = None
            try:
                conn.connect()
                net.run_threads()
            except Exception as e:
                second_error = repr(e)
        ctx.case(('retry-after-mismatch', trial, tuple(allowed), off, good))
        ctx.count('reuse.retry-after-mismatch')
        hs = [m_.handshake for m_ in made]
        ok = len(excs) == 1 and isinstance(excs[0], VersionMismatch) and after_first == sorted(allowed) and second_error is None \
            and len(made) == 3 and hs[1] is not None and hs[1].get('next') == 1 \
            and hs[2] is not None and hs[2].get('next') == 2 and hs[2].get('protocol') == good
        if not ok:
            ctx.violation('allowed %r: the server first reports protocol %d (version mismatch), the application retries and the server now '
                          'reports %d: errors %r, allowed set after the mismatch %r, second connect %s, handshakes seen by the servers %r'
                          % (sorted(allowed), off, good, [type(e).__name__ for e in excs], after_first, second_error or 'returned',
                             [(h_ or {}).get('protocol') for h_ in hs]),
                          {'allowed': sorted(allowed), 'reported_first': off, 'reported_second': good},
                          key={'kind': 'retry-after-mismatch', 'allowed': sorted(allowed), 'off': off})
    # ---- status(): the networking thread may run as soon as status() has released the write lock.  The thread is run to
    # completion at EVERY line of status() at which the caller no longer holds the lock (harness/interleave.py); whatever
    # the point, the caller's handlers are the ones that are called
    import interleave
    import threading as _th
    conn_file = C.__file__.rstrip('c')
    for hs_mode, hp_mode in ((1, 1), (1, 2), (2, 1), (1, 0)):       # 1 custom, 2 disabled, 0 default
        def make(hs_mode=hs_mode, hp_mode=hp_mode):
            calls, printed = [], []
            depth = {'n': 0}
            real_rlock = _th.RLock

            class TrackLock:
                def __init__(self):
                    self._l = real_rlock()

                def acquire(self, *a, **k):
                    r = self._l.acquire(*a, **k)
                    depth['n'] += 1 if r else 0
                    return r

                def release(self):
                    depth['n'] -= 1
                    self._l.release()
                __enter__ = acquire

                def __exit__(self, *a):
                    self.release()
            cfg = {'version': 47, 'status': ('json', json.dumps({'description': 'x'}))}
            net = simnet.Net(lambda s_: RefServer(s_, cfg))
            net.__enter__()
            saved_rlock = C.RLock
            C.RLock = TrackLock
            try:
                conn = C.Connection('h', 25565, handle_exception=lambda e, i: calls.append(('exc', type(e).__name__)))
            finally:
                C.RLock = saved_rlock
            kw = {'handle_status': (lambda d: calls.append(('status', 'U'))) if hs_mode == 1 else False,
                  'handle_ping': (lambda ms: calls.append(('latency', 'U'))) if hp_mode == 1 else (False if hp_mode == 2 else None)}
            import builtins
            real_print = builtins.print

            def fa():
                builtins.print = lambda *a, **k: printed.append(a)
                conn.status(**kw)

            def fb():
                net.run_threads()

            def judge():
                try:
                    net.run_threads()
                finally:
                    builtins.print = real_print
                    net.__exit__(None, None, None)
                return calls, printed
            return fa, fb, judge, (lambda: depth['n'] == 0)
        npts = 0
        for k, (calls, printed) in interleave.every_point(make, lambda fn: fn.rstrip('c') == conn_file):
            npts += 1
            ctx.case(('status-handlers-window', hs_mode, hp_mode, k))
            want_status = 1 if hs_mode == 1 else 0
            want_lat = 1 if hp_mode == 1 else 0
            got_status = len([c for c in calls if c == ('status', 'U')])
            got_lat = len([c for c in calls if c == ('latency', 'U')])
            printed_status = [a for a in printed if a and isinstance(a[0], dict)]
            printed_ping = [a for a in printed if a and isinstance(a[0], str) and a[0].startswith('Ping')]
            if got_status != want_status or got_lat != want_lat or (hs_mode != 0 and printed_status) or (hp_mode != 0 and printed_ping) \
                    or any(c[0] == 'exc' for c in calls):
                ctx.violation('status(handle_status=%s, handle_ping=%s) with the networking thread running to completion right after the '
                              'caller released the write lock (interruption point #%d of status()): custom status handler called %d time(s), '
                              'custom latency handler %d, printed by default handlers: status %d, ping %d, errors %r'
                              % (['default', 'custom', 'disabled'][hs_mode], ['default', 'custom', 'disabled'][hp_mode], k, got_status,
                                 got_lat, len(printed_status), len(printed_ping), [c for c in calls if c[0] == 'exc'][:1]),
                              {'handle_status': hs_mode, 'handle_ping': hp_mode, 'point': k},
                              key={'kind': 'status-handlers-window', 'hs': hs_mode, 'hp': hp_mode})
                break
        ctx.count('status-handlers-window.points', npts)
    # ------------------------------------------------------------------ plain status query
    lines, impl = [], []
    slines, simpl = [], []
    saved_timeit = C.timeit
    try:
        for mode in range(ctx.scale(40, 400)):
            do_ping = mode % 2 == 0
            hs_mode = mode // 2 % 3     # 0 default(print) 1 custom 2 disabled
            hp_mode = mode // 6 % 3 if do_ping else 2
            # two readings of a monotonic clock, in ms with a sub-millisecond part: the round trip may be shorter
            # than a millisecond (same host) and the ping may leave in the upper half of one
            f0 = rng.choice([0.0004, 0.25, 0.5004, 0.75, 0.9996])
            c0 = rng.randrange(0, 10 ** 7) + f0
            c1 = c0 + rng.choice([0.0, 0.0001, 0.2, 0.45, 0.9, 1.3, float(rng.randrange(0, 5000))])
            t0, t1 = int(1000 * (c0 / 1000.0)), int(1000 * (c1 / 1000.0))
            clock = [c0, c1]
            it = iter(clock)
            C.timeit = types.SimpleNamespace(default_timer=lambda: next(it) / 1000.0)
            calls = []
            cfg = {'version': 47, 'status': ('json', json.dumps({'description': 'hello', 'n': mode}))}
            printed = []
            import builtins
            real_print = builtins.print
            builtins.print = lambda *a, **k: printed.append(a)
            try:
                with simnet.Net(lambda s: RefServer(s, cfg)) as net:
                    conn = C.Connection('h', 25565, handle_exception=lambda e, i: calls.append(('exc', repr(e))),
                                        handle_exit=lambda: calls.append(('exit',)))
                    kw = {}
                    if hs_mode == 1:
                        kw['handle_status'] = lambda d: calls.append(('status', d))
                    elif hs_mode == 2:
                        kw['handle_status'] = False
                    if not do_ping:
                        kw['handle_ping'] = False
                    elif hp_mode == 1:
                        kw['handle_ping'] = lambda ms: calls.append(('latency', ms))
                    else:
                        kw['handle_ping'] = None      # default handler (prints); the parameter's default is False
                    conn.status(**kw)
                    net.run_threads()
                    closed = net.sockets[0].closed_by_client
                    raw_status = bytes(net.sockets[0].sent)
            finally:
                builtins.print = real_print
            srv = cfg['servers'][0]
            latest_sup = max(SUP, key=rank.get)
            if srv.handshake is None or srv.handshake['protocol'] != latest_sup or srv.handshake['next'] != 1:
                ctx.violation('plain status query handshake %r (latest supported protocol is %d, next state 1)'
                              % (srv.handshake, latest_sup), {'mode': mode}, key={'kind': 'status-handshake'})
            sframes = [(f[1], f[2]) for f in srv.frames if f[0] == 'status']
            pings = [f for f in sframes if f[0] == 1]
            st_calls = [c for c in calls if c[0] == 'status'] + \
                [('status', pr[0]) for pr in printed if hs_mode == 0 and isinstance(pr[0], dict)]
            lat = [c for c in calls if c[0] == 'latency'] + \
                [('latency', int(pr[0].split()[1])) for pr in printed if isinstance(pr[0], str) and pr[0].startswith('Ping')]
            ctx.case(('status', mode, t0, t1), sample={'do_ping': do_ping, 'handle_status_mode': hs_mode,
                                                       'calls': repr(calls)[:100]})
            bad = None
            if hs_mode != 2 and (len(st_calls) != 1 or st_calls[0][1] != {'description': 'hello', 'n': mode}):
                bad = 'status handler calls: %r' % (st_calls,)
            elif bool(pings) != do_ping or len(pings) > 1:
                bad = 'ping sent=%d, requested=%s' % (len(pings), do_ping)
            elif do_ping and hp_mode in (0, 1) and (len(lat) != 1 or lat[0][1] < 0 or abs(lat[0][1] - (c1 - c0)) > 1.5001):
                bad = 'latency report %r for clock %r' % (lat, clock)
            elif not closed:
                bad = 'connection not closed after the status query'
            elif calls.count(('exit',)) != 1 or any(c[0] == 'exc' for c in calls):
                bad = 'exit callback calls=%d, errors=%r' % (calls.count(('exit',)), [c for c in calls if c[0] == 'exc'])
            if bad:
                ctx.violation('plain status query: ' + bad, {'do_ping': do_ping, 'mode': mode, 'calls': repr(calls)[:200]},
                              key={'status-mode': [do_ping, hs_mode, hp_mode]})
            # byte level: handshake + request (+ ping carrying the clock reading) exactly as Model/HandshakeWire
            slines.append('hswire.first proto=%d host=%s port=25565 next=1%s' % (
                max(SUP, key=rank.get), b'h'.hex(), ' ping=%d' % t0 if do_ping else ''))
            simpl.append('ok ' + raw_status.hex())
            acts = []
            if do_ping:
                sent_t = int.from_bytes(pings[0][1][:8], 'big', signed=True) if pings and len(pings[0][1]) == 8 else -1
                acts = ['ping:%d' % sent_t, 'status', 'disc', 'latency:%s' % (lat[0][1] if len(lat) == 1 else 'none')]
                lines.append('status.run ping=1 script=r,p clock=%d,%d' % (t0, t1))
            else:
                acts = ['disc', 'status']
                lines.append('status.run ping=0 script=r clock=-')
            got_acts = []
            impl.append('ok acts=%s closed=%d exit=%d' % (','.join(acts), closed, calls.count(('exit',))))
    finally:
        C.timeit = saved_timeit
    for line, mo, g in zip(lines, ctx.driver.ask(lines), impl):
        if mo != g:
            ctx.disagree('Connection.status', line, mo, g)
    for line, mo, g in zip(slines, ctx.driver.ask(slines), simpl):
        ctx.case(('status-bytes', line))
        if mo != g:
            ctx.disagree('plain status query bytes', line, mo, g)
    statusx_tie(ctx)
    recvstatus_tie(ctx)
    clock_tie(ctx)


def recvstatus_tie(ctx):
    """Tie of `clientRecvStatus` (Model/HandshakeWire.lean, driver `hswire.recvstatus`): server -> client streams of a status
    connection (response, pong, other ids; well-formed, malformed, cut anywhere, in arbitrary segments) through the real
    StatusReactor.read_packet until it raises: the packets it returned, in order, and the exception that ended the loop."""
    import struct
    import minecraft.networking.connection as C
    from corr.c01 import SegStream
    rng = ctx.rng

    def ename(e):
        if isinstance(e, struct.error):
            return 'struct'
        if isinstance(e, EOFError):
            return 'eof'
        if isinstance(e, UnicodeDecodeError):
            return 'decode'
        if isinstance(e, ValueError) and 'too long' in str(e):
            return 'toolong'
        if isinstance(e, ValueError):
            return 'value'
        if isinstance(e, TypeError):
            return 'type'
        return 'other(%s)' % type(e).__name__
    saved_select = C.select
    C.select = types.SimpleNamespace(select=lambda r, w, x, t=None: (list(r), [], []))
    lines, impl = [], []
    try:
        for case in range(ctx.scale(150, 2000)):
            frames = []
            for _ in range(rng.choice([0, 1, 2, 2, 3])):
                k = rng.random()
                if k < 0.4:
                    j = rng.choice(['{}', '{"description":"x"}', '{"d":"h\u00e9 \u20ac"}', '', 'x' * 200])
                    body = rc.varint(0) + rc.string(j)
                elif k < 0.7:
                    body = rc.varint(1) + struct.pack('>q', rng.choice([0, 1, -1, 1000, 2 ** 63 - 1, -2 ** 63, rng.randrange(-2 ** 63, 2 ** 63)]))
                elif k < 0.8:
                    body = rc.varint(rng.choice([2, 5, 0x7F, 300])) + bytes(rng.randrange(256) for _ in range(rng.randrange(0, 6)))
                elif k < 0.87:
                    body = rc.varint(1) + bytes(rng.randrange(256) for _ in range(rng.randrange(0, 8)))      # short pong
                elif k < 0.94:
                    body = rc.varint(0) + rc.varint(rng.randrange(1, 40)) + b'ab'                          # string longer than the frame
                else:
                    body = rc.varint(0) + rc.varint(2) + rng.choice([b'\xff\xfe', b'\xc3\x28', b'\xed\xa0'])  # not UTF-8
                frames.append(rc.varint(len(body)) + body)
            data = b''.join(frames)
            if rng.random() < 0.5 and data:
                data = data[:rng.randrange(0, len(data) + 1)]
            segs, i = [], 0
            while i < len(data):
                n = rng.choice([1, 1, 2, 3, 5, 8, 40, 300])
                segs.append(data[i:i + n])
                i += n
            conn = types.SimpleNamespace(context=C.ConnectionContext(protocol_version=757),
                                         options=types.SimpleNamespace(compression_enabled=False, compression_threshold=-1))
            reactor = C.StatusReactor(conn)
            stream = SegStream(segs)
            got, end = [], None
            for _ in range(len(frames) + 3):
                try:
                    p = reactor.read_packet(stream, timeout=0)
                except Exception as e:
                    end = ename(e)
                    break
                if p is None:
                    end = 'returned-none'
                    break
                name = getattr(p, 'packet_name', None)
                if name == 'response':
                    got.append('response:' + (p.json_response.encode('utf-8').hex() or '-'))
                elif name == 'ping':
                    got.append('pong:%d' % p.time)
                else:
                    got.append('other')
            lines.append('hswire.recvstatus ' + ' '.join(sg.hex() for sg in segs))
            impl.append('ok pkts=%s end=%s' % (','.join(got) or '-', end))
            ctx.case(('recvstatus', lines[-1]), sample={'op': 'hswire.recvstatus', 'segments': len(segs), 'impl': impl[-1][:100]}
                     if rng.random() < 0.03 else None)
            ctx.count('recvstatus.end.%s' % end)
    finally:
        C.select = saved_select
    for line, mo, g in zip(lines, ctx.driver.ask([l.rstrip() for l in lines]), impl):
        if mo != g:
            ctx.disagree('status stream through StatusReactor.read_packet (hswire.recvstatus)', line[:300], mo[:300], g[:300])


def clock_tie(ctx):
    """Ties of Model/C09Clock.lean.  (a) `c09clock.latency trunc trunc t0 t1`: the real plain status query with the timer
    stubbed to two dyadic readings (n/8192 s: the binary64 product 1000*t is exact there) -- the latency handed to the ping
    handler is the model's, and it is non-negative.  (b) `c09clock.ctor sup …`: the real constructor with `initial_version`
    = supported names, known-but-unsupported names (incl. those sharing a supported protocol number), unknown names, numbers
    and other objects, against the model given BOTH live name tables."""
    import minecraft
    import minecraft.networking.connection as C
    rng = ctx.rng
    saved_timeit = C.timeit
    lines, impl = [], []
    try:
        for case in range(ctx.scale(60, 600)):
            n0 = rng.randrange(0, 2 ** 36)
            n1 = n0 + rng.choice([0, 1, 2, 3, 4, 5, 8, 9, 16, 17, rng.randrange(0, 200), rng.randrange(0, 2 ** 20)])
            it = iter([n0 / 8192.0, n1 / 8192.0])
            C.timeit = types.SimpleNamespace(default_timer=lambda it=it: next(it))
            got = []
            cfg = {'version': 47, 'status': ('json', '{"description":"x"}')}
            with simnet.Net(lambda s_: RefServer(s_, cfg)) as net:
                conn = C.Connection('h', 25565, handle_exception=lambda e, i: got.append('exc:%s' % type(e).__name__))
                conn.status(handle_status=False, handle_ping=lambda ms: got.append(ms))
                net.run_threads()
            lines.append('c09clock.latency trunc trunc %d/8192 %d/8192' % (n0, n1))
            impl.append('ok %s' % (got[0] if len(got) == 1 else got))
            ctx.case(('c09clock.latency', n0, n1), sample={'op': 'c09clock.latency', 'readings': [n0 / 8192.0, n1 / 8192.0], 'impl': impl[-1]}
                     if rng.random() < 0.05 else None)
            if len(got) != 1 or not isinstance(got[0], int) or got[0] < 0:
                ctx.violation('plain status query with clock readings %r s then %r s (monotonic): latency report %r'
                              % (n0 / 8192.0, n1 / 8192.0, got), {'readings': [n0, n1], 'denominator': 8192},
                              key={'kind': 'clock-latency', 'n0': n0, 'n1': n1})
    finally:
        C.timeit = saved_timeit
    for line, mo, g in zip(lines, ctx.driver.ask(lines), impl):
        if mo != g:
            ctx.disagree('latency over dyadic clock readings (c09clock.latency)', line, mo, g)
    # (b)
    SUPN, KN = dict(minecraft.SUPPORTED_MINECRAFT_VERSIONS), dict(minecraft.KNOWN_MINECRAFT_VERSIONS)
    SP = list(minecraft.SUPPORTED_PROTOCOL_VERSIONS)
    hn = lambda t: t.encode('utf-8').hex() or '-'
    env = 'sv=%s kv=%s sp=%s' % (','.join('%s:%d' % (hn(k), v) for k, v in SUPN.items()) or '-',
                                 ','.join('%s:%d' % (hn(k), v) for k, v in KN.items()) or '-', ','.join(map(str, SP)) or '-')
    known_only = [k for k in KN if k not in SUPN]
    shared = [k for k in known_only if KN[k] in SP]
    picks = []
    for _ in range(ctx.scale(60, 500)):
        r = rng.random()
        if r < 0.3:
            picks.append(rng.choice(sorted(SUPN)))
        elif r < 0.55 and shared:
            picks.append(rng.choice(shared))
        elif r < 0.7 and known_only:
            picks.append(rng.choice(known_only))
        elif r < 0.8:
            picks.append(rng.choice(['', 'nonsense', '1.99', '1.8 ', ' 1.8', '1.8\u00e9']))
        elif r < 0.95:
            picks.append(rng.choice(SP + list(minecraft.KNOWN_PROTOCOL_VERSIONS) + [0, -1, 99999]))
        else:
            picks.append(rng.choice([2.5, None, (47,), b'1.8']))
    lines, impl = [], []
    for x in picks:
        if x is None:
            continue                       # None means "no initial version": not a lookup
        try:
            c = C.Connection('h', 25565, username='u', initial_version=x)
            g = 'ok %d' % c.default_proto_version
        except ValueError:
            g = 'err:value'
        except TypeError:
            g = 'err:type'
        tok = 'o' if isinstance(x, bool) or not isinstance(x, (int, str)) else ('i%d' % x if isinstance(x, int) else 's' + hn(x))
        lines.append('c09clock.ctor sup %s %s' % (env, tok))
        impl.append(g)
        ctx.case(('c09clock.ctor', repr(x)), sample={'op': 'c09clock.ctor', 'initial_version': repr(x), 'impl': g} if rng.random() < 0.05 else None)
        ctx.count('c09clock.ctor.' + g.split()[0])
        if isinstance(x, str) and x not in SUPN and g.startswith('ok'):
            ctx.violation('Connection(initial_version=%r) accepted: %r is not a supported version name%s'
                          % (x, x, ' (it is known, unsupported, and shares protocol %d with a supported release)' % KN[x] if x in shared else ''),
                          {'name': x}, key={'kind': 'clock-ctor', 'name': x})
    for line, mo, g in zip(lines, ctx.driver.ask(lines), impl):
        if mo != g:
            ctx.disagree('constructor name lookup (c09clock.ctor)', line[-80:], mo, g)


def statusx_tie(ctx):
    """Tie of Model/C09Status.lean (driver `negx.eval`, `statusx.run`; ported from harness/xcheck/c09status_xcheck.py).
    negx.eval: the real PlayingStatusReactor.handle_status + handle_exception on arbitrary JSON replies (and on a closed
    connection, an I/O error, unparsable JSON), with `connect` / `disconnect` replaced ON THE INSTANCE by recorders.
    statusx.run: the real Connection.status on the sequential simnet with all nine handler-mode pairs, a server that
    pushes responses / pongs / other frames, a scripted clock (connection.timeit replaced, builtins.print recorded: both
    restored in finally)."""
    import builtins
    import math
    import minecraft
    import minecraft.networking.connection as C
    from minecraft.exceptions import VersionMismatch
    rng = ctx.rng
    SUP = list(minecraft.SUPPORTED_PROTOCOL_VERSIONS)
    KNOWN_NAMES = dict(minecraft.KNOWN_MINECRAFT_VERSIONS)
    hx_ = lambda s: s.encode('utf-8').hex() or '-'
    cl = lambda xs: ','.join(str(x) for x in xs) or '-'

    def toks(v):
        if v is None:
            return ['n']
        if v is True:
            return ['t']
        if v is False:
            return ['f']
        if isinstance(v, int):
            return ['i%d' % v]
        if isinstance(v, float):
            if math.isnan(v):
                return ['Fn']
            if math.isinf(v):
                return ['Fx']
            return ['Fi%d' % int(v)] if v == int(v) else ['Ff']
        if isinstance(v, str):
            return ['s' + hx_(v)]
        if isinstance(v, list):
            return ['a%d' % len(v)] + [t for x in v for t in toks(x)]
        if isinstance(v, dict):
            return ['o%d' % len(v)] + [t for k, x in v.items() for t in [hx_(k)] + toks(x)]
        raise TypeError(v)

    def atom(v):
        return 'a' if isinstance(v, list) else 'o' if isinstance(v, dict) else toks(v)[0]

    def strings_in(v, out):
        if isinstance(v, str):
            out.add(v)
        elif isinstance(v, list):
            for x in v:
                strings_in(x, out)
        elif isinstance(v, dict):
            for k, x in v.items():
                out.add(k)
                strings_in(x, out)

    def gen_scalar(allowed):
        return rng.choice([None, True, False, 0, 1, -3, rng.choice(allowed), rng.choice(SUP), 99999, 2 ** 40,
                           float(rng.choice(allowed)), float(rng.choice(SUP)), 5.5, float('nan'), float('inf'), float('-inf'),
                           1e300, -0.0, '47', '', 'protocol', 'version', 'xx'])

    def gen_any(allowed, depth=2):
        r = rng.random()
        if depth == 0 or r < 0.5:
            return gen_scalar(allowed)
        if r < 0.75:
            return [gen_any(allowed, depth - 1) for _ in range(rng.randrange(0, 3))] + rng.choice([[], ['version'], ['protocol']])
        return {rng.choice(['a', 'name', 'protocol', 'version', 'q']): gen_any(allowed, depth - 1) for _ in range(rng.randrange(0, 3))}

    def gen_name(allowed):
        return rng.choice([None, '1.8.9', '1.12.2', 'zzz', rng.choice(sorted(KNOWN_NAMES)), 7, True, 2.5, [1, 2], {'a': 1}, {}, []])

    def gen_version(allowed):
        r = rng.random()
        if r < 0.7:
            d = {}
            if rng.random() < 0.85:
                d['protocol'] = gen_any(allowed, 1) if rng.random() < 0.3 else gen_scalar(allowed)
                if rng.random() < 0.4:
                    d['protocol'] = rng.choice([rng.choice(allowed), rng.choice(SUP), None, None])
            if rng.random() < 0.6:
                d['name'] = gen_name(allowed)
            if rng.random() < 0.3:
                d['z'] = 1
            its = list(d.items())
            rng.shuffle(its)
            return dict(its)
        if r < 0.8:
            return rng.choice([[], ['protocol'], ['x', 'protocol'], [['protocol']], [1]])
        if r < 0.9:
            return rng.choice(['', 'protocol', 'xprotocolx', 'proto', 'x'])
        return gen_scalar(allowed)

    def gen_status(allowed):
        r = rng.random()
        if r < 0.7:
            d = {}
            if rng.random() < 0.85:
                d['version'] = gen_version(allowed)
            if rng.random() < 0.5:
                d['description'] = 'x'
            its = list(d.items())
            rng.shuffle(its)
            return dict(its)
        if r < 0.8:
            return rng.choice([[], ['version'], ['a', 'version'], [['version']], [1, None]])
        if r < 0.9:
            return rng.choice(['', 'version', 'xversionx', 'versio', 'x'])
        return gen_any(allowed)

    def err_name(e):
        for cls, nm in ((TypeError, 'type'), (ValueError, 'value'), (OverflowError, 'other'), (KeyError, 'other'), (AttributeError, 'other')):
            if isinstance(e, cls):
                return nm
        return 'UNEXPECTED:' + type(e).__name__

    def real_eval(allowed, default, kind, status):
        conn = C.Connection('h', 1, username='u', allowed_versions=set(allowed), initial_version=default)
        calls, hf = [], []
        conn.connect = lambda: calls.append(set(conn.allowed_proto_versions))
        conn.disconnect = lambda immediate=False: None
        r = C.PlayingStatusReactor(conn)
        orig = r.handle_failure

        def hfail():
            hf.append(1)
            return orig()
        r.handle_failure = hfail
        exc = None
        if kind == 'json':
            try:
                r.handle_status(status)
            except Exception as e:
                exc = e
        elif kind == 'closed':
            exc = EOFError('Unexpected end of message.')
        elif kind == 'ioerror':
            exc = ConnectionResetError(104, 'Connection reset by peer')
        else:
            try:
                json.loads('{bad')
            except Exception as e:
                exc = e
        if exc is not None and r.handle_exception(exc, None):      # Connection._handle_exception: the reactor's handler first
            exc = None
        if exc is None:
            if len(calls) != 1 or len(calls[0]) != 1:
                return 'ok swallowed-but-connect-calls=%r' % (calls,)
            (v,) = calls[0]
            if type(v) is float:
                return 'ok connectfloat %d' % int(v)
            return 'ok connect %d fb=%d' % (int(v), bool(hf))
        if isinstance(exc, VersionMismatch):
            sp, sv = exc.server_protocol, exc.server_version
            expressible = (sp is None or type(sp) in (int, bool)) and (sv is None or isinstance(sv, str))
            return 'ok raised mismatch %s %s supported=%d msg=%s' % (atom(sp), atom(sv), 'not supported' not in str(exc),
                                                                      str(exc).encode().hex() if expressible else '?')
        if isinstance(exc, EOFError):
            return 'ok raised eof'
        if isinstance(exc, json.JSONDecodeError):
            return 'ok raised json'
        if isinstance(exc, IOError) and 'Invalid server status' in str(exc):
            return 'ok raised invalid'
        if isinstance(exc, OSError):
            return 'ok raised os'
        return 'ok raised py:' + err_name(exc)
    lines, want = [], []
    for i in range(ctx.scale(400, 6000)):
        allowed = rng.sample(SUP, rng.randrange(2, 5))
        default = rng.choice(allowed + [rng.choice(SUP)])
        kind = rng.choice(['json'] * 12 + ['closed', 'ioerror', 'badjson'])
        status = gen_status(allowed) if kind == 'json' else None
        got = real_eval(allowed, default, kind, status)
        names = set()
        strings_in(status, names)
        kn = ','.join('%s:%d' % (hx_(k), KNOWN_NAMES[k]) for k in sorted(names) if k in KNOWN_NAMES) or '-'
        line = 'negx.eval sp=%s kn=%s allowed=%s default=%d test=eof reply=%s' % (cl(SUP), kn, cl(allowed), default, kind)
        if kind == 'json':
            line += ' ' + ' '.join(toks(status))
        lines.append(line)
        want.append(got)
        ctx.count('negx.' + (' '.join(got.split()[1:3]) if 'raised' in got else got.split()[1]))
    n_negx = len(lines)

    # ---- plain status query on the simnet
    class PushServer:
        """sends a fixed sequence of clientbound status-state frames as soon as the client connects"""

        def __init__(self, sock, frames):
            self.sock = sock
            for f in frames:
                sock.inbox.feed(f)

        def on_bytes(self, data):
            pass
    frame = lambda pid, body: rc.frame(rc.varint(pid) + body, None)
    saved_timeit, real_print = C.timeit, builtins.print
    for i in range(ctx.scale(120, 2500)):
        hs, hp, ex = rng.choice('dcx'), rng.choice('dcx'), rng.choice([0, 1])
        clock = sorted(rng.randrange(0, 10 ** 6) for _ in range(8)) if rng.random() < 0.8 else [rng.randrange(0, 10 ** 6) for _ in range(8)]
        items, frames = [], []
        for j in range(rng.randrange(0, 7)):
            r = rng.random()
            if r < 0.35:
                text = json.dumps({'n': j, 'description': rng.choice(['a', 'b'])})
                items.append('r:' + hx_(text))
                frames.append(frame(0, rc.string(text)))
            elif r < 0.45:
                items.append('b')
                frames.append(frame(0, rc.string('{bad')))
            elif r < 0.75:
                t = rng.choice(clock + [0, -5, 2 ** 62, rng.randrange(0, 10 ** 6)])
                items.append('p:%d' % t)
                frames.append(frame(1, t.to_bytes(8, 'big', signed=True)))
            else:
                items.append('o')
                frames.append(frame(rng.choice([2, 5, 0x7f]), b'\x01\x02'))
        it = iter(clock)
        log, printed = [], []
        C.timeit = types.SimpleNamespace(default_timer=lambda it=it: next(it) / 1000.0 + 0.0004)
        try:
            with simnet.Net(lambda s, frames=frames: PushServer(s, frames)) as net:
                conn = C.Connection('h', 25565, handle_exception=lambda e, info: log.append('exc:' + err_name(e)),
                                    handle_exit=(lambda: log.append('exit')) if ex else None)
                user_s = lambda d: log.append(('status', 'U', d))
                user_p = lambda ms: log.append('latency:U:%d' % ms)
                kw = {}
                if hs != 'd':
                    kw['handle_status'] = user_s if hs == 'c' else False
                kw['handle_ping'] = None if hp == 'd' else user_p if hp == 'c' else False
                conn.status(**kw)

                def who(fn, user):           # instrument what the reactor will call, without replacing any of it
                    if fn is user:
                        return 'U'
                    if getattr(fn, '__func__', None) in (C.StatusReactor.handle_status, C.StatusReactor.handle_ping):
                        return 'P'
                    return 'N' if getattr(fn, '__name__', '') == '<lambda>' else '?'
                os_, op_ = conn.reactor.handle_status, conn.reactor.handle_ping
                ws, wp = who(os_, user_s), who(op_, user_p)

                def wrap_s(d):
                    if ws != 'U':
                        log.append(('status', ws, d))
                    np_ = len(printed)
                    res = os_(d)
                    if ws == 'P' and (len(printed) != np_ + 1 or printed[-1] != (d,)):
                        log.append('PRINT-MISSING')
                    if ws == 'N' and len(printed) != np_:
                        log.append('NOOP-PRINTED')
                    return res

                def wrap_p(ms):
                    if wp != 'U':
                        log.append('latency:%s:%d' % (wp, ms))
                    np_ = len(printed)
                    res = op_(ms)
                    if wp == 'P' and (len(printed) != np_ + 1 or printed[-1] != ('Ping: %d ms' % ms,)):
                        log.append('PRINT-MISSING')
                    return res
                conn.reactor.handle_status, conn.reactor.handle_ping = wrap_s, wrap_p
                real_wp, real_dc = conn.write_packet, conn.disconnect

                def wp_(packet, force=False):
                    if packet.packet_name == 'ping':
                        log.append('ping:%d' % packet.time)
                    return real_wp(packet, force)

                def dc_(immediate=False):
                    log.append('discimm' if immediate else 'disc')
                    return real_dc(immediate)
                conn.write_packet, conn.disconnect = wp_, dc_
                builtins.print = lambda *a, **k: printed.append(a)
                try:
                    net.run_threads()
                finally:
                    builtins.print = real_print
                ended, connected, thread_errors = int(not net.stops), int(conn.connected), list(net.thread_errors)
        finally:
            C.timeit, builtins.print = saved_timeit, real_print
        acts = ['status:%s:%s' % (a[1], hx_(json.dumps(a[2]))) if isinstance(a, tuple) else a for a in log]
        err = '-'
        for a in acts:
            if a.startswith('exc:'):
                err = a[4:]
        want.append('ok acts=%s connected=%d ended=%d err=%s' % (','.join(acts) or '-', connected, ended, err) +
                    (' THREAD-ERRORS %r' % thread_errors if thread_errors else ''))
        lines.append('statusx.run hs=%s hp=%s exit=%d script=%s clock=%s' % (hs, hp, ex, ','.join(items) or '-', cl(clock)))
        ctx.count('statusx.modes.%s%s' % (hs, hp))
    for line, mo, w in zip(lines, ctx.driver.ask(lines), want):
        op = line.split()[0]
        ctx.case(('c09status', line), sample={'op': op, 'impl': w[:160]} if rng.random() < 0.03 else None)
        if mo != w:
            ctx.disagree('%s vs the real code' % op, (line if op == 'statusx.run' else line[line.index(' kn='):])[:700], mo[:400], w[:400])
    ctx.extra['c09negx_pairs'] = ctx.extra.get('c09negx_pairs', 0) + n_negx
    ctx.extra['c09statusx_pairs'] = ctx.extra.get('c09statusx_pairs', 0) + len(lines) - n_negx


def replay(ctx, rp):
    for v in rp.get('violations', []):
        print(v)
    return not rp.get('violations')
