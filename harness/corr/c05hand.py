"""C05 (hand-written codecs): MapPacket, PlayerListItemPacket, SpawnObjectPacket, CombatEventPacket,
FacePlayerPacket (clientbound play) and PluginResponsePacket (serverbound login).

For every protocol version under test and every hand-written class registered for it:
 * correspondence: real `write_fields` bytes == `pk.enc` reply of the Lean model; what the real `read`
   makes of those bytes (and of the bytes followed by junk, and of strict prefixes) == `pk.dec` reply;
 * oracle (independent of the model): write then read with the real code under the same version gives
   equal field values and consumes the payload exactly; `repr(packet)` does not raise;
   `packet.id == cls.get_id(context)`.

Two kinds of generated packets: *exact* ones lie in the sub-domain where the reader must reproduce the
writer's attributes literally (oracle + correspondence); *extended* ones exercise the documented
`normalise` behaviour (attributes the writer ignores, nibble masking before 373, map offsets 128..255
read back as signed bytes, ...) and are checked against the model only.

Flag strings are derived from the real `ConnectionContext` predicates:
 map `<v107><v452><pre6><v373><v364>`, spawn `<v49><v458><v100>`, face `<v353>`, combat `<pre15>`,
 pli / plugresp `-`.  Token syntax: lean/PyCraft/Drive/Packets.lean.
"""
import struct
import uuid as uuidlib

from lib import hx

RULE_HAND = ("hand-written codecs: every version under test (quick: both neighbours of every flag / "
             "registration boundary + ~40 seeded others; thorough: all supported versions + boundary "
             "neighbours) x every hand-written class registered for it x boundary and seeded random "
             "wire-representable values in every optional-field / variant combination; write bytes, "
             "read-back fields, read with trailing junk and of strict prefixes compared with the Lean "
             "model; real write->read round trip as the oracle; distinct by (kind, flags, fields)")

UNSET = ('<unset>',)      # attribute never assigned (distinct from None)


def ename(e):
    if isinstance(e, struct.error):
        return 'struct'
    if isinstance(e, EOFError):
        return 'eof'
    if isinstance(e, UnicodeDecodeError):
        return 'decode'
    if isinstance(e, ValueError) and 'too long' in str(e):
        return 'toolong'
    if isinstance(e, ValueError):
        return 'value'
    if isinstance(e, TypeError):
        return 'type'
    if isinstance(e, (AttributeError, NotImplementedError)):
        return 'other'
    if isinstance(e, AssertionError):
        return 'assertion'
    return type(e).__name__


# ------------------------------------------------------------------ token syntax of the driver

def hs(s):
    if s is None or s is UNSET:
        return '~'
    return s.encode('utf-8').hex() or '-'


def hb(b):
    if b is None or b is UNSET:
        return '~'
    return hx(bytes(b))


def oi(v):
    return '~' if (v is None or v is UNSET) else '%d' % v


def ob(v):
    return '~' if (v is None or v is UNSET) else ('1' if v else '0')


def dpat(v):
    """64-bit IEEE pattern of a float (attributes that hold doubles)."""
    if v is None or v is UNSET:
        return v
    return int.from_bytes(struct.pack('>d', v), 'big')


def dval(pat):
    return struct.unpack('>d', pat.to_bytes(8, 'big'))[0]


def ubytes(u):
    if u is None or u is UNSET:
        return u
    return uuidlib.UUID(u).bytes


def ustr(b):
    return str(uuidlib.UUID(bytes=bytes(b)))


def astep(v):
    """wire step of an Angle attribute that holds 360*step/256"""
    return int(round(v * 256 / 360))


def tok_list(items):
    return '[' + ','.join(items) + ']'


# snapshots: a plain-data picture of a real packet object, in the driver's token space; used both for
# the model lines and (by equality) for the oracle

def snap_map(p, fl):
    g = lambda a: getattr(p, a, UNSET)
    icons = [(ic.type, ic.direction, ic.location[0], ic.location[1], ic.display_name) for ic in p.icons]
    px = g('pixels')
    off = g('offset')
    return (g('map_id'), g('scale'), g('is_tracking_position'), g('is_locked'), icons, g('width'),
            g('height'), tuple(off) if isinstance(off, (tuple, list)) else off,
            bytes(px) if isinstance(px, (bytes, bytearray)) else px)


def tok_map(s):
    mid, sc, tr, lk, icons, w, h, off, px = s
    ic = tok_list('%d:%d:%d:%d:%s' % (t, d, x, z, hs(n)) for t, d, x, z, n in icons)
    o = '~' if (off is None or off is UNSET) else '%d:%d' % off
    return '%d %d %s %s %s %d %d %s %s' % (mid, sc, ob(tr), ob(lk), ic, w, h, o, hb(px))


def snap_pli(p, fl):
    acts = []
    for a in p.actions:
        k = type(a).action_id
        u = ubytes(a.uuid)
        if k == 0:
            props = [(q.name, q.value, q.signature) for q in a.properties]
            acts.append((0, u, a.name, props, a.gamemode, a.ping, a.display_name))
        elif k == 1:
            acts.append((1, u, a.gamemode))
        elif k == 2:
            acts.append((2, u, a.ping))
        elif k == 3:
            acts.append((3, u, a.display_name))
        else:
            acts.append((4, u))
    return (p.action_type.action_id, acts)


def tok_action(a):
    k, u = a[0], hx(a[1])
    if k == 0:
        props = tok_list('%s/%s/%s' % (hs(n), hs(v), hs(sg)) for n, v, sg in a[3])
        return 'a:%s:%s:%s:%d:%d:%s' % (u, hs(a[2]), props, a[4], a[5], hs(a[6]))
    if k == 1:
        return 'g:%s:%d' % (u, a[2])
    if k == 2:
        return 'l:%s:%d' % (u, a[2])
    if k == 3:
        return 'd:%s:%s' % (u, hs(a[2]))
    return 'r:%s' % u


def tok_pli(s):
    return '%d %s' % (s[0], tok_list(tok_action(a) for a in s[1]))


def snap_spawn(p, fl):
    g = lambda a: getattr(p, a, UNSET)
    dbl = fl[2] == '1'
    xyz = tuple(dpat(g(a)) if dbl else g(a) for a in ('x', 'y', 'z'))
    return (g('entity_id'), ubytes(g('object_uuid')), g('type_id')) + xyz + \
        (astep(p.pitch), astep(p.yaw), g('data'), g('velocity_x'), g('velocity_y'), g('velocity_z'))


def tok_spawn(s):
    return '%d %s %d %d %d %d %d %d %d %s %s %s' % (
        s[0], hb(s[1]), s[2], s[3], s[4], s[5], s[6], s[7], s[8], oi(s[9]), oi(s[10]), oi(s[11]))


def snap_combat(p, fl):
    e = p.event
    k = type(e).id
    if k == 0:
        return ('enter',)
    if k == 1:
        return ('end', e.duration, e.entity_id)
    return ('dead', e.player_id, e.entity_id, e.message)


def tok_combat(s):
    if s[0] == 'enter':
        return 'enter'
    if s[0] == 'end':
        return 'end:%d:%d' % s[1:]
    return 'dead:%d:%d:%s' % (s[1], s[2], hs(s[3]))


def snap_face(p, fl):
    g = lambda a: getattr(p, a, UNSET)
    return (g('origin'), dpat(g('x')), dpat(g('y')), dpat(g('z')), g('entity_id'), g('entity_origin'))


def tok_face(s):
    return ' '.join(oi(v) for v in s)


def snap_plug(p, fl):
    g = lambda a: getattr(p, a, UNSET)
    d = g('data')
    return (g('message_id'), g('successful'), bytes(d) if isinstance(d, (bytes, bytearray)) else d)


def tok_plug(s):
    return '%d %s %s' % (s[0], ob(s[1]), hb(s[2]))


SNAP = {'map': (snap_map, tok_map), 'pli': (snap_pli, tok_pli), 'spawn': (snap_spawn, tok_spawn),
        'combat': (snap_combat, tok_combat), 'face': (snap_face, tok_face),
        'plugresp': (snap_plug, tok_plug)}


# ------------------------------------------------------------------ value pools

VARINTS = [0, 1, 127, 128, 300, 2 ** 31 - 1, 2 ** 32 - 1]
I32 = [-2 ** 31, -1, 0, 1, 2 ** 31 - 1]
I16 = [-2 ** 15, -1, 0, 1, 2 ** 15 - 1]
I8 = [-128, -1, 0, 1, 127]
STRS = ['', 'a', 'Zoë', '日本', 'x' * 130, '{"text":"hi"}', '\U0001f600 ok']
DPATS = [0, 1 << 63, 0x3ff0000000000000, 0xbff0000000000000, 0x7ff0000000000000, 0xfff0000000000000,
         1, 0x000fffffffffffff, 0x7fefffffffffffff, 0x4059000000000000]


def rvarint(rng):
    return rng.choice(VARINTS) if rng.random() < 0.5 else rng.randrange(2 ** rng.choice([7, 14, 21, 32]))


def rint(rng, pool, bits):
    return rng.choice(pool) if rng.random() < 0.5 else rng.randrange(-2 ** (bits - 1), 2 ** (bits - 1))


def rstr(rng):
    if rng.random() < 0.6:
        return rng.choice(STRS)
    return ''.join(chr(rng.choice([rng.randrange(32, 127), rng.randrange(0xa1, 0x800),
                                   rng.randrange(0x4e00, 0x9fff)])) for _ in range(rng.randrange(0, 12)))


def rostr(rng):
    return None if rng.random() < 0.4 else rstr(rng)


def rdouble(rng):
    if rng.random() < 0.5:
        pat = rng.choice(DPATS)
    else:
        pat = rng.getrandbits(64)
        if (pat >> 52) & 0x7ff == 0x7ff and pat & ((1 << 52) - 1):
            pat &= ~(0x7ff << 52) | (0x400 << 52)      # not a NaN: payload bits are not portable
    return dval(pat)


def rbytes(rng, mx=40):
    n = rng.choice([0, 1, 2, 127, 128, 200]) if rng.random() < 0.3 else rng.randrange(0, mx)
    return bytes(rng.getrandbits(8) for _ in range(n))


def ruuid(rng):
    return ustr(rng.choice([bytes(16), b'\xff' * 16, bytes(range(16))]) if rng.random() < 0.3
                else bytes(rng.getrandbits(8) for _ in range(16)))


# ------------------------------------------------------------------ the run

def run_hand(ctx):
    import minecraft
    from minecraft import PRE
    from minecraft.networking.connection import ConnectionContext
    from minecraft.networking.packets import PacketBuffer, clientbound, serverbound
    rng = ctx.rng
    ctx.extra['rule_hand'] = RULE_HAND
    MP = clientbound.play.MapPacket
    PLI = clientbound.play.PlayerListItemPacket
    SO = clientbound.play.SpawnObjectPacket
    CE = clientbound.play.CombatEventPacket
    FP = clientbound.play.FacePlayerPacket
    PR = serverbound.login.PluginResponsePacket
    known = list(minecraft.KNOWN_PROTOCOL_VERSIONS)
    idx = minecraft.PROTOCOL_VERSION_INDICES
    supported = sorted(set(minecraft.SUPPORTED_PROTOCOL_VERSIONS), key=lambda v: idx[v])

    # ---- versions: both neighbours of every flag / registration boundary (in publication order)
    boundaries = [49, 100, 107, 352, 353, 364, 373, 385, 452, 458, PRE | 6, PRE | 15]
    edge = set()
    for b in boundaries:
        if b in idx:
            edge.add(b)
            if idx[b] > 0:
                edge.add(known[idx[b] - 1])
    edge |= {supported[0], supported[-1]}
    if ctx.thorough or ctx.searching:
        versions = sorted(set(supported) | edge, key=lambda v: idx[v])
    else:
        others = [v for v in supported if v not in edge]
        versions = sorted(edge | set(rng.sample(others, min(40, len(others)))), key=lambda v: idx[v])
    ctx.extra['hand_versions_checked'] = len(versions)
    n_rand = ctx.scale(4, 12)

    pending = []     # (what, case, line, impl reply)

    def flags_of(kind, c):
        le = c.protocol_later_eq
        if kind == 'map':
            return ''.join('01'[bool(le(x))] for x in (107, 452, PRE | 6, 373, 364))
        if kind == 'spawn':
            return ''.join('01'[bool(le(x))] for x in (49, 458, 100))
        if kind == 'face':
            return '01'[bool(le(353))]
        if kind == 'combat':
            return '01'[bool(le(PRE | 15))]
        return '-'

    def do_read(cls, c, data):
        """real read of `data`: (packet or None, reply-shaped outcome, unread rest or None)"""
        q = cls(c)
        pb = PacketBuffer()
        pb.send(data)
        pb.reset_cursor()
        try:
            q.read(pb)
        except Exception as e:
            return None, 'err:' + ename(e), None
        return q, None, pb.read()

    def check(kind, cls, v, c, p, exact):
        """one packet object `p` of class `cls` under version `v`"""
        snap, tok = SNAP[kind]
        fl = flags_of(kind, c)
        s_in = snap(p, fl)
        fields = tok(s_in)
        case = {'class': cls.__name__, 'version': v, 'flags': fl, 'fields': fields[:400]}
        vkey = {'class': cls.__name__, 'version': v, 'fields': fields[:400]}
        ctx.case((kind, fl, fields, exact), sample=case)
        ctx.count('%s.%s' % (kind, 'exact' if exact else 'extended'))
        # -- real write
        buf = PacketBuffer()
        try:
            p.write_fields(buf)
            data = buf.get_writable()
            wrote = 'ok ' + hx(data)
        except Exception as e:
            data = None
            wrote = 'err:' + ename(e)
        pending.append(('%s.write_fields' % cls.__name__, case, 'pk.enc %s %s %s' % (kind, fl, fields), wrote))
        # -- repr / id (never part of the wire, but must work on a populated packet)
        try:
            repr(p)
        except Exception as e:
            ctx.violation('repr() of a populated %s raises %s under protocol %d'
                          % (cls.__name__, type(e).__name__, v), case,
                          key={'class': cls.__name__, 'version': v, 'repr': type(e).__name__})
        if data is None:
            if exact:
                ctx.violation('%s.write_fields raises %s on wire-representable fields under protocol %d'
                              % (cls.__name__, wrote, v), case, key=vkey)
            return
        # -- real read of exactly the payload
        q, err, rest = do_read(cls, c, data)
        if q is None:
            got = err
        else:
            s_out = snap(q, fl)
            got = 'ok %s rest=%s' % (tok(s_out), hx(rest))
            try:
                repr(q)
            except Exception as e:
                ctx.violation('repr() of a received %s raises %s under protocol %d'
                              % (cls.__name__, type(e).__name__, v), case,
                              key={'class': cls.__name__, 'version': v, 'repr': type(e).__name__})
        pending.append(('%s.read' % cls.__name__, case, 'pk.dec %s %s %s' % (kind, fl, hx(data)), got))
        if exact:
            if q is None:
                ctx.violation('%s under protocol %d: reading back its own payload raises %s'
                              % (cls.__name__, v, err), dict(case, payload=hx(data)), key=vkey)
            elif rest != b'':
                ctx.violation('%s under protocol %d: read leaves %d of %d payload bytes unread'
                              % (cls.__name__, v, len(rest), len(data)),
                              dict(case, payload=hx(data), read_back=got[:400]), key=vkey)
            elif s_out != s_in:
                ctx.violation('%s under protocol %d: fields read back differ from the fields written'
                              % (cls.__name__, v),
                              dict(case, payload=hx(data), read_back=got[:400]), key=vkey)
        # -- junk after the payload (self-delimiting packets leave it), and a strict prefix
        if rng.random() < 0.5:
            junk = bytes(rng.getrandbits(8) for _ in range(rng.randrange(1, 4)))
            q2, err2, rest2 = do_read(cls, c, data + junk)
            got2 = err2 if q2 is None else 'ok %s rest=%s' % (tok(snap(q2, fl)), hx(rest2))
            pending.append(('%s.read+junk' % cls.__name__, case,
                            'pk.dec %s %s %s' % (kind, fl, hx(data + junk)), got2))
            ctx.count('%s.junk' % kind)
        if data and rng.random() < 0.5:
            cut = data[:rng.randrange(0, len(data))]
            q3, err3, rest3 = do_read(cls, c, cut)
            try:
                got3 = err3 if q3 is None else 'ok %s rest=%s' % (tok(snap(q3, fl)), hx(rest3))
            except Exception:
                got3 = None       # a prefix that parses into something the snapshot cannot picture
            if got3 is not None:
                pending.append(('%s.read(prefix)' % cls.__name__, case,
                                'pk.dec %s %s %s' % (kind, fl, hx(cut)), got3))
                ctx.count('%s.prefix' % kind)

    def check_id(cls, v, c):
        try:
            ok = cls(c).id == cls.get_id(c)
            why = 'packet.id != get_id(context)'
        except Exception as e:
            ok, why = False, 'id raises %s' % type(e).__name__
        ctx.case(('id', cls.__name__, v), nontrivial=False)
        if not ok:
            ctx.violation('%s under protocol %d: %s' % (cls.__name__, v, why),
                          {'class': cls.__name__, 'version': v},
                          key={'class': cls.__name__, 'version': v, 'id': True})

    # ---------------------------------------------------------------- builders
    def mk_map(c, exact, shape):
        le = c.protocol_later_eq
        v373, v364 = le(373), le(364)
        p = MP(c)
        p.map_id = rvarint(rng)
        p.scale = rint(rng, I8, 8)
        sent_tracking = le(107) or le(PRE | 6)
        p.is_tracking_position = (rng.random() < 0.5) if (sent_tracking or not exact) else True
        p.is_locked = (rng.random() < 0.5) if (le(452) or not exact) else False
        icons = []
        n_icons = {'empty': 0, 'one': 1}.get(shape, rng.randrange(0, 5))
        for i in range(n_icons):
            if v373:
                t, d = rvarint(rng), rng.choice([0, 1, 15, 16, 255, rng.randrange(256)])
            elif exact:
                t, d = rng.randrange(16), rng.randrange(16)
            else:
                t = rng.choice([16, 21, 255, -1, -3, 2 ** 40 + 7, rng.randrange(-300, 300)])
                d = rng.choice([16, 35, 255, -1, -16, rng.randrange(-300, 300)])
            if v364 or not exact:
                # every display-name combination: absent, empty, text
                name = [None, '', 'name'][i % 3] if shape != 'random' else rostr(rng)
            else:
                name = None
            icons.append(MP.MapIcon(t, d, (rint(rng, I8, 8), rint(rng, I8, 8)), name))
        p.icons = icons
        if shape in ('empty', 'nopixels') or (shape == 'random' and rng.random() < 0.3):
            p.width = 0
            if exact:
                p.height, p.offset, p.pixels = 0, None, None
            else:
                p.height = rng.randrange(256)
                p.offset = rng.choice([None, (3, 4)])
                p.pixels = rng.choice([None, b'\x01\x02'])
        else:
            p.width = rng.choice([1, 2, 127, 128, 255])
            p.height = rng.choice([0, 1, 128, 255])
            hi = 128 if exact else 256
            p.offset = (rng.choice([0, 1, hi - 1, rng.randrange(hi)]),
                        rng.choice([0, hi - 1, rng.randrange(hi)]))
            if not exact and rng.random() < 0.5:
                p.offset = (rng.randrange(128, 256), p.offset[1])
            # length deliberately unrelated to width*height
            p.pixels = rbytes(rng, 300) if rng.random() < 0.7 else bytearray(rbytes(rng))
        return p

    def mk_property():
        return PLI.PlayerProperty(name=rstr(rng), value=rstr(rng), signature=rostr(rng))

    def mk_action(kind, variant):
        u = ruuid(rng)
        if kind == 0:
            nprops = variant % 4 if variant < 8 else rng.randrange(0, 5)
            props = [mk_property() for _ in range(nprops)]
            if nprops >= 2:     # with and without signature side by side
                props[0].signature, props[1].signature = None, rstr(rng)
            dn = [None, '', 'shown'][variant % 3] if variant < 8 else rostr(rng)
            return PLI.AddPlayerAction(uuid=u, name=rstr(rng), properties=props, gamemode=rvarint(rng),
                                       ping=rvarint(rng), display_name=dn)
        if kind == 1:
            return PLI.UpdateGameModeAction(uuid=u, gamemode=rvarint(rng))
        if kind == 2:
            return PLI.UpdateLatencyAction(uuid=u, ping=rvarint(rng))
        if kind == 3:
            dn = [None, '', 'shown'][variant % 3] if variant < 8 else rostr(rng)
            return PLI.UpdateDisplayNameAction(uuid=u, display_name=dn)
        return PLI.RemovePlayerAction(uuid=u)

    PLI_KINDS = [PLI.AddPlayerAction, PLI.UpdateGameModeAction, PLI.UpdateLatencyAction,
                 PLI.UpdateDisplayNameAction, PLI.RemovePlayerAction]

    def mk_pli(c, kind, n):
        p = PLI(c)
        p.action_type = PLI_KINDS[kind]
        p.actions = [mk_action(kind, i if n <= 4 else 8 + i) for i in range(n)]   # never mixed classes
        return p

    def mk_spawn(c, exact, vel):
        le = c.protocol_later_eq
        v49, v458, v100 = le(49), le(458), le(100)
        p = SO(c)
        p.entity_id = rvarint(rng)
        if v49 or (not exact and rng.random() < 0.5):
            p.object_uuid = ruuid(rng)
        p.type_id = rvarint(rng) if v458 else rint(rng, I8, 8)
        for a in ('x', 'y', 'z'):
            setattr(p, a, rdouble(rng) if v100 else rint(rng, I32, 32))
        p.pitch = 360 * rng.choice([0, 1, 64, 128, 255, rng.randrange(256)]) / 256
        p.yaw = 360 * rng.choice([0, 255, rng.randrange(256)]) / 256
        if vel:
            p.data = rng.choice([1, 2 ** 31 - 1, rng.randrange(1, 2 ** 31)])
        else:
            p.data = rng.choice([0, -1, -2 ** 31, rng.randrange(-2 ** 31, 1)])
        if v49 or p.data > 0 or (not exact and rng.random() < 0.7):
            p.velocity_x, p.velocity_y, p.velocity_z = (rint(rng, I16, 16) for _ in range(3))
        return p

    def mk_combat(c, kind):
        p = CE(c)
        if kind == 0:
            p.event = CE.EnterCombatEvent()
        elif kind == 1:
            p.event = CE.EndCombatEvent(duration=rvarint(rng), entity_id=rint(rng, I32, 32))
        else:
            p.event = CE.EntityDeadEvent(player_id=rvarint(rng), entity_id=rint(rng, I32, 32),
                                         message=rstr(rng))
        return p

    def mk_face(c, exact, entity):
        v353 = c.protocol_later_eq(353)
        p = FP(c)
        xyz = lambda: [setattr(p, a, rdouble(rng)) for a in ('x', 'y', 'z')]
        if v353:
            p.origin = rng.choice([0, 1, rvarint(rng)])
            xyz()
            if entity:
                p.entity_id = rvarint(rng)
                p.entity_origin = rng.choice([0, 1, rvarint(rng)])
            else:
                p.entity_id = None
                if not exact:
                    p.entity_origin = rng.choice([0, 1])
        else:
            if entity:
                p.entity_id = rvarint(rng)
                if not exact:
                    xyz()
            else:
                p.entity_id = None
                xyz()
            if not exact:
                p.origin = 1
                if rng.random() < 0.5:
                    p.entity_origin = 0
        return p

    def mk_plug(c, shape):
        p = PR(c)
        p.message_id = rvarint(rng)
        if shape == 'ok':                 # exact
            p.successful, p.data = True, rbytes(rng)
        elif shape == 'ok-empty':         # exact
            p.successful, p.data = True, b''
        elif shape == 'fail':             # exact
            p.successful, p.data = False, None
        elif shape == 'derived-ok':       # successful derived from `data is not None`
            p.data = rbytes(rng)
        elif shape == 'derived-fail':
            p.data = None
        elif shape == 'derived-nodata':   # neither attribute assigned
            pass
        else:                             # 'fail-data': data attached to an unsuccessful response
            p.successful, p.data = False, rbytes(rng)
        return p

    # ---------------------------------------------------------------- the sweep
    for v in versions:
        c = ConnectionContext(protocol_version=v)
        play = clientbound.play.get_packets(c)
        login = serverbound.login.get_packets(c)
        ctx.count('hand.versions')
        if MP in play:
            check_id(MP, v, c)
            for shape in ('empty', 'one', 'nopixels', 'many') + ('random',) * n_rand:
                check('map', MP, v, c, mk_map(c, True, shape), True)
            for shape in ('many', 'nopixels') + ('random',) * n_rand:
                check('map', MP, v, c, mk_map(c, False, shape), False)
        if PLI in play:
            check_id(PLI, v, c)
            for kind in range(5):
                for n in (0, 1, 3) + tuple(rng.randrange(5, 9) for _ in range(max(1, n_rand // 2))):
                    check('pli', PLI, v, c, mk_pli(c, kind, n), True)
        if SO in play:
            check_id(SO, v, c)
            for vel in (False, True) * (1 + n_rand // 2):
                check('spawn', SO, v, c, mk_spawn(c, True, vel), True)
            for vel in (False, True):
                check('spawn', SO, v, c, mk_spawn(c, False, vel), False)
        if CE in play:
            check_id(CE, v, c)
            for kind in (0, 1, 2) + tuple(rng.randrange(1, 3) for _ in range(n_rand)):
                check('combat', CE, v, c, mk_combat(c, kind), True)
        elif c.protocol_later_eq(PRE | 15):
            # removed packet: both directions must refuse (model: err:other), nothing to round-trip
            for kind in (0, 2):
                p = mk_combat(c, kind)
                fields = tok_combat(snap_combat(p, '1'))
                ctx.case(('combat', '1', fields, 'deprecated'), nontrivial=False)
                ctx.count('combat.deprecated')
                try:
                    p.write_fields(PacketBuffer())
                    wrote = 'ok'
                except Exception as e:
                    wrote = 'err:' + ename(e)
                pending.append(('CombatEventPacket.write_fields (deprecated)', {'version': v},
                                'pk.enc combat 1 ' + fields, wrote))
            _, err, _ = do_read(CE, c, b'\x00')
            pending.append(('CombatEventPacket.read (deprecated)', {'version': v},
                            'pk.dec combat 1 00', err or 'ok'))
        if FP in play:
            check_id(FP, v, c)
            for entity in (False, True) * (1 + n_rand // 2):
                check('face', FP, v, c, mk_face(c, True, entity), True)
            for entity in (False, True):
                check('face', FP, v, c, mk_face(c, False, entity), False)
        if PR in login:
            check_id(PR, v, c)
            for shape in ('ok', 'ok-empty', 'fail') + tuple(rng.choice(['ok', 'fail']) for _ in range(n_rand)):
                check('plugresp', PR, v, c, mk_plug(c, shape), True)
            for shape in ('derived-ok', 'derived-fail', 'derived-nodata', 'fail-data'):
                check('plugresp', PR, v, c, mk_plug(c, shape), False)

    # ---------------------------------------------------------------- the model's answers
    uniq = sorted({line for _, _, line, _ in pending})
    replies = dict(zip(uniq, ctx.driver.ask(uniq)))
    ctx.extra['hand_model_lines'] = len(uniq)
    for what, case, line, impl in pending:
        mo = replies[line]
        if mo != impl:
            ctx.disagree(what, dict(case, line=line[:600]), mo[:600], impl[:600])
