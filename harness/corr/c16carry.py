"""C16Carry: tie of Model/C16Carry.lean (driver command `carry.run`, variant `real`) to the real
`Connection` object, plus an oracle on the real object for the property itself.

ONE Connection is driven operation by operation through a history of sessions (connect / status / write /
disconnect, the write phase of the networking thread, one read + reaction per incoming packet, the
exception tail and the normal exit of `NetworkingThread.run`).  The networking thread's control flow is
stepped by hand, one block per operation, calling the library's own methods for every block (`_pop_packet`,
`read_packet`, `_react`, `_handle_exception`, `_handle_exit`, `connect`, `status`, `disconnect`,
`write_packet`); no thread is ever started (simnet only queues them).  After every operation the carried
attributes are printed in the format of the driver's state lines and compared with the model.

Histories: the hand-written ones of harness/xcheck/c16carry/xcheck.py first, then random ones from the
generator of that script (all choices from ctx.rng).  A generated history is only used when the scripted
stand-in server can play it; that is decided BEFORE the implementation runs, from the frames the model says
are written (`playable`), so that a conversation which then cannot be played on the real object is a
disagreement and not a discarded case.

Oracle (independent of the model), on the real object:
  * right after every `connect()` / `status()` that returned normally (called by the history, by an exception
    handler, by the exit callback or by PlayingStatusReactor): compression off (False, -1), the socket and
    file object just opened and not the Encrypted* wrappers, `connected` True, `spawned` False (connect), the
    outgoing queue holding exactly handshake + login start / handshake + status request;
  * a session that ended with the server's play-state disconnect packet and whose thread returns while
    `connected` is False gets its exit callback exactly once.
"""
import collections
import socket as realsocket
import sys
import types

import simnet
from refserver import RefServer

WHAT = 'carry.run vs a real Connection driven operation by operation'

CONFIGS = [([340], 340), ([47], 47), ([404], 404), ([340, 47], 340), ([754, 340, 47], 754)]

# (allowed, default, version the server speaks, history) -- the hand-written histories of xcheck.py
FIXED = [
    ([340], 340, 340, 'c f z64 Eeof+ f'),
    ([47], 47, 47, 'c f Elogin c f l D x'),
    ([340], 340, 340, 'c f z64 e l k5 p3 w1 f D x c f'),
    ([340], 340, 340, 'c f z256 e l k5 di c f e l p1 Eio+ f z0 l D x+ f'),
    ([47], 47, 47, 'c f l z64 k1 f D c x f l'),
    ([340], 340, 340, 'w1 d c w2 di cr w3 d c f'),
    ([340], 340, 340, 'c f D+ f l k1 D x'),
    ([340], 340, 340, 'c f Eo1+r c f Eo2+x c f l D x'),
    ([340, 47], 340, 340, 'c f r340 x f l D x'),
    ([340, 47], 340, 340, 'c f Eeof f l D x'),
    ([340, 47], 340, 340, 'c f Eeof-r c f l D x'),
    ([340], 340, 340, 's1 f r340 f o x c f'),
    ([340], 340, 340, 's0 f r340 x s0r c f l w3 w4 d!1 x'),
    ([340], 340, 340, 'c f l w1 w2 w3 f2!1 D x'),
    ([340], 340, 340, 'c f z64 l D x+ f z1 l D x+r'),
]

# what may escape from the code under test without being a bug of this file (simnet's three are BaseExceptions)
CATCH = (Exception, simnet.Idle, simnet.Stall, simnet.ReadBudget)


class Other(Exception):
    def __init__(self, n):
        Exception.__init__(self, n)
        self.n = n


class Unplayable(Exception):
    """the scripted conversation cannot go on (nothing to read, another packet than the scripted one, a write
    to a server that has gone): for a history that `playable` accepted this is a difference from the model"""


def bit(b):
    return '1' if b else '0'


def commas(l):
    return ','.join(l) if l else '-'


def split_tok(tok):
    """(body, handler) of an operation token; handler = (reconnects, net)"""
    for i, ch in enumerate(tok):
        if i > 0 and ch in '+-' and not (tok[0] in 'zr' and i == 1):
            return tok[:i], (ch == '+', tok[i + 1:])
    return tok, (False, '')


def library():
    """the names of the library under test, as they are on sys.path now"""
    import minecraft.networking.connection as C
    from minecraft.networking import encryption
    from minecraft.networking.packets import Packet, serverbound
    from minecraft import exceptions as X
    return types.SimpleNamespace(C=C, Connection=C.Connection, encryption=encryption, Packet=Packet,
                                 serverbound=serverbound, LoginDisconnect=X.LoginDisconnect,
                                 VersionMismatch=X.VersionMismatch, InvalidState=X.InvalidState)


# ------------------------------------------------------------------------------------------ the real object
class World:
    def __init__(self, L, allowed, dflt, has_exit, srv_version):
        self.L = L
        self.net = None
        self.orig_write = None
        self.next_net = ''
        self.handler = (False, '')
        self.exit_rc = None
        self.exits = []
        self.sent = []
        self.thr_sess = {}
        self.exc_sess = {}
        self.keep = []
        self.cur_thread = None
        self.cfg_version = srv_version
        self.has_exit = has_exit
        self.where = 'history'         # who is calling connect()/status() now
        self.cnt = collections.Counter()
        self.start_breaches = []
        self.exit_breaches = []
        self.server_disc = set()       # sessions that ended with the server's play-state disconnect packet
        self.exit_due = {}             # session -> callbacks owed (thread returned while `connected` was False)
        w = self
        C = L.C

        def factory(sock):
            srv = RefServer(sock, {'version': w.cfg_version, 'script': []})
            sock.srv = srv
            return srv
        self.net = simnet.Net(factory, refuse=lambda i: w.next_net == 'r')
        self.net.__enter__()
        C.socket.getaddrinfo = self.getaddrinfo        # on simnet's stand-in namespace: gone with Net.__exit__
        self.conn = L.Connection('h', 25565, username='u', allowed_versions=set(allowed),
                                 initial_version=dflt, handle_exit=(self.on_exit if has_exit else None),
                                 handle_exception=False)
        self.conn.register_exception_handler(self.on_exc)
        # the oracle looks at the object right after EVERY connect()/status(), also those made by the library
        self.conn.connect = lambda: w.checked('connect', lambda: L.Connection.connect(w.conn))
        self.conn.status = lambda **kw: w.checked('status', lambda: L.Connection.status(w.conn, **kw))
        self.orig_write = L.Packet.__dict__['write']

        def write(pkt, sock, compression_threshold=None):
            r = w.orig_write(pkt, sock, compression_threshold)
            w.sent.append('%s@%d:%s:%s' % (w.pname(pkt), w.sess(),
                                            'n' if compression_threshold is None else compression_threshold,
                                            'e' if isinstance(sock, L.encryption.EncryptedSocketWrapper) else 'p'))
            return r
        L.Packet.write = write

    def close(self):
        try:
            if self.orig_write is not None:
                self.L.Packet.write = self.orig_write
        finally:
            if self.net is not None:
                self.net.__exit__()

    def getaddrinfo(self, host, port, fam=0, typ=0, *a):
        if self.next_net == 'x':
            raise realsocket.gaierror(-2, 'Name or service not known')
        return [(2, 1, 6, '', (host, port))]

    def sess(self):
        return sum(1 for s in self.net.sockets if s.connected)

    def on_exit(self):
        self.exits.append(self.thr_sess.get(self.cur_thread, '?'))
        if self.exit_rc is not None:
            self.next_net = self.exit_rc
            prev, self.where = self.where, 'exit-callback'
            try:
                self.conn.connect()
            finally:
                self.where = prev

    def on_exc(self, exc, exc_info):
        if self.handler[0]:
            prev, self.where = self.where, 'exception-handler'
            try:
                self.conn.connect()
            finally:
                self.where = prev

    # ---------------------------------------------------------------- oracle: a session starts clean
    def checked(self, kind, call):
        c, L = self.conn, self.L
        try:
            pre = (bool(c.options.compression_enabled),
                   isinstance(c.socket, L.encryption.EncryptedSocketWrapper),
                   c.exception is not None, len(getattr(c, '_outgoing_packet_queue', None) or ()))
        except CATCH:
            pre = (False, False, False, 0)
        r = call()                      # an exception of connect()/status() goes to the caller untouched
        who = self.where if self.where != 'history' or self.in_thread is None else 'PlayingStatusReactor'
        self.cnt['start.' + kind] += 1
        self.cnt['start.by-' + who] += 1
        for flag, name in zip(pre, ('after-compression-on', 'after-encryption', 'with-recorded-exception',
                                    'with-packets-still-queued')):
            if flag:
                self.cnt['start.' + name] += 1
        try:
            bad = self.start_state(kind)
        except CATCH as e:
            bad = ['the object could not be inspected: %r' % (e,)]
        if bad:
            self.start_breaches.append('%s() called by the %s returned normally with %s' % (kind, who, '; '.join(bad)))
        return r

    def start_state(self, kind):
        c, L = self.conn, self.L
        bad = []
        o = c.options
        if o.compression_enabled is not False or o.compression_threshold != -1:
            bad.append('compression_enabled=%r compression_threshold=%r' % (o.compression_enabled, o.compression_threshold))
        s, f = c.socket, c.file_object
        if not isinstance(s, simnet.FakeSocket):
            bad.append('socket=%s' % type(s).__name__)
        elif s is not self.net.sockets[-1] or not s.connected or s.closed_by_client:
            bad.append('socket is not the connected one just opened')
        if not isinstance(f, simnet.FakeFile):
            bad.append('file_object=%s' % type(f).__name__)
        elif f.closed or f.sock is not s:
            bad.append('file_object is closed or belongs to another socket')
        if kind == 'connect' and getattr(c, 'spawned', None) is not False:
            bad.append('spawned=%r' % (getattr(c, 'spawned', None),))
        if c.connected is not True:
            bad.append('connected=%r' % (c.connected,))
        pv = c.context.protocol_version
        want = ['hs%d/2' % pv, 'ls'] if kind == 'connect' and len(c.allowed_proto_versions) == 1 \
            else ['hs%d/1' % pv, 'rq']
        q = [self.pname(p) for p in c._outgoing_packet_queue]
        if q != want:
            bad.append('outgoing queue %s instead of %s' % (commas(q), commas(want)))
        return bad

    # ---------------------------------------------------------------- printing
    def pname(self, p):
        n = type(p).__name__
        if n == 'HandShakePacket':
            return 'hs%d/%d' % (p.protocol_version, p.next_state)
        return {'LoginStartPacket': 'ls', 'RequestPacket': 'rq', 'PingPacket': 'pi',
                'EncryptionResponsePacket': 'er', 'PositionAndLookPacket': 'pl'}.get(n) or \
            ('pr%d' % p.message_id if n == 'PluginResponsePacket' else
             'ka%d' % p.keep_alive_id if n == 'KeepAlivePacket' else
             'tc%d' % p.teleport_id if n == 'TeleportConfirmPacket' else
             p.message if n == 'ChatPacket' else n)

    def kind(self, e):
        L = self.L
        if isinstance(e, Other):
            return 'o%d' % e.n
        for cls, k in ((EOFError, 'eof'), (L.LoginDisconnect, 'login'), (L.VersionMismatch, 'version'),
                       (L.InvalidState, 'invalid'), (ConnectionRefusedError, 'refused'),
                       (realsocket.gaierror, 'resolve'), (AttributeError, 'attr'),
                       (NotImplementedError, 'notimpl'), (OSError, 'io')):
            if isinstance(e, cls):
                return k
        return type(e).__name__

    def note_threads(self):
        c = self.conn
        for t in (c.networking_thread, c.new_networking_thread):
            if t is not None and t not in self.thr_sess:
                self.thr_sess[t] = self.sess()

    def state(self, outcome, sent_before):
        c, enc = self.conn, self.L.encryption
        self.note_threads()
        s = c.socket
        sock = '0' if s is None else 'e' if isinstance(s, enc.EncryptedSocketWrapper) else \
            ('p' if s.connected else 'u')
        f = c.file_object
        if f is None:
            file = '0'
        elif isinstance(f, enc.EncryptedFileObjectWrapper):
            file = 'ce' if f.actual_file_object.closed else 'e'
        else:
            file = 'cp' if f.closed else 'p'
        q = getattr(c, '_outgoing_packet_queue', None)
        qs = 'x' if q is None else commas([self.pname(p) for p in q])
        sp = getattr(c, 'spawned', None)
        r = c.reactor
        re_ = {'PacketReactor': 'base', 'LoginReactor': 'login', 'PlayingReactor': 'play',
               'PlayingStatusReactor': 'pstatus'}.get(type(r).__name__) or 'status' + bit(r.do_ping)
        e = c.exception
        exc = '-' if e is None else '%s:%s' % (self.exc_sess.get(id(e), '?'), self.kind(e))

        def thr(t):
            return '-' if t is None else '%s@%s' % (bit(t.interrupt), self.thr_sess.get(t, '?'))
        return ('%s ce=%s ct=%d sock=%s file=%s q=%s conn=%s sp=%s re=%s exc=%s pv=%d al=%s nt=%s new=%s '
                'sess=%d exits=%s sent=%s') % (
            outcome, bit(c.options.compression_enabled), c.options.compression_threshold, sock, file, qs,
            bit(c.connected), 'x' if sp is None else bit(sp), re_, exc, c.context.protocol_version,
            commas([str(p) for p in sorted(c.allowed_proto_versions)]), thr(c.networking_thread),
            thr(c.new_networking_thread), self.sess(), commas([str(x) for x in self.exits]),
            commas(self.sent[sent_before:]))

    # ---------------------------------------------------------------- thread blocks
    def epilogue(self):
        c = self.conn
        with c._write_lock:
            c.networking_thread = None            # finally (610-611)
        n = c.new_networking_thread
        if n is not None:                         # prologue of the successor (598-603)
            with c._write_lock:
                c.networking_thread = n
                c.new_networking_thread = None

    def end_by_error(self, t, exc_thunk, h):
        c = self.conn
        self.handler = (h[0], h[1])
        self.next_net = h[1]
        self.cur_thread = t
        before = c.exception
        try:
            exc_thunk()
        except Exception as e:
            t.interrupt = True
            self.note_threads()
            try:
                c._handle_exception(e, sys.exc_info())
            except Exception:
                pass
            if c.exception is not before and c.exception is not None:
                self.exc_sess[id(c.exception)] = self.thr_sess.get(t, '?')
                self.keep.append(c.exception)
        finally:
            self.note_threads()
            self.epilogue()

    def arm_fail(self, k):
        s = self.conn.socket
        if s is None or k is None:
            return lambda: None
        base = getattr(s, 'actual_socket', s)
        orig = base.send
        cnt = [0]

        def send(data):
            if cnt[0] == 2 * k:
                raise BrokenPipeError(32, 'Broken pipe')
            cnt[0] += 1
            return orig(data)
        base.send = send

        def restore():
            base.send = orig
        return restore

    def push(self, step):
        s = self.conn.socket
        srv = getattr(s, 'actual_socket', s).srv
        srv.script = [step]
        srv.run_script()

    # ---------------------------------------------------------------- operations
    in_thread = None

    def do(self, tok):
        c, L = self.conn, self.L
        sent_before = len(self.sent)
        self.handler = (False, '')
        self.exit_rc = None
        self.where = 'history'
        out = 'ok'
        body, h = split_tok(tok)
        k = tok[0]
        t = c.networking_thread
        live = t is not None and not t.interrupt
        end = None                       # how the live session ended, if it did
        re_ = type(c.reactor).__name__
        ce_before = bool(c.options.compression_enabled)
        enc_before = isinstance(c.socket, L.encryption.EncryptedSocketWrapper)
        self.in_thread = t if k not in 'cswdf' else None
        if k == 'c':
            self.next_net = tok[1:]
            try:
                c.connect()
            except Exception as e:
                out = 'exc:' + self.kind(e)
        elif k == 's':
            self.next_net = tok[2:]
            try:
                c.status(handle_status=lambda d: None,
                         handle_ping=(lambda ms: None) if tok[1] == '1' else False)
            except Exception as e:
                out = 'exc:' + self.kind(e)
        elif k == 'w':
            try:
                c.write_packet(L.serverbound.play.ChatPacket(message='u' + tok[1:]))
            except Exception as e:
                out = 'exc:' + self.kind(e)
        elif k == 'd':
            restore = self.arm_fail(int(tok[2:]) if tok[1:2] == '!' else None)
            try:
                c.disconnect(immediate=(tok == 'di'))
            except CATCH as e:           # disconnect() never raises
                out = 'raised:' + self.kind(e)
            finally:
                restore()
            end = 'user-disconnect' + ('-immediate' if tok == 'di' else '')
        elif k == 'f':
            if t is None or t.interrupt:
                out = 'skip'
            else:
                a, _, b = tok[1:].partition('!')
                n = int(a) if a else 300
                restore = self.arm_fail(int(b) if b else None)
                try:
                    with c._write_lock:
                        try:
                            num = 0
                            while not t.interrupt and num < n and c._pop_packet():     # 619-622 (budget first)
                                num += 1
                        except IOError:
                            out = 'exc:io'
                except CATCH as e:       # anything else would leave _run through the write phase
                    out = 'raised:' + self.kind(e)
                finally:
                    restore()
        elif k == 'E':
            if t is None:
                out = 'skip'
            else:
                kind = body[1:]
                exc = {'eof': EOFError('x'), 'io': OSError(5, 'x'), 'login': L.LoginDisconnect('x'),
                       'version': L.VersionMismatch('x'), 'attr': AttributeError('x')}.get(kind) or Other(int(kind[1:]))

                def thunk():
                    raise exc
                self.end_by_error(t, thunk, h)
                out = 'exc:' + kind
                end = 'error-' + ('other' if kind[0] == 'o' else kind)
        elif k == 'x':
            if t is None or not t.interrupt:
                out = 'skip'
            else:
                self.cur_thread = t
                if tok[1:2] == '+':
                    self.exit_rc = tok[2:]
                s_t = self.thr_sess.get(t, '?')
                conn_at_return = c.connected
                owed = self.has_exit and s_t in self.server_disc and conn_at_return is False
                called = self.exits.count(s_t)
                try:
                    c._handle_exit()
                    self.note_threads()
                    self.epilogue()
                except Exception as e:
                    out = 'exc:' + self.kind(e)
                    self.end_by_error(t, lambda: (_ for _ in ()).throw(e), (False, ''))
                if s_t in self.server_disc:
                    self.cnt['exit.thread-of-a-server-disconnected-session-returns'] += 1
                    if owed:
                        self.cnt['exit.callback-owed'] += 1
                        if c.exception is not None:
                            self.cnt['exit.callback-owed-with-recorded-exception'] += 1
                    got = self.exits.count(s_t) - called
                    if (owed and got != 1) or got > 1 or self.exits.count(s_t) > 1:
                        self.exit_breaches.append(
                            'session %s ended with the server\'s disconnect packet; its thread returned while connected '
                            'was %s (recorded exception: %s): the exit callback ran %d time(s) in that return, %d in all'
                            % (s_t, conn_at_return, 'none' if c.exception is None else self.kind(c.exception),
                               got, self.exits.count(s_t)))
        else:       # incoming packet
            if t is None or t.interrupt:
                out = 'skip'
            else:
                arg = body[1:]
                restore = lambda: None
                if k == 'z':
                    self.push(('compress', int(arg)) if re_ == 'LoginReactor' else ('play_compress', int(arg)))
                elif k == 'e':
                    self.push(('encrypt', '-', b'tokn'))
                elif k == 'l':
                    self.push(('success',))
                elif k == 'g':
                    self.push(('plugin', int(arg), 'a:b', b''))
                elif k == 'k':
                    self.push(('keepalive', int(arg)))
                elif k == 'p':
                    self.push(('poslook', 1.0, 2.0, 3.0, 0.0, 0.0, 0, int(arg)))
                elif k == 'D':
                    if re_ == 'LoginReactor':
                        self.push(('disconnect', '{"text":"no"}'))
                    else:
                        self.push(('play_disconnect', '{"text":"bye"}'))
                        restore = self.arm_fail(int(arg[1:]) if arg[:1] == '!' else None)
                elif k == 'r':
                    # the response is already in the inbox (the server answers the request at once)
                    self.next_net = arg.lstrip('-0123456789')
                elif k == 'u':
                    self.push(('raw', 0x7e, b''))
                try:
                    packet = c.reactor.read_packet(c.file_object, timeout=0)
                except CATCH as e:
                    restore()
                    raise Unplayable('read_packet raised %r (the scripted packet was pending)' % (e,))
                if not packet:
                    restore()
                    raise Unplayable('nothing to read')
                want = {'z': 'set compression', 'e': 'encryption request', 'l': 'login success',
                        'g': 'login plugin request', 'k': 'keep alive', 'p': 'player position and look',
                        'D': 'disconnect', 'r': 'response', 'o': 'ping'}.get(k)
                if want is not None and packet.packet_name != want:
                    restore()
                    raise Unplayable('read %r instead of %r' % (packet.packet_name, want))
                try:
                    c._react(packet)
                    restore()
                    end = {'D': 'server-disconnect', 'o': 'status-pong'}.get(k) or \
                        ('version-probe-answered' if re_ == 'PlayingStatusReactor' else 'status-answered')
                    if k == 'D' and re_ == 'PlayingReactor':
                        self.server_disc.add(self.thr_sess.get(t, '?'))
                except Exception as e:
                    restore()
                    out = 'exc:' + self.kind(e)
                    end = 'error-' + ('other' if isinstance(e, Other) else self.kind(e))
                    nn = self.next_net
                    self.end_by_error(t, lambda: (_ for _ in ()).throw(e),
                                      h if (h[0] or h[1]) else (False, nn if k == 'r' else ''))
        self.in_thread = None
        if sum(1 for e in self.net.log if e[0] == 'epipe'):
            raise Unplayable('a frame was written to a server that had closed the connection')
        if out == 'skip':
            self.cnt['ops.skip'] += 1
        if live and (t.interrupt or c.networking_thread is not t) and end is not None:
            self.cnt['end.' + end] += 1
            self.cnt['sessions-ended'] += 1
            if ce_before:
                self.cnt['sessions-ended.compression-was-on'] += 1
            if enc_before:
                self.cnt['sessions-ended.encryption-was-on'] += 1
        return self.state(out, sent_before)


def real_trace(L, allowed, dflt, has_exit, srv_version, toks):
    """state lines of the real object, one per operation; stops at the first operation that cannot be played
    or that lets something escape where nothing may (that line says what)"""
    lines = []
    w = None
    try:
        w = World(L, allowed, dflt, has_exit, srv_version)
        for tok in toks:
            try:
                lines.append(w.do(tok))
            except Unplayable as e:
                lines.append('unplayable:%s' % str(e).replace(' | ', ' / '))
                break
            except CATCH as e:
                lines.append('escaped:%s:%s' % (type(e).__name__, str(e).replace(' | ', ' / ')[:200]))
                break
        t = w.conn.networking_thread
        if t is not None and not t.interrupt:
            w.cnt['end.still-open'] += 1
    except CATCH as e:
        lines.append('escaped-outside-an-operation:%s:%s' % (type(e).__name__, str(e)[:200]))
    finally:
        if w is not None:
            w.close()
    return lines, w


# ------------------------------------------------------------------------------------------ random histories
def gen(rng, allowed, dflt, srv_version):
    """A history that the scripted server can (nearly always) play: the generator of xcheck.py.  Tracks just
    enough (nothing of the model's fields that are under test: only which packets may be sent now)."""
    toks = []
    st = {'reactor': None, 'live': False, 'flushed': False, 'enc': False, 'one': len(allowed) == 1,
          'intr': False, 'thread': False, 'pinged': False, 'pv': max(allowed), 'neg': False}

    def start(net, kind):
        if net == '':
            st.update(reactor=kind, live=True, flushed=False, enc=False, intr=False, thread=True, pinged=False,
                      neg=False)

    def ended(tok):
        """the session ended by an error; did a handler start a successor?"""
        was = st['reactor']
        st['live'] = False
        st['thread'] = False
        if was == 'pstatus' and tok.startswith('Eeof'):
            st['one'] = True           # PlayingStatusReactor falls back to the default version
            st['pv'] = dflt
        if tok.endswith('+'):
            start('', 'login' if st['one'] else 'pstatus')

    def tail():
        if st['one']:
            return rng.choice([[], ['c', 'f'], ['c', 'f', 'l', 'D', 'x'], ['di', 'c']])
        return rng.choice([[], ['c', 'f'], ['c', 'f', 'r%d' % srv_version, 'x'], ['di', 'c']])

    for _ in range(rng.randint(4, 22)):
        opts = []
        if not st['live']:
            opts += ['connect'] * 4 + ['status', 'write', 'disc']
            if st['thread']:
                opts += ['exit'] * 4
        else:
            opts += ['flush'] * 3 + ['write', 'disc', 'error', 'badconnect'] + ['error'] * (2 if st['neg'] else 0)
            if st['flushed']:
                opts += ['recv'] * 6
        o = rng.choice(opts)
        if o == 'connect':
            net = rng.choice(['', '', '', 'r', 'x'])
            toks.append('c' + net)
            if net == '':
                if st['thread']:
                    toks.append('x')       # let the interrupted predecessor finish first
                start(net, 'login' if st['one'] else 'pstatus')
        elif o == 'badconnect':
            toks.append('c')
        elif o == 'status':
            ping = rng.choice('01')
            net = rng.choice(['', '', 'r'])
            toks.append('s' + ping + net)
            start(net, 'status' + ping)
        elif o == 'write':
            # (a user packet in the login or status state would be taken by the scripted server for something else)
            if toks and not (st['reactor'] != 'play' and st['live']):
                toks.append('w%d' % rng.randint(0, 9))
        elif o == 'disc':
            toks.append(rng.choice(['d', 'd', 'di', 'd!0', 'd!1']))
            if st['live']:
                st['live'] = False
                st['intr'] = True
        elif o == 'flush':
            tok = rng.choice(['f', 'f', 'f', 'f1', 'f2', 'f!0', 'f3!1'])
            # a failing write makes the conversation unusable for the scripted server: end the session
            toks.append(tok)
            if '!' in tok:
                toks.append('Eio' + rng.choice(['', '+', '+r']))
                ended(toks[-1])
            elif tok in ('f', 'f2') or st['flushed']:
                st['flushed'] = True
        elif o == 'error':
            # (a session in which compression or encryption was negotiated: more often a handler that reconnects
            # at once, the case in which nothing but connect() itself stands between the two sessions)
            toks.append('E' + rng.choice(['eof', 'io', 'o7', 'login']) +
                        rng.choice(['', '+', '+', '+', '+r'] if st['neg'] else ['', '', '+', '+r', '+x']))
            ended(toks[-1])
        elif o == 'exit':
            toks.append(rng.choice(['x', 'x', 'x', 'x+', 'x+r']))
            # after an exit we do not know cheaply whether a successor runs: stop generating recv
            return toks + tail()
        elif o == 'recv':
            r = st['reactor']
            if r == 'login':
                c = ['z%d' % rng.choice([0, 1, 64, 256, 70000]), 'l', 'D' + rng.choice(['', '+', '+r'])]
                if not st['enc']:
                    c.append('e')
                if st['pv'] >= 385:
                    c.append('g%d' % rng.randint(0, 5))
                p = rng.choice(c)
                toks.append(p)
                if p[0] in 'ze':
                    st['neg'] = True
                if p == 'e':
                    st['enc'] = True
                elif p == 'l':
                    st['reactor'] = 'play'
                elif p[0] == 'D':
                    ended(p)
            elif r == 'play':
                c = ['k%d' % rng.randint(0, 99), 'p%d' % rng.randint(0, 9), 'D', 'D', 'u']
                if st['pv'] <= 47:
                    c.append('z%d' % rng.choice([0, 64, 300]))
                p = rng.choice(c)
                toks.append(p)
                if p[0] == 'z':
                    st['neg'] = True
                if p[0] == 'D':
                    st['live'] = False
                    st['intr'] = True
            elif r == 'pstatus':
                net = rng.choice(['', '', '', 'r'])
                toks.append('r%d%s' % (srv_version, net))
                st['one'] = True
                st['pv'] = srv_version
                if net == '':
                    # the old thread is interrupted; a successor waits: finish the old thread
                    toks.append('x')
                    start('', 'login')
                else:
                    st['live'] = False
                    st['thread'] = False
            elif r in ('status0', 'status1'):
                if not st['pinged']:
                    toks.append('r%d' % srv_version)
                    if r == 'status0':
                        st['live'] = False
                        st['intr'] = True
                    else:
                        st['pinged'] = True
                        st['flushed'] = False
                else:
                    toks.append('o')
                    st['live'] = False
                    st['intr'] = True
    return toks


# ------------------------------------------------------------------------------------------ the model's answer
def parse_state(s):
    parts = s.split(' ')
    d = {'outcome': parts[0]}
    for p in parts[1:]:
        k, _, v = p.partition('=')
        d[k] = v
    return d


def playable(toks, srv_version, states):
    """Can the scripted server play this history?  Judged from the model's trace alone (reactor and transport
    before each incoming packet, the frames each operation writes), by following what refserver.RefServer does
    with those frames: the packet pushed for the operation must be the next one the client reads, in the
    protocol version the server speaks, and nothing may be written to a server that has closed."""
    srv = {}

    def server(n):
        return srv.setdefault(n, {'state': 'handshake', 'ls': False, 'encwait': False, 'enc': False, 'thr': None,
                                  'closed': False, 'inbox': []})
    prev = {'re': 'base', 'sock': '0', 'file': '0', 'nt': '-', 'sess': '0', 'pv': '0'}
    for tok, text in zip(toks, states):
        st = parse_state(text)
        k = tok[0]
        body, _h = split_tok(tok)
        arg = body[1:]
        if k in 'zelgkpDrou' and st['outcome'] != 'skip':
            if prev['sock'] not in ('p', 'e') or prev['file'] not in ('p', 'e') or prev['nt'] != '0@' + prev['sess']:
                return 'an incoming packet on a transport that is not open (%s)' % tok
            S = server(int(prev['sess']))
            re_, pv = prev['re'], int(prev['pv'])
            if k in 'zelgkpDu':
                if S['closed'] or S['encwait'] or S['inbox']:
                    return 'the server cannot send %s now' % tok
                if pv != srv_version:
                    return 'client and server speak different versions at %s' % tok
                if re_ == 'login':
                    if S['state'] != 'login' or not S['ls'] or k not in 'zelgD' or (k == 'g' and pv < 385) \
                            or (k == 'e' and S['enc']) or (k == 'D' and arg[:1] == '!'):
                        return 'no %s in this login conversation' % tok
                elif re_ == 'play':
                    if S['state'] != 'play' or k not in 'zkpDu' or (k == 'z' and pv > 47):
                        return 'no %s in this play conversation' % tok
                else:
                    return 'no %s for the %s reactor' % (tok, re_)
                if k == 'z':
                    if not arg.isdigit():
                        return 'threshold %s' % arg
                    S['thr'] = int(arg)
                elif k == 'e':
                    S['encwait'] = True
                elif k == 'l':
                    S['state'] = 'play'
                elif k == 'D' and re_ == 'login':
                    S['closed'] = True
            elif k == 'r':
                digits = arg[:len(arg) - len(arg.lstrip('0123456789'))]
                if re_ not in ('pstatus', 'status0', 'status1') or S['inbox'][:1] != ['response'] \
                        or digits != str(srv_version):
                    return 'no status response %s to read' % tok
                S['inbox'].pop(0)
            else:
                if re_ != 'status1' or S['inbox'][:1] != ['pong']:
                    return 'no pong to read'
                S['inbox'].pop(0)
        for fr in ([] if st.get('sent', '-') == '-' else st['sent'].split(',')):
            name, _, rest = fr.partition('@')
            try:
                n, thr, pe = rest.split(':')
                V = server(int(n))
            except ValueError:
                return 'frame %s' % fr
            if V['closed']:
                return '%s written to a server that has closed' % fr
            if thr != ('n' if V['thr'] is None else str(V['thr'])) or (pe == 'e') != V['enc']:
                return '%s written in a framing the server does not expect' % fr
            if V['state'] == 'handshake':
                if not name.startswith('hs'):
                    return '%s before the handshake' % fr
                V['state'] = 'status' if name.endswith('/1') else 'login'
            elif V['state'] == 'status':
                if name == 'rq':
                    V['inbox'].append('response')
                elif name == 'pi':
                    V['inbox'].append('pong')
                    V['closed'] = True
                else:
                    return '%s in the status state' % fr
            elif V['state'] == 'login':
                if name == 'ls' and not V['ls']:
                    V['ls'] = True
                elif name == 'er' and V['encwait']:
                    V['encwait'] = False
                    V['enc'] = True
                elif not name.startswith('pr'):
                    return '%s in the login state' % fr
        prev = st
    return None


def first_difference(toks, model, impl):
    """(excerpt of the model, excerpt of the implementation) at the first state that differs"""
    for i in range(max(len(model), len(impl))):
        a = model[i] if i < len(model) else '(no state)'
        b = impl[i] if i < len(impl) else '(not run)'
        if a != b:
            da, db = parse_state(a), parse_state(b)
            field = next((f for f in da if da[f] != db.get(f)), None) or next((f for f in db if db[f] != da.get(f)), '?')
            tok = toks[i] if i < len(toks) else '?'
            head = 'op %d (%s) field %s: ' % (i, tok, field)
            return (head + '%s   [state: %s]' % (da.get(field), a[:260]),
                    head + '%s   [state: %s]' % (db.get(field), b[:260]))
    return ('(equal)', '(equal)')


# ------------------------------------------------------------------------------------------ the tie
def tie(ctx):
    L = library()
    rng = ctx.rng
    n_random = ctx.scale(150, 2500)
    cands = [(a, d, v, 1, t.split(), 'fixed') for a, d, v, t in FIXED]
    # a few more than needed: the ones the scripted server cannot play are dropped (decided from the model's trace)
    for _ in range(n_random + n_random // 4 + 25):
        allowed, dflt = rng.choice(CONFIGS)
        srv_version = rng.choice(allowed)
        has_exit = 0 if rng.random() < 0.1 else 1
        toks = gen(rng, allowed, dflt, srv_version)
        if not has_exit:
            toks = ['x' if t.startswith('x') else t for t in toks]
        if toks:
            cands.append((allowed, dflt, srv_version, has_exit, toks, 'random'))
    lines = ['carry.run real allowed=%s dflt=%d exit=%d %s' % (','.join(map(str, sorted(a))), d, x, ' '.join(t))
             for a, d, v, x, t, _o in cands]
    replies = ctx.driver.ask(lines)
    taken = 0
    total = collections.Counter()
    for (allowed, dflt, srv_version, has_exit, toks, origin), line, reply in zip(cands, lines, replies):
        if origin == 'random' and taken >= n_random:
            break
        model = reply[3:].split(' | ') if reply.startswith('ok ') else []
        if len(model) != len(toks):
            ctx.disagree(WHAT, line[:400], 'the model does not answer this history: ' + reply[:200], '(not run)')
            continue
        why = playable(toks, srv_version, model)
        if why is not None:
            total['generated-but-not-playable'] += 1
            if origin == 'fixed':
                ctx.notes.append('c16carry: hand-written history judged not playable (%s): %s' % (why, line))
            continue
        if origin == 'random':
            taken += 1
        impl, w = real_trace(L, allowed, dflt, bool(has_exit), srv_version, toks)
        ctx.case(('c16carry', line),
                 sample={'history': line, 'origin': origin, 'server_version': srv_version,
                         'last_state': impl[-1] if impl else None} if rng.random() < 0.03 else None)
        total['histories.' + origin] += 1
        total['histories.exit-callback-%s' % ('installed' if has_exit else 'absent')] += 1
        total['histories.allowed-%s' % ('one-version' if len(allowed) == 1 else 'several-versions')] += 1
        total['ops'] += len(impl)
        if impl and not impl[-1].startswith(('unplayable', 'escaped')):
            total['sessions'] += int(parse_state(impl[-1]).get('sess', 0))
            total['exit-callback-calls'] += len([x for x in parse_state(impl[-1]).get('exits', '-').split(',') if x != '-'])
        total['states.compression-on'] += sum(1 for s in impl if ' ce=1' in s)
        total['states.encrypted'] += sum(1 for s in impl if ' sock=e' in s)
        total['states.exception-recorded'] += sum(1 for s in impl if ' exc=-' not in s and ' exc=' in s)
        if w is not None:
            total.update(w.cnt)
        if impl != model:
            mo, im = first_difference(toks, model, impl)
            ctx.disagree(WHAT, line[:400], mo, im)
        if w is not None and w.start_breaches:
            ctx.violation('a session does not start clean: %s [%d such call(s) in the history: %s; server speaks %d]'
                          % (w.start_breaches[0], len(w.start_breaches), line, srv_version),
                          {'history': line[:300]}, key={'kind': 'c16carry-start', 'history': line[:300]})
        if w is not None and w.exit_breaches:
            ctx.violation('exit callback: %s [history: %s; server speaks %d]' % (w.exit_breaches[0], line, srv_version),
                          {'history': line[:300]}, key={'kind': 'c16carry-exit', 'history': line[:300]})
    for k, v in total.items():
        ctx.count('c16carry.' + k, v)
    ctx.extra['c16carry_histories'] = ctx.extra.get('c16carry_histories', 0) + total['histories.fixed'] + total['histories.random']
