"""C07: core packets match the published protocol for every supported release.
Tie: Generated/Ids.lean + Layouts.lean vs Ref/Protocol.lean (kernel-checked equality over all
releases x core packets) + byte-level check: the REAL Packet.write equals an encoder built only from
harness/refproto.py + refcodec.py, and the real reader decodes reference bytes to the same fields."""
import io
import struct
import uuid as uuidlib

import refcodec as rc
import refproto as rp
from lib import hx

EXTRACT = ['ids', 'layouts', 'ref', 'versions', 'gen.c07named']
EXTRA_PROPS = ['C07Named']

RULE = ("every release protocol of the reference table (30) x every core packet (20) x 3..5 boundary/"
        "seeded value sets per layout; frame = VarInt length + VarInt id + fields, compared byte for byte "
        "with the reference encoder; reference bytes decoded by the real reader; distinct by "
        "(release, packet, values)")

NBT_BLOB = bytes.fromhex('0a0000030001610000000100')     # TAG_Compound(''){ TAG_Int('a') = 1 }


def ref_enc(t, v):
    if isinstance(t, tuple):
        out = ref_enc(t[1], len(v))
        for x in v:
            out += ref_enc(t[2], x)
        return out
    if t == 'bool':
        return b'\x01' if v else b'\x00'
    if t in ('u8', 'i8'):
        return rc.be(v, 1)
    if t in ('i16', 'u16'):
        return rc.be(v, 2)
    if t == 'i32':
        return rc.be(v, 4)
    if t == 'i64':
        return rc.be(v, 8)
    if t == 'f32':
        return struct.pack('>f', v)
    if t == 'f64':
        return struct.pack('>d', v)
    if t in ('varint', 'varlong'):
        return rc.varint(v)
    if t == 'string':
        return rc.string(v)
    if t == 'uuid':
        return uuidlib.UUID(v).bytes
    if t == 'bytesv':
        return rc.varint(len(v)) + v
    if t == 'nbt':
        return NBT_BLOB
    raise KeyError(t)


def gen(rng, t, k):
    if isinstance(t, tuple):
        return [gen(rng, t[2], k) for _ in range([0, 2, 1][k % 3])]
    B = {'u8': (0, 256), 'i8': (0, 128), 'i16': (-2 ** 15, 2 ** 15), 'u16': (0, 2 ** 16), 'i32': (-2 ** 31, 2 ** 31),
         'i64': (-2 ** 63, 2 ** 63), 'varint': (0, 2 ** 31), 'varlong': (0, 2 ** 63)}
    if t == 'bool':
        return k % 2 == 0
    if t in ('varint', 'varlong') and rng.random() < 0.5:
        # every width boundary of the base-128 encoding, both sides
        return rng.choice([127, 128, 16383, 16384, 16385, 2 ** 21 - 1, 2 ** 21, 2 ** 21 + 1, 2 ** 28 - 1, 2 ** 28, 2 ** 31 - 1])
    if t in B:
        lo, hi = B[t]
        return [lo, hi - 1, 0, rng.randrange(lo, hi), rng.randrange(lo, hi)][k % 5]
    if t == 'f32':
        return [0.0, 1.5, -2.25, 90.0, 1e10][k % 5]
    if t == 'f64':
        return [0.0, -1.0, 1234.5678, 3e7, -0.0][k % 5]
    if t == 'string':
        if rng.random() < 0.03:         # legal but long: the limit is in characters, the prefix counts UTF-8 bytes
            return rng.choice(['é' * 20000, '{"text":"' + 'y' * 100000 + '"}', 'x' * 32767, 'x' * 32768, 'x' * 16383, 'x' * 16384, 'é' * 8192])
        return ['', 'localhost', '{"text":"é世"}', 'x' * 200, 'play.example.org'][k % 5]
    if t == 'uuid':
        return str(uuidlib.UUID(bytes=bytes(rng.randrange(256) for _ in range(16))))
    if t == 'bytesv':
        return bytes(rng.randrange(256) for _ in range([0, 1, 128, 162, 4][k % 5]))
    if t == 'nbt':
        import pynbt
        return pynbt.TAG_Compound({'a': pynbt.TAG_Int(1)})
    raise KeyError(t)


def run(ctx):
    import minecraft
    from minecraft.networking.connection import ConnectionContext
    from minecraft.networking import packets
    from minecraft.networking.packets import PacketBuffer
    ctx.extra['rule'] = RULE
    rng = ctx.rng
    tabs = {'sbHandshake': packets.serverbound.handshake, 'sbStatus': packets.serverbound.status,
            'cbStatus': packets.clientbound.status, 'sbLogin': packets.serverbound.login,
            'cbLogin': packets.clientbound.login, 'cbPlay': packets.clientbound.play,
            'sbPlay': packets.serverbound.play}
    missing_rel = [v for v in rp.RELEASES if v not in minecraft.SUPPORTED_PROTOCOL_VERSIONS]
    if missing_rel:
        ctx.violation('release protocols no longer supported: %r' % missing_rel, {'releases': missing_rel},
                      key={'kind': 'release-unsupported', 'releases': missing_rel})
    for v in rp.RELEASES:
        if v in missing_rel:
            continue
        cx = ConnectionContext(protocol_version=v)
        for name in rp.CORE:
            lay = rp.layout(name, v)
            if lay is None:
                continue
            tab, clsname = rp.PYCRAFT_NAME[name]
            cls = next((c for c in tabs[tab].get_packets(cx) if c.__name__ == clsname), None)
            ctx.count('packet.' + name)
            if cls is None:
                ctx.violation('%s: no class %s registered for release %d' % (name, clsname, v),
                              {'release': v, 'packet': name}, key={'release': v, 'packet': name, 'kind': 'missing'})
                continue
            try:
                d = [(n, t) for f in cls.get_definition(cx) for n, t in f.items()]
            except Exception as e:
                ctx.violation('%s: get_definition raised %r at release %d' % (name, e, v), {'release': v, 'packet': name},
                              key={'release': v, 'packet': name, 'kind': 'definition'})
                continue
            pid = rp.packet_id(name, v)
            for k in range(ctx.scale(3, 5)):
                vals = [gen(rng, t, k + i) for i, (_, t) in enumerate(lay)]
                ref_payload = rc.varint(pid) + b''.join(ref_enc(t, x) for (_, t), x in zip(lay, vals))
                ref_frame = rc.varint(len(ref_payload)) + ref_payload
                bad = None
                got = None
                if len(d) != len(lay):
                    bad = 'pyCraft declares %d fields, the published layout has %d' % (len(d), len(lay))
                elif sorted(n for n, _ in d) == sorted(n for n, _ in lay) and [n for n, _ in d] != [n for n, _ in lay]:
                    # same field names as the reference, different order: a swap, not a rename
                    bad = 'fields are in a different order than published: %r vs %r' % (
                        [n for n, _ in d], [n for n, _ in lay])
                else:
                    p = cls(cx)
                    for (n, _), x in zip(d, vals):
                        setattr(p, n, x)
                    sock = io.BytesIO()
                    sock.send = sock.write
                    try:
                        p.write(sock)
                        got = sock.getvalue()
                    except Exception as e:
                        bad = 'Packet.write raised %r' % (e,)
                    if got is not None and got != ref_frame:
                        bad = 'bytes differ from the reference encoder: %s vs published %s' % (got.hex()[:80], ref_frame.hex()[:80])
                    if not bad:
                        q = cls(cx)
                        rb = PacketBuffer()
                        rb.send(ref_payload[len(rc.varint(pid)):])
                        rb.reset_cursor()
                        try:
                            q.read(rb)
                            if rb.read():
                                bad = 'real reader leaves bytes of the published encoding unread'
                            for (n, _), (_, t), x in zip(d, lay, vals):
                                gv = getattr(q, n)
                                if t == 'nbt':
                                    continue
                                if t in ('f32',):
                                    ok = struct.pack('>f', gv) == struct.pack('>f', x)
                                elif t == 'i8' or t == 'u8':
                                    ok = gv % 256 == x % 256
                                else:
                                    ok = gv == x
                                if not ok:
                                    bad = 'field %s decodes to %r from the published encoding of %r' % (n, gv, x)
                        except Exception as e:
                            bad = 'real reader raised %r on the published encoding' % (e,)
                ctx.case((v, name, k), sample={'release': v, 'packet': name, 'id': pid, 'frame': ref_frame.hex()[:60]})
                if bad:
                    ctx.violation('release %d %s: %s' % (v, name, bad), {'release': v, 'packet': name, 'values': repr(vals)[:200]},
                                  key={'release': v, 'packet': name})
    # ONE context object walked through the releases (what Connection does with its context on
    # reconnects / negotiation): layouts must follow the context's CURRENT version
    shared = ConnectionContext(protocol_version=rp.RELEASES[0])
    walk = [338, 340, 47, 107, 754, 755, 340, 335, 757, 47] + [rng.choice(rp.RELEASES) for _ in range(30)]
    for v in walk:
        if v in missing_rel:
            continue
        shared.protocol_version = v
        for name in ('keep_alive_sb', 'keep_alive_cb', 'position_look_cb', 'login_success', 'chat_cb'):
            lay = rp.layout(name, v)
            tab, clsname = rp.PYCRAFT_NAME[name]
            cls = next((c for c in tabs[tab].get_packets(shared) if c.__name__ == clsname), None)
            if lay is None or cls is None:
                continue
            d = [(n, t) for f in cls.get_definition(shared) for n, t in f.items()]
            vals = [gen(rng, t, 3 + i) for i, (_, t) in enumerate(lay)]
            ref_payload = rc.varint(rp.packet_id(name, v)) + b''.join(ref_enc(t, x) for (_, t), x in zip(lay, vals))
            p = cls(shared)
            for (n, _), x in zip(d, vals):
                setattr(p, n, x)
            sock = io.BytesIO()
            sock.send = sock.write
            ctx.case(('walk', v, name))
            try:
                p.write(sock)
                got = sock.getvalue()
            except Exception as e:
                got = repr(e).encode()
            if got != rc.varint(len(ref_payload)) + ref_payload:
                ctx.violation('release %d %s on a context that was used for other versions before: bytes %s, published %s'
                              % (v, name, got.hex()[:60], (rc.varint(len(ref_payload)) + ref_payload).hex()[:60]),
                              {'release': v, 'packet': name}, key={'release': v, 'packet': name, 'kind': 'reused-context'})
    # long chat / disconnect / status texts at every release (always, not only when the generator draws them)
    for v in rp.RELEASES:
        if v in missing_rel:
            continue
        cx = ConnectionContext(protocol_version=v)
        for name in ('chat_cb', 'disconnect_play', 'status_response', 'login_disconnect'):
            if name not in rp.PYCRAFT_NAME:
                continue
            lay = rp.layout(name, v)
            if lay is None or lay[0][1] != 'string':
                continue
            tab, clsname = rp.PYCRAFT_NAME[name]
            cls = next((c for c in tabs[tab].get_packets(cx) if c.__name__ == clsname), None)
            if cls is None:
                continue
            d = [(n, t) for f in cls.get_definition(cx) for n, t in f.items()]
            for text in ('é' * 12000, 'x' * 40000):
                vals = [text] + [gen(rng, t, 1) for _, t in lay[1:]]
                payload = b''.join(ref_enc(t, x) for (_, t), x in zip(lay, vals))
                q = cls(cx)
                rb = PacketBuffer()
                rb.send(payload)
                rb.reset_cursor()
                ctx.case(('long-text', v, name, len(text)))
                try:
                    q.read(rb)
                    bad = None if getattr(q, d[0][0]) == text else 'decodes to a different text'
                except Exception as e:
                    bad = 'real reader raised %r' % (e,)
                if bad:
                    ctx.violation('release %d %s with a %d-byte text (published encoding): %s' % (v, name, len(text.encode()), bad),
                                  {'release': v, 'packet': name, 'bytes': len(text.encode())},
                                  key={'release': v, 'packet': name, 'kind': 'long-text'})
    # Join Game through the version-independent accessors (is_hardcore / pure_game_mode), in BOTH assignment
    # orders: before 1.16.2 (protocol 738) the hardcore flag is bit 0x8 of the game-mode byte, afterwards a
    # separate Boolean; the published bytes do not depend on the order of the two assignments
    for v in rp.RELEASES:
        if v in missing_rel:
            continue
        lay = rp.layout('join_game', v)
        if lay is None or any(t == 'nbt' for _, t in lay):
            continue
        cx = ConnectionContext(protocol_version=v)
        cls = next((c for c in tabs['cbPlay'].get_packets(cx) if c.__name__ == 'JoinGamePacket'), None)
        if cls is None:
            continue
        names = [n for n, _ in lay]
        for order in ('hardcore-first', 'mode-first'):
            for hard, mode in ((True, 1), (False, 2), (True, 0), (True, 3)):
                vals = {n: gen(rng, t, 2) for n, t in lay}
                p = cls(cx)
                for n, x in vals.items():
                    if n not in ('game_mode', 'is_hardcore'):
                        setattr(p, n, x)
                if order == 'hardcore-first':
                    p.is_hardcore = hard
                    p.pure_game_mode = mode
                else:
                    p.pure_game_mode = mode
                    p.is_hardcore = hard
                if 'is_hardcore' in names:
                    vals['is_hardcore'], vals['game_mode'] = hard, mode
                else:
                    vals['game_mode'] = mode | (8 if hard else 0)
                ref_payload = rc.varint(rp.packet_id('join_game', v)) + b''.join(ref_enc(t, vals[n]) for n, t in lay)
                sock = io.BytesIO()
                sock.send = sock.write
                ctx.case(('join-game-accessors', v, order, hard, mode))
                try:
                    p.write(sock)
                    got = sock.getvalue()
                except Exception as e:
                    got = repr(e).encode()
                if got != rc.varint(len(ref_payload)) + ref_payload:
                    ctx.violation('release %d join_game with is_hardcore=%s, pure_game_mode=%d assigned %s: bytes %s, published %s'
                                  % (v, hard, mode, order, got.hex()[:40], (rc.varint(len(ref_payload)) + ref_payload).hex()[:40]),
                                  {'release': v, 'order': order, 'hardcore': hard, 'mode': mode},
                                  key={'release': v, 'packet': 'join_game', 'kind': 'accessors', 'order': order})
    # ONE packet object handed to connections of different releases (re-sent, or built for another connection):
    # the bytes that leave a connection follow THAT connection's release
    import minecraft.networking.connection as Cn
    for name, vals_for in (('keep_alive_sb', lambda v: [5]), ('chat_sb', lambda v: ['hello'])):
        tab, clsname = rp.PYCRAFT_NAME[name]
        for start in range(3):
            seq = [rp.RELEASES[(start * 7 + 11 * k) % len(rp.RELEASES)] for k in range(4)]
            pkt = None
            for v in seq:
                if v in missing_rel or rp.layout(name, v) is None:
                    continue
                conn = Cn.Connection('h', 1, username='u', allowed_versions={v})
                conn.context.protocol_version = v
                sock = io.BytesIO()
                sock.send = sock.write
                conn.socket = sock
                cls = next((c for c in tabs[tab].get_packets(conn.context) if c.__name__ == clsname), None)
                if cls is None:
                    continue
                if pkt is None:
                    pkt = cls()
                    for (n, _), x in zip([(n, t) for f in cls.get_definition(conn.context) for n, t in f.items()], vals_for(v)):
                        setattr(pkt, n, x)
                lay = rp.layout(name, v)
                ref_payload = rc.varint(rp.packet_id(name, v)) + b''.join(ref_enc(t, x) for (_, t), x in zip(lay, vals_for(v)))
                ctx.case(('shared-packet', name, tuple(seq), v))
                try:
                    conn.write_packet(pkt, force=True)
                    got = sock.getvalue()
                except Exception as e:
                    got = repr(e).encode()
                if got != rc.varint(len(ref_payload)) + ref_payload:
                    ctx.violation('one %s packet object written to connections of releases %r: on the release-%d connection the bytes are %s, '
                                  'published %s' % (name, seq, v, got.hex()[:40], (rc.varint(len(ref_payload)) + ref_payload).hex()[:40]),
                                  {'packet': name, 'releases': seq, 'release': v}, key={'kind': 'shared-packet', 'packet': name, 'release': v})
                    break
    # published clientbound ids through the dict the REAL play/login reactors build: the published id must lead to the
    # published packet class (and to no other)
    for v in rp.RELEASES:
        if v in missing_rel:
            continue
        stub = type('Stub', (), {})()
        stub.context = ConnectionContext(protocol_version=v)
        for R, names in ((Cn.PlayingReactor, ('keep_alive_cb', 'join_game', 'chat_cb', 'position_look_cb', 'disconnect_play')),
                         (Cn.LoginReactor, ('login_disconnect', 'encryption_request', 'login_success', 'set_compression'))):
            try:
                table = R(stub).clientbound_packets
            except Exception as e:
                ctx.violation('release %d: %s cannot be built: %r' % (v, R.__name__, e), {'release': v}, key={'kind': 'reactor-build', 'release': v})
                continue
            for name in names:
                if rp.layout(name, v) is None:
                    continue
                want_cls = rp.PYCRAFT_NAME[name][1]
                got_cls = table.get(rp.packet_id(name, v))
                claim = sorted(c.__name__ for c in R.get_clientbound_packets(stub.context) if c.get_id(stub.context) == rp.packet_id(name, v))
                ctx.case(('dispatch', v, name))
                if got_cls is None or got_cls.__name__ != want_cls or claim != [want_cls]:
                    ctx.violation('release %d: published id 0x%02X of %s is decoded by %s (classes claiming that id: %r)'
                                  % (v, rp.packet_id(name, v), name, got_cls and got_cls.__name__, claim),
                                  {'release': v, 'packet': name}, key={'kind': 'dispatch', 'release': v, 'packet': name})
    # a write that fails (a value that cannot be encoded, or the socket raising) must leave no trace in
    # the NEXT packet written by the same thread
    for v in rp.RELEASES:
        if v in missing_rel:
            continue
        cx = ConnectionContext(protocol_version=v)
        for fault in ('encode', 'send'):
            for name in ('handshake', 'keep_alive_sb', 'teleport_confirm', 'chat_sb'):
                if name not in rp.PYCRAFT_NAME or rp.layout(name, v) is None:
                    continue
                tab, clsname = rp.PYCRAFT_NAME[name]
                cls = next((c for c in tabs[tab].get_packets(cx) if c.__name__ == clsname), None)
                kacls = next((c for c in tabs['sbPlay'].get_packets(cx) if c.__name__ == 'KeepAlivePacket'), None)
                if cls is None or kacls is None:
                    continue
                # 1. the failing write
                bad_p = kacls(cx)
                bad_p.keep_alive_id = 'not a number' if fault == 'encode' else 5

                class Flaky(io.BytesIO):
                    def send(self, b):
                        raise BrokenPipeError(32, 'Broken pipe')
                fs = Flaky() if fault == 'send' else io.BytesIO()
                if fault != 'send':
                    fs.send = fs.write
                try:
                    bad_p.write(fs)
                    failed = False
                except Exception:
                    failed = True
                # 2. the next packet
                lay = rp.layout(name, v)
                d = [(n, t) for f in cls.get_definition(cx) for n, t in f.items()]
                vals = [gen(rng, t, 2 + i) for i, (_, t) in enumerate(lay)]
                if any(isinstance(x, str) and len(x) > 1000 for x in vals):
                    vals = [('s' if isinstance(x, str) else x) for x in vals]
                ref_payload = rc.varint(rp.packet_id(name, v)) + b''.join(ref_enc(t, x) for (_, t), x in zip(lay, vals))
                p = cls(cx)
                for (n, _), x in zip(d, vals):
                    setattr(p, n, x)
                sock = io.BytesIO()
                sock.send = sock.write
                ctx.case(('after-failed-write', v, name, fault))
                try:
                    p.write(sock)
                    got = sock.getvalue()
                except Exception as e:
                    got = repr(e).encode()
                if failed and got != rc.varint(len(ref_payload)) + ref_payload:
                    ctx.violation('release %d %s written after a write that failed (%s): bytes %s, published %s'
                                  % (v, name, fault, got.hex()[:60], (rc.varint(len(ref_payload)) + ref_payload).hex()[:60]),
                                  {'release': v, 'packet': name, 'fault': fault},
                                  key={'release': v, 'packet': name, 'kind': 'after-failed-write', 'fault': fault})
    # a packet decoded from published bytes and written again must give the same bytes (what the keep-alive
    # echo relies on), in particular for 5-byte VarInts with the top bit set ("negative" ids)
    for v in rp.RELEASES:
        if v in missing_rel:
            continue
        cx = ConnectionContext(protocol_version=v)
        for name in ('keep_alive_cb', 'keep_alive_sb', 'teleport_confirm', 'set_compression'):
            lay = rp.layout(name, v)
            if lay is None:
                continue
            tab, clsname = rp.PYCRAFT_NAME[name]
            cls = next((c for c in tabs[tab].get_packets(cx) if c.__name__ == clsname), None)
            if cls is None:
                continue
            t = lay[0][1]
            encs = [bytes.fromhex(h) for h in (['ffffffff0f', '8080808008', 'ffffffff07', '00', '7f'] if t == 'varint'
                                                else ['ffffffffffffffff', '8000000000000000', '0000000000000001'])]
            for payload in encs:
                q = cls(cx)
                rb = PacketBuffer()
                rb.send(payload)
                rb.reset_cursor()
                ctx.case(('echo', v, name, payload))
                try:
                    q.read(rb)
                    wb = PacketBuffer()
                    q.write_fields(wb)
                    out = wb.get_writable()
                except Exception as e:
                    out = 'raised %r' % (e,)
                if out != payload:
                    ctx.violation('release %d %s: published bytes %s decoded and written again give %s'
                                  % (v, name, payload.hex(), out.hex() if isinstance(out, bytes) else out),
                                  {'release': v, 'packet': name, 'bytes': payload.hex()},
                                  key={'release': v, 'packet': name, 'echo': payload.hex()})
    ctx.extra['releases'] = len(rp.RELEASES)
    ctx.extra['core_packets'] = len(rp.CORE)


def replay(ctx, rp_):
    for v in rp_.get('violations', []):
        print(v)
    return not rp_.get('violations')
