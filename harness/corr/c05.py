"""C05: every packet class round-trips under every supported protocol version.
Tie: Generated/Layouts.lean + Ids.lean (total tabulation, kernel-checked coverage/ok-ness theorems) and
byte-level correspondence: real Packet.write_fields / read vs the Lean field-list codec (`fields.enc`,
`fields.dec`), hand-written codecs in corr/c05hand.py, random user-defined field lists."""
import io
import struct
import uuid as uuidlib

import extract
from lib import hx

EXTRACT = ['ids', 'layouts', 'gen.c05nbt', 'gen.c05dispatch']
EXTRA_PROPS = ['C05Hand', 'C05Stream', 'C05Nbt', 'C05Dispatch']
RULE = ("every supported protocol version (quick: rotating third + all layout-boundary versions) x every "
        "registered definition-driven packet class x 2..4 value sets (boundary + seeded random wire-"
        "representable values per field type, incl. nested arrays, positions, records, fixed point, angles); "
        "hand-written classes (Map, PlayerListItem x5 actions, SpawnObject, CombatEvent x3, FacePlayer, "
        "PluginResponse) in corr/c05hand.py; randomly generated field-list definitions (programs) of library "
        "types incl. nested arrays; distinct by (version-layout, class, values)")


class Buf:
    def __init__(self):
        self.b = bytearray()

    def send(self, d):
        self.b += d


def gen_value(rng, tok, ctxobj, boundary):
    """-> (python value for the real code, model value token, comparable form after read)"""
    from minecraft.networking import types as T
    from minecraft.networking.packets.clientbound.play import MultiBlockChangePacket, ExplosionPacket
    parts = tok.split('/')
    k = parts[0]
    R = rng.random

    def pick(lo, hi):
        if boundary:
            return rng.choice([lo, hi - 1, 0 if lo <= 0 < hi else lo, min(hi - 1, max(lo, 1))])
        return rng.randrange(lo, hi)
    ints = {'u8': (0, 256), 'i8': (-128, 128), 'i16': (-2 ** 15, 2 ** 15), 'u16': (0, 2 ** 16),
            'i32': (-2 ** 31, 2 ** 31), 'i64': (-2 ** 63, 2 ** 63), 'u64': (0, 2 ** 64)}
    if k == 'bool':
        v = R() < 0.5
        return v, 'T' if v else 'F', v
    if k in ints:
        v = pick(*ints[k])
        return v, 'i%d' % v, v
    if k == 'varint':
        v = pick(0, 2 ** 31)
        return v, 'i%d' % v, v
    if k == 'varlong':
        v = pick(0, 2 ** 63)
        return v, 'i%d' % v, v
    if k in ('f32', 'f64'):
        w = 4 if k == 'f32' else 8
        fmt = '>f' if k == 'f32' else '>d'
        val = rng.choice([0.0, 1.0, -1.5, 100.25, 1e6, -3.0e-3]) if boundary else struct.unpack(fmt, struct.pack(fmt, rng.uniform(-1e5, 1e5)))[0]
        pat = int.from_bytes(struct.pack(fmt, val), 'big')
        val = struct.unpack(fmt, pat.to_bytes(w, 'big'))[0]
        return val, 'i%d' % pat, ('pat', pat)
    if k == 'string':
        if boundary and rng.random() < 0.01:
            s = '{"text":"' + 'long chat ' * rng.choice([13200, 26000]) + '"}'     # well above 2^17 bytes
            return s, 's' + s.encode('utf-8').hex(), s
        s = rng.choice(['', 'a', 'héllo', '世界', 'x' * 130, '{"text":"hi"}']) if boundary else \
            ''.join(rng.choice('abc é世\U0001f600"{}:') for _ in range(rng.randrange(0, 20)))
        return s, 's' + s.encode('utf-8').hex(), s
    if k == 'uuid':
        raw = bytes(rng.randrange(256) for _ in range(16))
        return str(uuidlib.UUID(bytes=raw)), 'x' + raw.hex(), str(uuidlib.UUID(bytes=raw))
    if k == 'angle':
        step = pick(0, 256)
        return 360 * step / 256, 'i%d' % step, 360 * step / 256
    if k == 'fixed':
        lo, hi = ints[parts[1]]
        w = pick(lo, hi)
        bits = int(parts[2])
        return w / (1 << bits), 'i%d' % w, w / (1 << bits)
    if k in ('bytesv', 'bytess', 'trailing'):
        n = rng.choice([0, 1, 5, 200]) if boundary else rng.randrange(0, 40)
        b = bytes(rng.randrange(256) for _ in range(n))
        return b, 'x' + b.hex(), b
    if k == 'pos':
        x, y, z = pick(-2 ** 25, 2 ** 25), pick(-2 ** 11, 2 ** 11), pick(-2 ** 25, 2 ** 25)
        return T.Position(x, y, z), '[i%d,i%d,i%d]' % (x, y, z), (x, y, z)
    if k == 'secpos':
        x, y, z = pick(-2 ** 21, 2 ** 21), pick(-2 ** 19, 2 ** 19), pick(-2 ** 21, 2 ** 21)
        return MultiBlockChangePacket.ChunkSectionPos(x, y, z), '[i%d,i%d,i%d]' % (x, y, z), (x, y, z)
    if k == 'rec':
        new = parts[1] == '1'
        x, z, y, b = pick(0, 16), pick(0, 16), pick(0, 16 if new else 256), pick(0, 2 ** 20)
        return MultiBlockChangePacket.Record(x=x, y=y, z=z, block_state_id=b), '[i%d,i%d,i%d,i%d]' % (x, y, z, b), ('rec', x, y, z, b)
    if k == 'expl':
        x, y, z = pick(-128, 128), pick(-128, 128), pick(-128, 128)
        return ExplosionPacket.Record(x, y, z), '[i%d,i%d,i%d]' % (x, y, z), (x, y, z)
    if k == 'effpos':
        w = [pick(-2 ** 28, 2 ** 28) for _ in range(3)]
        return T.Vector(*(x / 8.0 for x in w)), '[%s]' % ','.join('i%d' % x for x in w), tuple(x / 8.0 for x in w)
    if k == 'pitch':
        f32, scaled = parts[1] == '1', parts[2] == '1'
        if f32:
            v = rng.choice([0.0, 0.5, 1.0, 2.0, -1.0])
            wirev = v * 63.5 if scaled else v
            pat = int.from_bytes(struct.pack('>f', wirev), 'big')
            return v, 'i%d' % pat, ('approx', v)
        wv = rng.choice([0, 127, -127]) if scaled else pick(-128, 128)
        v = wv / 63.5 if scaled else wv
        return v, 'i%d' % wv, ('approx', v)
    if k == 'arr':
        lt = parts[1]
        et = '/'.join(parts[2:])
        n = rng.choice([0, 1, 3]) if boundary else rng.randrange(0, 4)
        items = [gen_value(rng, et, ctxobj, boundary) for _ in range(n)]
        return [i[0] for i in items], '[' + ','.join(i[1] for i in items) + ']', [i[2] for i in items]
    raise KeyError(tok)


def canon(v):
    """comparable form of a value as the real reader returns it"""
    import struct as st
    from minecraft.networking.packets.clientbound.play import MultiBlockChangePacket
    if isinstance(v, MultiBlockChangePacket.Record):
        return ('rec', v.x, v.y, v.z, v.block_state_id)
    if isinstance(v, tuple) and hasattr(v, '_fields'):
        return tuple(v)
    if isinstance(v, list):
        return [canon(x) for x in v]
    return v


def same(expected, got):
    if isinstance(expected, tuple) and expected and expected[0] == 'pat':
        fmt = '>f' if expected[1] < 2 ** 32 and False else None
        return True if got is None else float_pat_eq(expected[1], got)
    if isinstance(expected, tuple) and expected and expected[0] == 'approx':
        return abs(got - expected[1]) < 1e-5
    if isinstance(expected, list):
        return isinstance(got, list) and len(got) == len(expected) and all(same(a, b) for a, b in zip(expected, got))
    return expected == got


def float_pat_eq(pat, got):
    for fmt, w in (('>f', 4), ('>d', 8)):
        try:
            if int.from_bytes(struct.pack(fmt, got), 'big') == pat:
                return True
        except (OverflowError, struct.error):
            pass
    return False


def run(ctx):
    import minecraft
    from minecraft.networking.connection import ConnectionContext
    from minecraft.networking import packets
    from minecraft.networking.packets import Packet, PacketBuffer
    ctx.extra['rule'] = RULE
    rng = ctx.rng
    tabs = extract.layout_tables()
    ids = extract.id_tables()
    SUP = list(minecraft.SUPPORTED_PROTOCOL_VERSIONS)
    rank = minecraft.PROTOCOL_VERSION_INDICES
    # versions where some layout changes (first version of each variant) and their predecessors
    boundary_versions = set()
    for t in tabs.values():
        for variants in t.values():
            for lay, vers in variants:
                boundary_versions.add(vers[0])
    known = list(minecraft.KNOWN_PROTOCOL_VERSIONS)
    for v in list(boundary_versions):
        i = rank[v]
        if i > 0:
            boundary_versions.add(known[i - 1])
    if ctx.thorough or ctx.searching:
        versions = SUP
    else:
        versions = [v for v in SUP if rank[v] % 3 == ctx.seed % 3 or v in boundary_versions]
    ctx.extra['versions_checked'] = len(versions)
    enc_lines, enc_impl, dec_lines, dec_impl = [], [], [], []
    seen_layouts = set()
    nbt_skipped = 0
    import json as _json
    import os as _os
    k1 = set()
    try:
        for f_ in _json.load(open(_os.path.join(_os.path.dirname(_os.path.dirname(_os.path.dirname(_os.path.abspath(__file__)))), 'known_findings.json')))['findings']:
            if f_['property'] == 'C06' and f_['kind'] == 'known':
                k1.add((f_['key']['table'], f_['key']['version'], f_['key']['id']))
    except Exception:
        pass
    for tname, direction, state in extract.TABLES:
        mod = getattr(getattr(packets, direction), state)
        idrows = {pv: dict(ents) for pv, sup, ents in ids[tname]}
        # "reading the bytes back yields a packet of the same class": the id a packet is written with must not be the id of
        # another class registered for the same state, direction and version (the collisions recorded under C06 excepted)
        for v in SUP:
            byid = {}
            for cname, pid in idrows.get(v, {}).items():
                byid.setdefault(pid, []).append(cname)
            for pid, names in byid.items():
                if len(names) > 1 and (tname, v, pid) not in k1 and isinstance(pid, int):
                    ctx.violation('%s at protocol %d: packets of classes %s are all written with id 0x%02X, so the id does not lead back '
                                  'to the class that was written' % (tname, v, '/'.join(sorted(names)), pid),
                                  {'table': tname, 'version': v, 'id': pid, 'classes': sorted(names)},
                                  key={'kind': 'id-shared', 'table': tname, 'version': v, 'id': pid})
        for v in versions:
            cx = ConnectionContext(protocol_version=v)
            for cls in sorted(mod.get_packets(cx), key=lambda c: c.__name__):
                variants = tabs[tname].get(cls.__name__, [])
                lay = next((l for l, vers in variants if v in vers), 'missing')
                if lay == 'missing':
                    ctx.disagree('class registered but absent from the layout table', [tname, cls.__name__, v], None, None)
                    continue
                if lay is None:
                    continue                         # hand-written codec: corr/c05hand.py
                toks = [t for _, _, t in lay]
                if any('nbt' in t for t in toks):
                    nbt_skipped += 1
                    continue
                key = (tname, cls.__name__, tuple(toks))
                reps = 2 if key in seen_layouts else 4
                seen_layouts.add(key)
                for rep in range(reps):
                    vals = [gen_value(rng, t, cx, boundary=(rep % 2 == 0)) for t in toks]
                    p = cls(cx)
                    for (name, _, _), (pyv, _, _) in zip(lay, vals):
                        setattr(p, name, pyv)
                    buf = PacketBuffer()
                    bad = None
                    try:
                        p.write_fields(buf)
                        data = buf.get_writable()
                        got = 'ok ' + hx(data)
                    except Exception as e:
                        data = None
                        got = 'err:' + type(e).__name__
                        bad = 'write_fields raised %r' % (e,)
                    ctx.case((tname, cls.__name__, tuple(toks), tuple(m for _, m, _ in vals)),
                             sample={'table': tname, 'class': cls.__name__, 'version': v, 'fields': len(toks), 'impl': got[:60]})
                    ctx.count('class.' + tname)
                    enc_lines.append('fields.enc %s %s' % (';'.join(toks) or '-', ';'.join(m for _, m, _ in vals) or '-'))
                    enc_impl.append(got)
                    if data is not None:
                        q = cls(cx)
                        rb = PacketBuffer()
                        rb.send(data)
                        rb.reset_cursor()
                        try:
                            q.read(rb)
                            rest = rb.read()
                            for (name, _, _), (_, _, exp) in zip(lay, vals):
                                if not same(exp, canon(getattr(q, name))):
                                    bad = 'field %s reads back as %r, written %r' % (name, getattr(q, name), exp)
                            if rest:
                                bad = 'payload not consumed exactly: %d bytes left' % len(rest)
                        except Exception as e:
                            bad = 'read raised %r' % (e,)
                        try:
                            r1, r2 = repr(p), repr(q)
                        except Exception as e:
                            bad = 'repr raised %r' % (e,)
                        pid = idrows.get(v, {}).get(cls.__name__)
                        if p.id != pid or q.id != pid or not isinstance(pid, int) or pid < 0:
                            bad = 'packet id %r differs from the registered id %r' % (p.id, pid)
                    if bad:
                        ctx.violation('%s.%s at protocol %d: %s' % (tname, cls.__name__, v, bad),
                                      {'table': tname, 'class': cls.__name__, 'version': v,
                                       'values': [m for _, m, _ in vals]},
                                      key={'class': cls.__name__, 'table': tname, 'version': v})
    ctx.extra['nbt_layouts_skipped'] = nbt_skipped
    # ------------------------------------------------------------------ NBT-bearing classes: real round trip only
    try:
        import pynbt
        from minecraft.networking.packets.clientbound.play import JoinGamePacket, RespawnPacket
        for v in [x for x in SUP if rank[x] >= rank[718]]:      # all of them: few, and layouts change often here
            cx = ConnectionContext(protocol_version=v)
            for cls in (JoinGamePacket, RespawnPacket):
                d = [(n, t) for f in cls.get_definition(cx) for n, t in f.items()]
                for rep in range(3):
                    p = cls(cx)
                    written = []
                    order = list(d)
                    if rep == 2:
                        rng.shuffle(order)             # fields may be assigned in any order
                    for n, t in order:
                        from minecraft.networking.types import basic as B
                        if t is B.NBT:
                            setattr(p, n, pynbt.TAG_Compound({'a': pynbt.TAG_Int(1)}))
                        else:
                            tok = extract.wtype_of(t, cx)[1]
                            pyv, _, exp = gen_value(rng, tok, cx, rep == 0)
                            setattr(p, n, pyv)
                            written.append((n, exp))
                    buf = PacketBuffer()
                    p.write_fields(buf)
                    q = cls(cx)
                    rb = PacketBuffer()
                    rb.send(buf.get_writable())
                    rb.reset_cursor()
                    q.read(rb)
                    ctx.case(('nbt', cls.__name__, v, rep))
                    if rb.read():
                        ctx.violation('%s at %d: payload not consumed' % (cls.__name__, v), {}, key={'nbt': [cls.__name__, v]})
                    for n, exp in written:
                        if not same(exp, canon(getattr(q, n))):
                            ctx.violation('%s at protocol %d: field %s reads back as %r, written %r (fields assigned in the order %s)'
                                          % (cls.__name__, v, n, getattr(q, n), exp, ','.join(x for x, _ in order)),
                                          {'class': cls.__name__, 'version': v, 'field': n},
                                          key={'class': cls.__name__, 'version': v, 'kind': 'nbt-class-field', 'field': n})
                            break
                    try:
                        repr(p), repr(q), str(q)
                    except Exception as e:
                        ctx.violation('%s at protocol %d: textual representation raises %r' % (cls.__name__, v, e),
                                      {'class': cls.__name__, 'version': v}, key={'class': cls.__name__, 'version': v, 'kind': 'repr'})
    except ImportError:
        ctx.notes.append('pynbt missing: NBT classes not exercised')
    # ---- the one-byte sound pitch of the protocols before 201: every byte read and written again is the same byte, and the
    # value read back from it is the value written (wire-representable values are exactly the 256 the reader can produce)
    try:
        from minecraft.networking.packets.clientbound.play import SoundEffectPacket
        import io as _io
        for v in [x for x in SUP if rank[x] < rank[201] and rank[x] >= rank[107]]:
            cx = ConnectionContext(protocol_version=v)
            for b in range(256):
                ctx.case(('pitch-byte', v, b))
                try:
                    val = SoundEffectPacket.Pitch.read_with_context(_io.BytesIO(bytes([b])), cx)
                    buf = PacketBuffer()
                    SoundEffectPacket.Pitch.send_with_context(val, buf, cx)
                    out = buf.get_writable()
                    back = SoundEffectPacket.Pitch.read_with_context(_io.BytesIO(out), cx) if len(out) == 1 else None
                except Exception as e:
                    out, back, val = repr(e), None, None
                if out != bytes([b]) or back != val:
                    ctx.violation('sound effect pitch at protocol %d: wire byte %02x reads as %r, which is written as %r (reads back as %r)'
                                  % (v, b, val, out.hex() if isinstance(out, bytes) else out, back),
                                  {'version': v, 'byte': b}, key={'kind': 'pitch-byte', 'byte': b})
                    break
    except ImportError:
        pass
    # ---- one packet OBJECT written several times with its fields changed in between: every write is the encoding of the
    # fields as they are at that moment (PluginResponsePacket infers `successful` from `data` when it was never assigned)
    try:
        from minecraft.networking.packets import serverbound as sb_
        import refcodec as rc_
        for v in [x for x in SUP if rank[x] >= rank[385]][:: max(1, len(SUP) // 12)]:
            cx = ConnectionContext(protocol_version=v)
            for seq in ([None, b'xy'], [b'xy', None], [None, b'', None], [b'a', b'bc', None, b'd']):
                pk = sb_.login.PluginResponsePacket(cx)
                pk.message_id = rng.randrange(0, 1000)
                outs, wants = [], []
                for d_ in seq:
                    pk.data = d_
                    buf = PacketBuffer()
                    try:
                        pk.write_fields(buf)
                        outs.append(buf.get_writable().hex())
                    except Exception as e:
                        outs.append('raised %s' % type(e).__name__)
                    wants.append((rc_.varint(pk.message_id) + (b'\x00' if d_ is None else b'\x01' + d_)).hex())
                ctx.case(('rewrite-plugin-response', v, tuple(seq)))
                if outs != wants:
                    k_ = next(i for i, (a_, b_) in enumerate(zip(outs, wants)) if a_ != b_)
                    ctx.violation('PluginResponsePacket at protocol %d written %d times with data = %r in turn: write #%d gives %s, the '
                                  'encoding of its fields at that moment is %s' % (v, len(seq), seq, k_ + 1, outs[k_], wants[k_]),
                                  {'version': v, 'data_sequence': [None if d_ is None else d_.hex() for d_ in seq]},
                                  key={'kind': 'rewrite-plugin-response', 'seq': [d_ is None for d_ in seq]})
                    break
    except ImportError:
        pass
    # ------------------------------------------------------------------ user-defined packets: random field lists
    from minecraft.networking.types import basic as B
    atoms = [('bool', B.Boolean), ('u8', B.UnsignedByte), ('i8', B.Byte), ('i16', B.Short), ('u16', B.UnsignedShort),
             ('i32', B.Integer), ('i64', B.Long), ('u64', B.UnsignedLong), ('f32', B.Float), ('f64', B.Double),
             ('varint', B.VarInt), ('varlong', B.VarLong), ('string', B.String), ('uuid', B.UUID), ('angle', B.Angle),
             ('bytesv', B.VarIntPrefixedByteArray), ('bytess', B.ShortPrefixedByteArray), ('pos/1', B.Position)]

    def gen_type(depth):
        r = rng.random()
        if depth < 2 and r < 0.25:
            lt, LT = rng.choice([('varint', B.VarInt), ('i32', B.Integer)])
            tok, T = gen_type(depth + 1)
            return 'arr/%s/%s' % (lt, tok), B.PrefixedArray(LT, T)
        if r < 0.35:
            base, BT = rng.choice([('i8', B.Byte), ('i16', B.Short), ('i32', B.Integer)])
            bits = rng.choice([5, 12]) if base != 'i8' else 5
            return 'fixed/%s/%d' % (base, bits), B.FixedPoint(BT, bits)
        return rng.choice(atoms)
    cx = ConnectionContext(protocol_version=757)
    for i in range(ctx.scale(150, 2500)):
        n = rng.randrange(0, 7)
        fields = [gen_type(0) for _ in range(n)]
        if rng.random() < 0.2:
            fields.append(('trailing', B.TrailingByteArray))

        # field names users may pick: leading / trailing / doubled underscores, acronyms, capitals
        names = [rng.choice(['f%d', '_f%d', 'f%d_', 'f__%d', 'player_UUID%d', 'F%d', 'type_%d_']) % k for k in range(len(fields))]

        groups, k_ = [], 0
        while k_ < len(fields):
            g_ = rng.choice([1, 1, 2, 3])
            groups.append(list(range(k_, min(len(fields), k_ + g_))))
            k_ += g_
        if rng.random() < 0.2:
            groups.insert(rng.randrange(len(groups) + 1), [])        # an empty placeholder entry

        class UserPacket(Packet):
            id = 0x77
            # an entry of a definition may declare several fields (a dict with more than one item)
            definition = (lambda ents: ents)([dict((names[k], fields[k][1]) for k in grp) for grp in groups])
        vals = [gen_value(rng, tok, cx, boundary=(i % 2 == 0)) for tok, _ in fields]
        p = UserPacket(cx)
        for k, (pyv, _, _) in enumerate(vals):
            setattr(p, names[k], pyv)
        buf = PacketBuffer()
        try:
            p.write_fields(buf)
            data = buf.get_writable()
            got = 'ok ' + hx(data)
        except Exception as e:
            data, got = None, 'err:' + type(e).__name__
        toks = [t for t, _ in fields]
        ctx.case(('user', tuple(toks), tuple(m for _, m, _ in vals)),
                 sample={'program': ';'.join(toks), 'impl': got[:60]})
        ctx.count('user_defined')
        enc_lines.append('fields.enc %s %s' % (';'.join(toks) or '-', ';'.join(m for _, m, _ in vals) or '-'))
        enc_impl.append(got)
        bad = None
        if data is None:
            bad = 'write failed: ' + got
        else:
            q = UserPacket(cx)
            rb = PacketBuffer()
            rb.send(data + (b'' if toks and toks[-1] == 'trailing' else b''))
            rb.reset_cursor()
            try:
                q.read(rb)
                for k, (_, _, exp) in enumerate(vals):
                    if not same(exp, canon(getattr(q, names[k]))):
                        bad = 'field %s (%s) reads back as %r, written %r' % (names[k], toks[k], getattr(q, names[k]), exp)
                if rb.read():
                    bad = 'payload not consumed exactly'
            except Exception as e:
                bad = 'read raised %r' % (e,)
            if not bad:
                try:
                    rtxt = repr(q)
                    if any(n not in rtxt for n in names):
                        bad = 'repr %r does not show every field (%r)' % (rtxt[:80], names)
                except Exception as e:
                    bad = 'repr raised %r for field names %r' % (e, names)
            if toks and not any(t == 'trailing' for t in toks):
                dec_lines.append('fields.dec %s %s' % (';'.join(toks), hx(data + b'\x99')))
                dec_impl.append('ok %s 99' % ';'.join(m for _, m, _ in vals))
        if bad:
            ctx.violation('user-defined packet [%s]: %s' % (';'.join(toks), bad),
                          {'program': toks, 'values': [m for _, m, _ in vals]}, key={'program': toks, 'values': [m for _, m, _ in vals]})
    # ---- a user-defined packet with a CLASS-LEVEL definition (one PrefixedArray object shared by all
    # instances) used under several protocol versions in one process: context-dependent element types
    # must follow the version of the packet being read/written, not the first one seen
    class Waypoints(Packet):
        id = 0x78
        definition = [{'points': B.PrefixedArray(B.VarInt, B.Position)},
                      {'nested': B.PrefixedArray(B.VarInt, B.PrefixedArray(B.Integer, B.Position))},
                      {'note': B.String}]
    big = '{"text":"' + 'x' * 140000 + '"}'
    for v in (340, 404, 498, 754, 757, 340, 47, 757):
        cxv = ConnectionContext(protocol_version=v)
        pts = [gen_value(rng, 'pos/%d' % cxv.protocol_later_eq(443), cxv, True) for _ in range(3)]
        p = Waypoints(cxv)
        p.points = [x[0] for x in pts]
        p.nested = [[x[0] for x in pts[:2]], []]
        p.note = big if v == 757 else 'n'
        buf = PacketBuffer()
        p.write_fields(buf)
        data = buf.get_writable()
        q = Waypoints(cxv)
        rb = PacketBuffer()
        rb.send(data)
        rb.reset_cursor()
        ctx.case(('waypoints', v, tuple(x[1] for x in pts)))
        try:
            q.read(rb)
            okk = [tuple(a) for a in q.points] == [x[2] for x in pts] and \
                [[tuple(a) for a in l] for l in q.nested] == [[x[2] for x in pts[:2]], []] and q.note == p.note and not rb.read()
            why = 'reads back %r' % ([tuple(a) for a in q.points],)
        except Exception as e:
            okk, why = False, 'read raised %r' % (e,)
        if not okk:
            ctx.violation('user-defined packet with a class-level definition at protocol %d (after other versions): %s, written %r'
                          % (v, why[:200], [x[2] for x in pts]), {'version': v}, key={'kind': 'class-level-definition', 'version': v})
        toks = 'arr/varint/pos/%d;arr/varint/arr/i32/pos/%d;string' % (cxv.protocol_later_eq(443), cxv.protocol_later_eq(443))
        if v != 757:
            enc_lines.append('fields.enc %s [%s];[[%s],[]];s%s' % (toks, ','.join(x[1] for x in pts), ','.join(x[1] for x in pts[:2]), p.note.encode().hex()))
            enc_impl.append('ok ' + hx(data))
    for lines, impl, what in ((enc_lines, enc_impl, 'write_fields'), (dec_lines, dec_impl, 'read')):
        for line, mo, g in zip(lines, ctx.driver.ask(lines), impl):
            if mo != g:
                ctx.disagree('packet ' + what, line[:240], mo[:200], g[:200])
    nbt_tie(ctx)
    registry_tie(ctx)
    # ------------------------------------------------------------------ hand-written codecs
    try:
        from corr import c05hand
    except ImportError:
        ctx.notes.append('hand-written codec harness not present')
        return
    c05hand.run_hand(ctx)


def registry_tie(ctx):
    """Tie of Model/C05Dispatch.lean (driver `c05d.ent`, `c05d.dispatch`, `c05d.enc`, `c05d.dec`; ported from
    harness/xcheck/c05dispatch_cross/): for every table and every KNOWN protocol version (exhaustive in both
    tiers) every registered class with its live get_id and codec (field list via
    extract.wtype_of; hand-written classes by the version comparisons their codecs branch on), the class a dict built
    like the reactor's holds under every id carried by exactly one class (K1 collision ids are left out: the real
    answer depends on set iteration order) and under an unused id; write / read of the six hand-written classes."""
    import minecraft
    from minecraft.networking.connection import ConnectionContext
    from minecraft.networking import packets
    from minecraft.networking.packets import Packet, PacketBuffer
    from minecraft.networking.types import VarInt
    from gen import c05dispatch as G
    rng = ctx.rng
    PRE = minecraft.PRE
    known = list(minecraft.KNOWN_PROTOCOL_VERSIONS)
    versions = known            # exhaustive in both tiers: the whole registry costs well under a second
    le = lambda c, x: '01'[bool(c.protocol_later_eq(x))]
    reqs, expect = [], []
    for name, d, s in G.TABLES:
        gp = getattr(getattr(packets, d), s).get_packets
        for pv in versions:
            cx = ConnectionContext(protocol_version=pv)
            classes = sorted(gp(cx), key=lambda c: c.__name__)
            ids = {}
            for cls in classes:
                try:
                    i = cls.get_id(cx)
                except Exception:
                    i = None
                if type(i) is not int:
                    i = None
                ids.setdefault(i, []).append(cls.__name__)
                n = cls.__name__
                if cls.read is not Packet.read or cls.write_fields is not Packet.write_fields:
                    codec = {'MapPacket': 'map:' + ''.join(le(cx, x) for x in (107, 452, PRE | 6, 373, 364)),
                             'SpawnObjectPacket': 'spawn:' + ''.join(le(cx, x) for x in (49, 458, 100)),
                             'FacePlayerPacket': 'face:' + le(cx, 353), 'CombatEventPacket': 'combat:' + le(cx, PRE | 15),
                             'PlayerListItemPacket': 'pli:-', 'PluginResponsePacket': 'plugresp:-'}.get(n, 'unlisted-hand-written-class')
                else:
                    try:
                        toks = [extract.wtype_of(t, cx)[1] for f in cls.get_definition(cx) for _, t in f.items()]
                        codec = 'fields:' + (';'.join(toks) if toks else '-')
                    except Exception as e:
                        codec = 'definition-raised:%s' % type(e).__name__
                reqs.append('c05d.ent %s %d %s' % (name, pv, n))
                expect.append('ok id=%s codec=%s' % ('~' if i is None else i, codec))
            for i, cl in ids.items():
                if i is not None and len(cl) == 1:
                    reqs.append('c05d.dispatch %s %d %d' % (name, pv, i))
                    expect.append('ok ' + cl[0])
            if None not in ids:
                free = next(x for x in (250, 251, 252, 253, 254, 255, 1000) if x not in ids)
                reqs.append('c05d.dispatch %s %d %d' % (name, pv, free))
                expect.append('ok ~')
    n_reg = len(reqs)
    # ---- write / read of the hand-written classes
    uuidhex = '000102030405060708090a0b0c0d0e0f'
    d64 = lambda x: str(struct.unpack('>Q', struct.pack('>d', x))[0])

    def sample_toks(key, cx):
        if key == 'map':
            return '3 1 1 0 [5:12:-1:1:6869] 2 1 3:4 aabb'
        if key == 'pli':
            return '0 [a:%s:6162:[6e/76/73]:1:20:6869]' % uuidhex
        if key == 'spawn':
            f = cx.protocol_later_eq(100)
            return '1 %s 5 %s 64 128 1 1 2 3' % (uuidhex, ' '.join(d64(float(v)) if f else str(v) for v in (1, 2, 3)))
        if key == 'combat':
            return 'dead:1:2:78'
        if key == 'face':
            return '0 %s %s %s 7 1' % (d64(1.0), d64(2.0), d64(3.0))
        return '1 1 6162'
    tabs = {'map': 'cbPlay', 'pli': 'cbPlay', 'spawn': 'cbPlay', 'combat': 'cbPlay', 'face': 'cbPlay', 'plug': 'sbLogin'}
    dec_expect = {}
    for key, cls, mk in G.hand_samples():
        t = tabs[key]
        gp = (packets.clientbound.play if t == 'cbPlay' else packets.serverbound.login).get_packets
        for pv in versions:
            cx = ConnectionContext(protocol_version=pv)
            if cls not in gp(cx):
                continue
            p = mk(cx)
            try:
                pb, pb2 = PacketBuffer(), PacketBuffer()
                VarInt.send(p.id, pb)
                p.write_fields(pb2)
                idb, body = bytes(pb.get_writable()), bytes(pb2.get_writable())
                e = 'ok %s %s' % (idb.hex(), body.hex() or '-')
            except Exception as ex:
                e, body = 'err:' + type(ex).__name__, None
            reqs.append('c05d.enc %s %d %s %s' % (t, pv, cls.__name__, sample_toks(key, cx)))
            expect.append(e)
            if body is not None:
                q = cls(cx)
                rb = PacketBuffer()
                rb.send(body)
                rb.reset_cursor()
                try:
                    q.read(rb)
                    real = 'known %s ok' % cls.__name__ if not rb.read() else 'known %s ok, but the real read leaves bytes' % cls.__name__
                except Exception as ex:
                    real = 'known %s err:%s' % (cls.__name__, type(ex).__name__)
                reqs.append('c05d.dec %s %d %s' % (t, pv, (idb + body).hex()))
                expect.append(real)
                dec_expect[len(reqs) - 1] = True
    for k, (line, mo, w) in enumerate(zip(reqs, ctx.driver.ask(reqs), expect)):
        op = line.split()[0]
        ctx.case(('c05d', line), sample={'op': op, 'request': line[:100], 'impl': w[:100]} if rng.random() < 0.003 else None)
        ctx.count('registry.' + op)
        ok = (mo.startswith(w + ' ') and mo.endswith(' rest=-')) if k in dec_expect else mo == w
        if not ok:
            ctx.disagree('%s vs the live registry / codec' % op, line[:300], mo[:300], w[:300])
    ctx.extra['c05dispatch_pairs'] = ctx.extra.get('c05dispatch_pairs', 0) + len(reqs)
    ctx.extra['c05dispatch_versions'] = len(versions)


def nbt_tie(ctx):
    """Tie of Model/C05Nbt.lean (driver `nbt.enc`, `nbt.dec`, `nbt.fields.enc`, `nbt.fields.dec`) to the real
    `NBT.send` / `NBT.read` (minecraft.networking.types, over the installed pynbt) and to write_fields / read of the
    NBT-bearing packet layouts (JoinGame >= 718, Respawn >= 748) and of random user-defined layouts with NBT
    fields.  pynbt tags have no __eq__: both sides are rendered as trees of (tag id, value) in the driver's value
    syntax.  Floats are bit patterns (no signalling NaNs); strings stay within U+0001..U+FFFF, where MUTF-8 =
    UTF-8: a damaged input whose real parse handed anything else to the MUTF-8 decoder, or met a signalling-NaN
    float pattern (CPython quiets binary32 sNaNs on conversion), is left out (counted)."""
    import struct as st
    import minecraft
    import pynbt as T
    from minecraft.networking.connection import ConnectionContext
    from minecraft.networking.packets import Packet, PacketBuffer
    from minecraft.networking.packets.clientbound.play import JoinGamePacket, RespawnPacket
    from minecraft.networking.types import NBT, basic as B
    from gen import c05nbt as G
    rng = ctx.rng
    sh = lambda s: s.encode('utf-8').hex()
    f32 = lambda bits: st.unpack('>f', st.pack('>I', bits))[0]
    f64 = lambda bits: st.unpack('>d', st.pack('>Q', bits))[0]

    def tag_tok(t):
        c = type(t)
        if c is T.TAG_End:
            return '[i0,i%d]' % t.value
        if c in (T.TAG_Byte, T.TAG_Short, T.TAG_Int, T.TAG_Long):
            return '[i%d,i%d]' % (T._tags.index(c), t.value)
        if c is T.TAG_Float:
            return '[i5,i%d]' % st.unpack('>I', st.pack('>f', t.value))[0]
        if c is T.TAG_Double:
            return '[i6,i%d]' % st.unpack('>Q', st.pack('>d', t.value))[0]
        if c is T.TAG_Byte_Array:
            return '[i7,x%s]' % bytes(t.value).hex()
        if c is T.TAG_String:
            return '[i8,s%s]' % sh(t.value)
        if c is T.TAG_List:
            return '[i9,i%d,[%s]]' % (T._tags.index(t.type_), ','.join(tag_tok(x) for x in list(t)))
        if c is T.TAG_Compound or c is T.NBTFile:
            return '[i10,[%s]]' % entries_tok(t)
        if c is T.TAG_Int_Array:
            return '[i11,[%s]]' % ','.join('i%d' % x for x in t.value)
        if c is T.TAG_Long_Array:
            return '[i12,[%s]]' % ','.join('i%d' % x for x in t.value)
        raise ValueError('unknown tag class %r' % (c,))

    def entries_tok(d):
        return ','.join('[s%s,%s]' % (sh(k), tag_tok(v)) for k, v in d.items())

    def root_tok(name, d):
        return '[s%s,[%s]]' % (sh(name), entries_tok(d))

    CH = u'abcXYZ_:09 \x01\x7f\xe9Ж世￿'

    def rnd_str(maxlen=8):
        return ''.join(rng.choice(CH) for _ in range(rng.choice([0, 1, 2, 3, rng.randrange(0, maxlen + 1)])))

    def edge(lo, hi, wild):
        if wild and rng.random() < 0.12:             # outside the wire range: struct.error on writing
            return rng.choice([lo - 1, hi, hi + 5, lo - 2 ** 40])
        return rng.choice([lo, hi - 1, 0, 1, -1, rng.randrange(lo, hi)])

    def rnd_tag(depth, wild, kind=None):
        k = kind if kind is not None else rng.choice([1, 2, 3, 4, 5, 6, 7, 8, 8, 9, 9, 10, 10, 11, 12])
        if k in (9, 10) and depth >= 3:
            if kind is None:
                k = 3
            else:                                    # a list item must be of the list's class: an empty container
                return T.TAG_List(T.TAG_End, []) if k == 9 else T.TAG_Compound({})
        if k == 1:
            return T.TAG_Byte(edge(-128, 128, wild))
        if k == 2:
            return T.TAG_Short(edge(-2 ** 15, 2 ** 15, wild))
        if k == 3:
            return T.TAG_Int(edge(-2 ** 31, 2 ** 31, wild))
        if k == 4:
            return T.TAG_Long(edge(-2 ** 63, 2 ** 63, wild))
        if k == 5:
            return T.TAG_Float(f32(rng.choice([0, 0x80000000, 0x3f800000, 0x7f800000, 0xff800000, 0x7fc00000, 1, 0x3dcccccd,
                                               rng.randrange(0, 0x7f800000), 0x80000000 | rng.randrange(0, 0x7f800000)])))
        if k == 6:
            return T.TAG_Double(f64(rng.choice([0, 1 << 63, 0x3ff0000000000000, 0x7ff0000000000000, 0x7ff8000000000000, 1,
                                               rng.randrange(0, 0x7ff0000000000000), (1 << 63) | rng.randrange(0, 0x7ff0000000000000)])))
        if k == 7:
            return T.TAG_Byte_Array(bytearray(rng.randrange(256) for _ in range(rng.randrange(0, 6))))
        if k == 8:
            return T.TAG_String(rnd_str())
        if k == 9:
            n = rng.choice([0, 0, 1, 2, 3])
            it = rng.choice([0, 1, 3, 5, 7, 8, 9, 10, 11, 12]) if n == 0 else rng.choice([1, 2, 3, 4, 5, 6, 7, 8, 9, 10, 11, 12])
            return T.TAG_List(T._tags[it], [rnd_tag(depth + 1, wild, it) for _ in range(n)])
        if k == 10:
            return T.TAG_Compound(rnd_kids(depth + 1, wild))
        if k == 11:
            return T.TAG_Int_Array([edge(-2 ** 31, 2 ** 31, wild) for _ in range(rng.randrange(0, 4))])
        return T.TAG_Long_Array([edge(-2 ** 63, 2 ** 63, wild) for _ in range(rng.randrange(0, 4))])

    def rnd_kids(depth, wild):
        out = {}
        for _ in range(rng.choice([0, 1, 1, 2, 3, 5]) if depth else rng.randrange(0, 6)):
            out[rnd_str(5) if rng.random() < 0.8 else rng.choice(['', 'a', 'minecraft:dimension_type'])] = rnd_tag(depth, wild)
        return out

    def send_real(value):
        buf = PacketBuffer()
        try:
            NBT.send(value, buf)
        except Exception as e:
            return None, 'err:' + G.err_of(e)
        return buf.get_writable(), 'ok ' + hx(buf.get_writable())

    import mutf8 as MU
    handed = []
    orig_dec = MU.decode_modified_utf8

    def spy_dec(b):
        handed.append(bytes(b))
        return orig_dec(b)

    def plain(b):
        try:
            s = b.decode('utf-8')
        except UnicodeDecodeError:
            return False
        return all(1 <= ord(ch) <= 0xFFFF for ch in s)

    def read_real(data):
        """-> (reply the model must give, in scope?)"""
        pb = PacketBuffer()
        pb.send(data)
        pb.reset_cursor()
        del handed[:]
        snan = []
        orig_big = T._read_big

        def spy_big(src, fmt, size):
            raw = src.read(size)
            if fmt in ('f', 'd') and len(raw) == size:
                bits, mant = int.from_bytes(raw, 'big'), (23 if fmt == 'f' else 52)
                expo = (bits >> mant) & ((1 << (8 * size - 1 - mant)) - 1)
                if expo == (1 << (8 * size - 1 - mant)) - 1 and bits & ((1 << mant) - 1) and not bits & (1 << (mant - 1)):
                    snan.append(raw)      # a signalling NaN: CPython's float conversions may quiet it (binary32 does here)
            return st.unpack('>' + fmt, raw)
        MU.decode_modified_utf8, T._read_big = spy_dec, spy_big
        try:
            try:
                r = NBT.read(pb)
                got = 'ok %s %s' % (root_tok(r.name, r), hx(pb.read()))
            except Exception as e:
                got = 'err:' + G.err_of(e)
        finally:
            MU.decode_modified_utf8, T._read_big = orig_dec, orig_big
        return got, all(plain(b) for b in handed) and not snan

    lines, want, what = [], [], []

    def add(line, w, wh):
        lines.append(line)
        want.append(w)
        what.append(wh)
    if T.BaseTag._read_utf8.__globals__.get('mutf8') is not MU:
        ctx.disagree('pynbt no longer decodes strings through the module `mutf8`: the scope filter of the NBT tie is blind', None, None, None)
    # ---- A. random trees: NBT.send, then NBT.read of the bytes followed by stray bytes; named roots
    encodings = []
    for i in range(ctx.scale(200, 3000)):
        wild = rng.random() < 0.25
        kids = rnd_kids(0, wild)
        name = '' if rng.random() < 0.8 else rnd_str(6)
        tokv = root_tok(name, T.TAG_Compound(dict(kids)))        # rendering does not touch the tags' names
        value = kids if name == '' and rng.random() < 0.8 else T.NBTFile(name=name, value=kids)
        data, got = send_real(value)
        add('nbt.enc ' + tokv, got, 'NBT.send')
        if data is None:
            continue
        encodings.append(data)
        if name:                      # what a server that names its root would send: saved by pynbt under that name
            import io as _io
            bio = _io.BytesIO()
            T.NBTFile(name=name, value=value).save(bio)
            data = bio.getvalue()
        stray = bytes(rng.randrange(256) for _ in range(rng.choice([0, 0, 1, 2, 5])))
        got, ok = read_real(data + stray)
        if ok:
            add('nbt.dec ' + hx(data + stray), got, 'NBT.read')
    # ---- B. damaged / truncated encodings and the generator's irregular inputs
    damaged = [bytes.fromhex(h) for h in G.IRREGULAR]
    for i in range(ctx.scale(300, 5000)):
        d = bytearray(rng.choice(encodings)) if encodings else bytearray(b'\x0a\x00\x00\x00')
        for _ in range(rng.choice([1, 1, 2, 3])):
            x = rng.random()
            if x < 0.25 and d:
                del d[rng.randrange(len(d)):]
            elif x < 0.7 and d:
                d[rng.randrange(len(d))] = rng.choice([0, 1, 8, 9, 10, 11, 12, 13, 0x7f, 0x80, 0xf3, 0xff, rng.randrange(256)])
            elif x < 0.85 and d:
                del d[rng.randrange(len(d))]
            else:
                d.insert(rng.randrange(len(d) + 1), rng.randrange(256))
        damaged.append(bytes(d))
    skipped = 0
    for d in damaged:
        got, ok = read_real(d)
        if not ok:
            skipped += 1
            continue
        add('nbt.dec ' + hx(d), got, 'NBT.read (irregular input)')
    ctx.count('nbt.dec.outside_scope_mutf8_or_snan', skipped)
    # ---- C. packet layouts with NBT fields (the rows the main loop skips) and user-defined layouts
    sup = sorted(minecraft.SUPPORTED_PROTOCOL_VERSIONS, key=minecraft.PROTOCOL_VERSION_INDICES.get)
    jobs = []
    seen = set()
    for cls in (JoinGamePacket, RespawnPacket):
        for v in sup:
            cx = ConnectionContext(protocol_version=v)
            d = [(n, t) for f in cls.get_definition(cx) for n, t in f.items()]
            if not any(t is B.NBT for _, t in d):
                continue
            toks = [extract.wtype_of(t, cx)[1] for _, t in d]
            reps = 3 if (cls.__name__, tuple(toks)) not in seen else 1
            seen.add((cls.__name__, tuple(toks)))
            jobs += [(cls, cx, d, toks, '%s at protocol %d' % (cls.__name__, v))] * reps
    ctx.extra['nbt_layouts_tied'] = len(seen)
    atoms = [('bool', B.Boolean), ('u8', B.UnsignedByte), ('i32', B.Integer), ('i64', B.Long), ('varint', B.VarInt), ('string', B.String),
             ('uuid', B.UUID), ('bytesv', B.VarIntPrefixedByteArray), ('nbt', B.NBT), ('nbt', B.NBT), ('arr/varint/string', B.PrefixedArray(B.VarInt, B.String))]
    cx757 = ConnectionContext(protocol_version=757)
    for i in range(ctx.scale(80, 1500)):
        fields = [rng.choice(atoms) for _ in range(rng.randrange(1, 6))]
        if not any(t == 'nbt' for t, _ in fields):
            fields.insert(rng.randrange(len(fields) + 1), ('nbt', B.NBT))

        class UserNbt(Packet):
            id = 0x79
            definition = [{'f%d' % k: t} for k, (_, t) in enumerate(fields)]
        jobs.append((UserNbt, cx757, [('f%d' % k, t) for k, (_, t) in enumerate(fields)], [t for t, _ in fields], 'user-defined'))
    for cls, cx, d, toks, label in jobs:
        p = cls(cx)
        mvals, exps = [], []
        wild = rng.random() < 0.1
        for (n, t), tok in zip(d, toks):
            if t is B.NBT:
                kids = rnd_kids(0, wild)
                setattr(p, n, kids)
                mvals.append(root_tok('', T.TAG_Compound(dict(kids))))
                exps.append(None)
            else:
                pyv, mv, exp = gen_value(rng, tok, cx, boundary=rng.random() < 0.5)
                setattr(p, n, pyv)
                mvals.append(mv)
                exps.append(exp)
        buf = PacketBuffer()
        try:
            p.write_fields(buf)
            data, got = buf.get_writable(), 'ok ' + hx(buf.get_writable())
        except Exception as e:
            data, got = None, 'err:' + G.err_of(e)
        add('nbt.fields.enc %s %s' % (';'.join(toks), ';'.join(mvals)), got, 'write_fields (%s)' % label)
        if data is None:
            continue
        q = cls(cx)
        rb = PacketBuffer()
        rb.send(data + b'\x99')
        rb.reset_cursor()
        try:
            q.read(rb)
            shown = []
            for (n, t), mv, exp in zip(d, mvals, exps):
                gv = getattr(q, n)
                if t is B.NBT:
                    shown.append(root_tok(gv.name, gv))
                else:          # the written token stands for the value iff it reads back as written
                    shown.append(mv if same(exp, canon(gv)) else 'differs:%r' % (gv,))
            got = 'ok %s %s' % (';'.join(shown), hx(rb.read()))
        except Exception as e:
            got = 'err:' + G.err_of(e)
        add('nbt.fields.dec %s %s' % (';'.join(toks), hx(data + b'\x99')), got, 'read (%s)' % label)
    for line, mo, w, wh in zip(lines, ctx.driver.ask(lines), want, what):
        op = line.split()[0]
        ctx.case(('nbt', line), sample={'op': op, 'impl': w[:120]} if rng.random() < 0.05 else None)
        ctx.count('%s.%s' % (op, w.split()[0]))
        if mo != w:
            ctx.disagree('%s vs the real %s' % (op, wh), line[:700], mo[:400], w[:400])
    ctx.extra['c05nbt_pairs'] = ctx.extra.get('c05nbt_pairs', 0) + len(lines)


def replay(ctx, rp):
    for v in rp.get('violations', []):
        print(v)
    return not rp.get('violations')
