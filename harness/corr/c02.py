"""C02: primitive wire types.  Real `send`/`read` of every type in `minecraft.networking.types.basic`
(incl. the instance-based FixedPoint / PrefixedArray the suite never reaches) vs the Lean model;
oracle = the protocol's prescription written here with int.to_bytes / float.hex-free struct patterns."""
import io
import struct
import uuid as uuidlib
from fractions import Fraction

import refcodec as rc
from lib import hx

EXTRA_PROPS = ['C02Exact']

EXTRACT = ['gen.c02exact']

RULE = ("exhaustive: bool, all 8- and 16-bit integer values, all 256 angle steps (and angle inputs at "
        "step/half-step boundaries), FixedPoint(Byte)/FixedPoint(Short,12) wire values; boundary sets + "
        "seeded random for 32/64-bit integers, float/double patterns (incl. +-0, subnormals, +-inf, quiet "
        "NaN; signalling NaNs excluded: CPython quiets them), strings of every UTF-8 width and lengths "
        "around 127/128 and 16383/16384, byte arrays, UUIDs, nested arrays; every strict prefix of sampled "
        "encodings; malformed inputs (short reads, invalid UTF-8, negative lengths); distinct by (type, input)")


class Sink:
    def __init__(self):
        self.b = bytearray()

    def send(self, d):
        self.b += d


def ename(e):
    if isinstance(e, struct.error):
        return 'struct'
    if isinstance(e, EOFError):
        return 'eof'
    if isinstance(e, UnicodeDecodeError):
        return 'decode'
    if isinstance(e, ValueError) and 'too long' in str(e):
        return 'toolong'
    if isinstance(e, ValueError):
        return 'value'
    if isinstance(e, TypeError):
        return 'type'
    return type(e).__name__


def vtok(v):
    """model value token of a Python value"""
    if isinstance(v, bool):
        return 'T' if v else 'F'
    if isinstance(v, int):
        return 'i%d' % v
    if isinstance(v, (bytes, bytearray)):
        return 'x' + bytes(v).hex()
    if isinstance(v, str):
        return 's' + v.encode('utf-8').hex()
    if isinstance(v, (list, tuple)):
        return '[' + ','.join(vtok(x) for x in v) + ']'
    raise TypeError(v)


def run(ctx):
    from minecraft.networking.types import basic as B
    ctx.extra['rule'] = RULE
    rng = ctx.rng
    enc_lines, enc_impl, dec_lines, dec_impl = [], [], [], []

    def do_enc(tname, T, pyval, modelval, domain_ok, spec=None, with_ctx=None):
        s = Sink()
        try:
            if with_ctx is not None:
                T.send_with_context(pyval, s, with_ctx)
            else:
                T.send(pyval, s)
            got = 'ok ' + hx(s.b)
        except Exception as e:
            got = 'err:' + ename(e)
        enc_lines.append('wire.enc %s %s' % (tname, vtok(modelval)))
        enc_impl.append(got)
        ctx.case((tname, 'enc', repr(modelval)), sample={'type': tname, 'value': repr(pyval)[:60], 'impl': got[:70]})
        ctx.count('enc.' + tname.split('/')[0])
        if domain_ok:
            if not got.startswith('ok'):
                ctx.violation('%s.send(%r) fails for an in-domain value: %s' % (tname, pyval, got),
                              {'type': tname, 'value': repr(pyval)}, key={'type': tname, 'enc': repr(pyval)})
            elif spec is not None and bytes(s.b) != spec:
                ctx.violation('%s.send(%r) = %s, protocol prescribes %s' % (tname, pyval, hx(s.b), spec.hex()),
                              {'type': tname, 'value': repr(pyval)}, key={'type': tname, 'enc': repr(pyval)})
        return bytes(s.b) if got.startswith('ok') else None

    def do_dec(tname, T, data, expect=None, to_model=lambda v: v, must_fail=False, with_ctx=None):
        f = io.BytesIO(data)
        try:
            v = T.read_with_context(f, with_ctx) if with_ctx is not None else T.read(f)
            mv = to_model(v)
            got = 'ok %s %s' % (vtok(mv), hx(f.read()))
        except Exception as e:
            v = None
            got = 'err:' + ename(e)
        dec_lines.append('wire.dec %s %s' % (tname, hx(data)))
        dec_impl.append(got)
        ctx.case((tname, 'dec', data), sample={'type': tname, 'bytes': hx(data)[:60], 'impl': got[:70]})
        ctx.count('dec.' + tname.split('/')[0] + ('.err' if got.startswith('err') else ''))
        if must_fail and got.startswith('ok'):
            ctx.violation('%s.read on a strict prefix %s of an encoding returns a value: %s' % (tname, hx(data), got),
                          {'type': tname, 'bytes': hx(data)}, key={'type': tname, 'prefix': hx(data)})
        if expect is not None and got != 'ok %s %s' % (vtok(expect[0]), hx(expect[1])):
            ctx.violation('%s.read(%s) = %s, expected %s' % (tname, hx(data)[:60], got[:80], vtok(expect[0])[:60]),
                          {'type': tname, 'bytes': hx(data)[:200]}, key={'type': tname, 'dec': hx(data)[:200]})
        return v

    TAIL = b'\xa5\x5a'
    # ---------------------------------------------------------------- integers
    ints = [('u8', B.UnsignedByte, 1, False), ('i8', B.Byte, 1, True), ('i16', B.Short, 2, True),
            ('u16', B.UnsignedShort, 2, False), ('i32', B.Integer, 4, True), ('i64', B.Long, 8, True),
            ('u64', B.UnsignedLong, 8, False)]
    for tname, T, w, signed in ints:
        lo, hi = (-(1 << (8 * w - 1)), 1 << (8 * w - 1)) if signed else (0, 1 << (8 * w))
        if w <= 2:
            vals = list(range(lo, hi)) if (w == 1 or ctx.thorough or ctx.searching) else \
                list(range(lo, lo + 300)) + list(range(-300, 300) if signed else range(0, 600)) + \
                list(range(hi - 300, hi)) + [rng.randrange(lo, hi) for _ in range(2000)]
        else:
            vals = [lo, lo + 1, -1, 0, 1, hi - 2, hi - 1, 127, 128, 255, 256, 32767, 32768, 65535, 65536]
            vals = [v for v in vals if lo <= v < hi] + [rng.randrange(lo, hi) for _ in range(ctx.scale(300, 5000))]
        for v in vals:
            b = do_enc(tname, T, v, v, True, (v % (1 << (8 * w))).to_bytes(w, 'big'))
            if b is not None and (w > 2 or v % 7 == 0 or abs(v) < 3):
                do_dec(tname, T, b + TAIL, (v, TAIL))
        for v in (lo - 1, hi, hi + 5, -hi * 2):
            do_enc(tname, T, v, v, False)
        for k in range(w):
            do_dec(tname, T, bytes(k), must_fail=True)
    # ---------------------------------------------------------------- bool
    for v in (True, False):
        b = do_enc('bool', B.Boolean, v, v, True, b'\x01' if v else b'\x00')
        do_dec('bool', B.Boolean, b + TAIL, (v, TAIL))
    for byte in range(256):
        do_dec('bool', B.Boolean, bytes([byte]), (byte != 0, b''))
    do_dec('bool', B.Boolean, b'', must_fail=True)
    # ---------------------------------------------------------------- floats as patterns
    f32 = [0, 0x80000000, 1, 0x007fffff, 0x00800000, 0x3f800000, 0xbf800000, 0x7f7fffff, 0x7f800000, 0xff800000,
           0x7fc00000, 0x42c80000] + [rng.getrandbits(32) for _ in range(ctx.scale(300, 4000))]
    for p in f32:
        exp, man = (p >> 23) & 0xff, p & 0x7fffff
        if exp == 0xff and man and not (man >> 22):
            continue                       # signalling NaN: CPython's float<->double conversion quiets it
        val = struct.unpack('>f', p.to_bytes(4, 'big'))[0]
        b = do_enc('f32', B.Float, val, p, True, p.to_bytes(4, 'big'))
        do_dec('f32', B.Float, p.to_bytes(4, 'big') + TAIL, (p, TAIL),
               to_model=lambda v: int.from_bytes(struct.pack('>f', v), 'big'))
    f64 = [0, 1 << 63, 1, 0x000fffffffffffff, 0x3ff0000000000000, 0x7fefffffffffffff, 0x7ff0000000000000,
           0xfff0000000000000, 0x7ff8000000000000] + [rng.getrandbits(64) for _ in range(ctx.scale(300, 4000))]
    for p in f64:
        exp, man = (p >> 52) & 0x7ff, p & ((1 << 52) - 1)
        if exp == 0x7ff and man and not (man >> 51):
            continue
        val = struct.unpack('>d', p.to_bytes(8, 'big'))[0]
        do_enc('f64', B.Double, val, p, True, p.to_bytes(8, 'big'))
        do_dec('f64', B.Double, p.to_bytes(8, 'big') + TAIL, (p, TAIL),
               to_model=lambda v: int.from_bytes(struct.pack('>d', v), 'big'))
    for k in range(4):
        do_dec('f32', B.Float, bytes(k), must_fail=True)
    # ---------------------------------------------------------------- varint / varlong (details: C03)
    for tname, T, hi in (('varint', B.VarInt, 2 ** 32), ('varlong', B.VarLong, 2 ** 64)):
        for v in [0, 1, 127, 128, 16383, 16384, 2 ** 21 - 1, 2 ** 21, 2 ** 28, 2 ** 31 - 1, 2 ** 31, hi - 1] + \
                [rng.randrange(hi) for _ in range(300)]:
            b = do_enc(tname, T, v, v, True, rc.varint(v))
            do_dec(tname, T, b + TAIL, (v, TAIL))
            for k in range(len(b)):
                do_dec(tname, T, b[:k], must_fail=True)
    # ---------------------------------------------------------------- strings
    alphabet = ['a', 'Z', '0', ' ', '\x00', '\x7f', '\x80', 'é', '߿', 'ࠀ', '世', '￿', '\U00010000',
                '\U0001f600', '\U0010ffff']
    strs = ['', 'a', 'é', '世', '\U0001f600', 'a' * 127, 'a' * 128, 'é' * 64, 'a' * 16383, 'a' * 16384, '世' * 5462,
            '\ufeff', '\ufeffabc', 'a\ufeffb', '\ufeff\ufeff', 'é' * 16384, '世' * 10923, '\U0001f600' * 8192, 'a' * 32767, 'a' * 32768]
    strs += [''.join(rng.choice(alphabet) for _ in range(rng.choice([1, 2, 5, 40, 130]))) for _ in range(ctx.scale(200, 3000))]
    for sv in strs:
        u = sv.encode('utf-8')
        b = do_enc('string', B.String, sv, sv, True, rc.varint(len(u)) + u)
        do_dec('string', B.String, b + TAIL, (sv, TAIL))
        cuts = range(len(b)) if len(b) < 40 else [0, 1, 2, len(b) // 2, len(b) - 1]
        for k in cuts:
            do_dec('string', B.String, b[:k], must_fail=True)
    for bad in (b'\x01\xff', b'\x02\xc3\x28', b'\x03\xed\xa0\x80', b'\x02\xc0\x80', b'\x04\xf4\x90\x80\x80', b'\x01\x80'):
        do_dec('string', B.String, bad)
    # ---------------------------------------------------------------- byte arrays, uuid
    blobs = [b'', b'\x00', b'ab', bytes(127), bytes(128), bytes(range(256)), bytes(16384)] + \
        [bytes(rng.randrange(256) for _ in range(rng.choice([1, 3, 20, 200]))) for _ in range(ctx.scale(60, 600))]
    for bl in blobs:
        b = do_enc('bytesv', B.VarIntPrefixedByteArray, bl, bl, True, rc.varint(len(bl)) + bl)
        do_dec('bytesv', B.VarIntPrefixedByteArray, b + TAIL, (bl, TAIL))
        b2 = do_enc('bytess', B.ShortPrefixedByteArray, bl, bl, True, len(bl).to_bytes(2, 'big') + bl)
        do_dec('bytess', B.ShortPrefixedByteArray, b2 + TAIL, (bl, TAIL))
        do_enc('trailing', B.TrailingByteArray, bl, bl, True, bl)
        do_dec('trailing', B.TrailingByteArray, bl, (bl, b''))
        for k in ([0, 1, len(b) - 1] if len(b) > 3 else range(len(b))):
            do_dec('bytesv', B.VarIntPrefixedByteArray, b[:k], must_fail=True)
        for k in ([0, 1, len(b2) - 1] if len(b2) > 3 else range(len(b2))):
            do_dec('bytess', B.ShortPrefixedByteArray, b2[:k], must_fail=True)
    do_enc('bytess', B.ShortPrefixedByteArray, bytes(32768), bytes(32768), False)
    do_dec('bytess', B.ShortPrefixedByteArray, b'\xff\xff\x01\x02')
    for _ in range(ctx.scale(100, 1000)):
        raw = bytes(rng.randrange(256) for _ in range(16))
        text = str(uuidlib.UUID(bytes=raw))
        do_enc('uuid', B.UUID, text, raw, True, raw)
        do_dec('uuid', B.UUID, raw + TAIL, (raw, TAIL), to_model=lambda v: uuidlib.UUID(v).bytes)
    for k in range(16):
        do_dec('uuid', B.UUID, bytes(k), must_fail=True)
    # ---------------------------------------------------------------- angle (1/256 turn) and fixed point
    lines2, impl2 = [], []
    angles = [Fraction(360 * k, 256) for k in range(256)] + [Fraction(360 * (2 * k + 1), 512) for k in range(256)] + \
        [Fraction(3599, 10), Fraction(360), Fraction(-90), Fraction(720 + 45), Fraction(-1, 3)]
    angles += [Fraction(rng.randrange(-100000, 100000), rng.choice([1, 2, 4, 8, 64])) for _ in range(ctx.scale(300, 3000))]
    for a in angles:
        fl = a.numerator / a.denominator
        if Fraction(fl) != a:
            continue                      # keep to exactly representable inputs (float rounding is not modelled)
        x = Fraction(256) * (a % 360) / 360
        if abs((x % 1) - Fraction(1, 2)) < Fraction(1, 10 ** 9) and (x % 1) != Fraction(1, 2):
            continue
        s = Sink()
        try:
            B.Angle.send(fl, s)
            got = 'ok %d' % s.b[0]
        except Exception as e:
            got = 'err:' + ename(e)
        lines2.append('angle.step %d %d' % (a.numerator, a.denominator))
        impl2.append(got)
        ctx.case(('angle', a), sample={'type': 'angle', 'degrees': str(a), 'impl': got})
        ctx.count('enc.angle')
        if got.startswith('ok'):
            step = int(got.split()[1])
            back = B.Angle.read(io.BytesIO(bytes([step])))
            d = abs(Fraction(back) - (a % 360))
            d = min(d, 360 - d)
            if d > Fraction(360, 512) or Fraction(back) != Fraction(360 * step, 256):
                ctx.violation('Angle %s -> step %d -> %s: more than one half quantum away' % (a, step, back),
                              {'angle': str(a)}, key={'angle': str(a)})
        else:
            ctx.violation('Angle.send(%s) fails: %s' % (a, got), {'angle': str(a)}, key={'angle': str(a)})
    for step in range(256):
        v = B.Angle.read(io.BytesIO(bytes([step]) + TAIL))
        ctx.case(('angle-dec', step))
        if Fraction(v) != Fraction(360 * step, 256):
            ctx.violation('Angle.read(%d) = %r' % (step, v), {'step': step}, key={'angle-step': step})
    # all instances are built FIRST (several scalings over the same integer type, as user code may do),
    # then used: an instance must keep the scaling it was constructed with
    combos = [('i8', B.Byte, 5), ('i16', B.Short, 12), ('i32', B.Integer, 5), ('i16', B.Short, 5),
              ('i32', B.Integer, 12), ('i8', B.Byte, 2), ('i16', B.Short, 12)]
    built = [B.FixedPoint(BT, bits) for _, BT, bits in combos]
    built[2] = B.FixedPointInteger          # the module's own constant (Integer, 5), created at import
    for (base, BT, bits), FP in zip(combos, built):
        w = {'i8': 1, 'i16': 2, 'i32': 4}[base]
        lo, hi = -(1 << (8 * w - 1)), 1 << (8 * w - 1)
        wires = list(range(lo, hi)) if w == 1 else [lo, lo + 1, -1, 0, 1, hi - 1] + [rng.randrange(lo, hi) for _ in range(ctx.scale(400, 4000))]
        for wv in wires:
            val = wv / (1 << bits)
            for num in (Fraction(wv, 1 << bits), Fraction(2 * wv + 1, 1 << (bits + 1))):
                fl = num.numerator / num.denominator
                if Fraction(fl) != num:
                    continue
                s = Sink()
                try:
                    FP.send(fl, s)
                    got = 'ok ' + hx(s.b)
                    wire = int.from_bytes(bytes(s.b), 'big', signed=True)
                except Exception as e:
                    got = 'err:' + ename(e)
                    wire = None
                lines2.append('fixed.wire %d %d %d' % (bits, num.numerator, num.denominator))
                expect_wire = int(num * (1 << bits))
                impl2.append('ok %d' % expect_wire if wire is None else 'ok %d' % wire)
                ctx.case(('fixed', base, bits, num), sample={'type': 'fixed/%s/%d' % (base, bits), 'value': str(num), 'impl': got})
                ctx.count('enc.fixed')
                in_dom = lo <= expect_wire < hi
                if in_dom:
                    if wire is None:
                        ctx.violation('FixedPoint(%s,%d).send(%s) fails: %s' % (base, bits, num, got),
                                      {'value': str(num)}, key={'fixed': [base, bits, str(num)]})
                    else:
                        back = FP.read(io.BytesIO(bytes(s.b)))
                        if abs(Fraction(back) - num) >= Fraction(1, 1 << bits):
                            ctx.violation('FixedPoint(%s,%d): %s -> %s -> %s, not within one quantum' % (base, bits, num, hx(s.b), back),
                                          {'value': str(num)}, key={'fixed': [base, bits, str(num)]})
            enc_lines.append('wire.enc fixed/%s/%d i%d' % (base, bits, wv))
            s = Sink()
            FP.send(val, s)
            enc_impl.append('ok ' + hx(s.b))
    # ---------------------------------------------------------------- nested arrays
    A1 = B.PrefixedArray(B.VarInt, B.String)
    A2 = B.PrefixedArray(B.VarInt, B.PrefixedArray(B.Integer, B.String))
    A3 = B.PrefixedArray(B.Integer, B.UnsignedByte)
    for _ in range(ctx.scale(120, 1500)):
        v1 = [rng.choice(strs[:6]) for _ in range(rng.randrange(0, 5))]
        b = do_enc('arr/varint/string', A1, v1, v1, True)
        do_dec('arr/varint/string', A1, b + TAIL, (v1, TAIL))
        v2 = [[rng.choice(strs[:5]) for _ in range(rng.randrange(0, 3))] for _ in range(rng.randrange(0, 4))]
        b = do_enc('arr/varint/arr/i32/string', A2, v2, v2, True)
        do_dec('arr/varint/arr/i32/string', A2, b + TAIL, (v2, TAIL))
        for k in range(0, len(b), max(1, len(b) // 12)):
            do_dec('arr/varint/arr/i32/string', A2, b[:k], must_fail=True)
        v3 = [rng.randrange(256) for _ in range(rng.randrange(0, 6))]
        b = do_enc('arr/i32/u8', A3, v3, v3, True, len(v3).to_bytes(4, 'big') + bytes(v3))
        do_dec('arr/i32/u8', A3, b + TAIL, (v3, TAIL))
    do_dec('arr/i32/u8', A3, b'\xff\xff\xff\xff\x01')     # negative count: range() is empty
    # ---------------------------------------------------------------- model comparison
    for lines, impl, what in ((enc_lines, enc_impl, 'send'), (dec_lines, dec_impl, 'read'), (lines2, impl2, 'scaling')):
        for line, mo, g in zip(lines, ctx.driver.ask(lines), impl):
            if mo != g:
                ctx.disagree('wire type ' + what, line[:200], mo[:200], g[:200])
    exact_tie(ctx)


def exact_tie(ctx):
    """Tie of Model/C02Exact.lean (driver `c02x.*`): the real `UUID`, `Float`, `Double` and `FixedPoint(base, bits)`
    `send` / `read` on Python-level values (ASCII uuid texts in every spelling uuid.UUID takes or refuses; floats as
    binary64 patterns, signalling NaNs left out; fixed-point values as the exact fraction of the float handed to
    `send`); `c02x.cast32` against the C cast performed by ctypes.c_float."""
    import ctypes
    from minecraft.networking.types import basic as B
    rng = ctx.rng
    lines, want = [], []

    class Sink:
        def __init__(self):
            self.b = b''

        def send(self, d):
            self.b += bytes(d)

    def err(e):
        if isinstance(e, struct.error):
            return 'err:struct'
        if isinstance(e, OverflowError):
            return 'err:other'
        if isinstance(e, UnicodeDecodeError):
            return 'err:decode'
        if isinstance(e, ValueError):
            return 'err:value'
        if isinstance(e, TypeError):
            return 'err:type'
        return 'err:other(%s)' % type(e).__name__

    def send(t, v):
        s = Sink()
        try:
            t.send(v, s)
        except Exception as e:
            return err(e)
        return 'ok ' + hx(s.b)

    def read(t, data, show):
        f = io.BytesIO(data)
        try:
            v = t.read(f)
        except Exception as e:
            return err(e)
        return 'ok %s %s' % (show(v), hx(f.read()))
    f64 = lambda pat: struct.unpack('>d', pat.to_bytes(8, 'big'))[0]
    p64 = lambda v: struct.pack('>d', v).hex()

    def snan64(p):
        return (p >> 52) & 0x7ff == 0x7ff and p & ((1 << 52) - 1) and not p & (1 << 51)

    def snan32(p):
        return (p >> 23) & 0xff == 0xff and p & ((1 << 23) - 1) and not p & (1 << 22)

    def rnd_pat64():
        x = rng.random()
        if x < 0.25:       # around the binary32 range and its rounding ties
            e = rng.choice([0x3ff, 0x3fe, 0x47e, 0x47f, 0x380, 0x381, 0x36a, 0x369, 0x368, rng.randrange(0x360, 0x480)])
            m = rng.choice([0, 1 << 28, 3 << 28, (1 << 28) + 1, (1 << 28) - 1, ((1 << 24) - 1) << 28, (((1 << 24) - 1) << 28) | (1 << 28) - 1,
                            0xFFFFFE0000000, 0xFFFFFEFFFFFFF, 0xFFFFFF0000000, rng.randrange(1 << 52)])
            return rng.choice([0, 1 << 63]) | e << 52 | m
        if x < 0.35:
            return rng.choice([0, 1 << 63, 0x7ff0 << 48, 0xfff0 << 48, 0x7ff8 << 48, 0xfff8000000000001, 1, 0x000fffffffffffff,
                               0x7fefffffffffffff, 0x47efffffe0000000, 0x47effffff0000000, 0x47efffffefffffff])
        return rng.getrandbits(64)
    # ---- Float / Double / cast32
    for _ in range(ctx.scale(400, 6000)):
        p = rnd_pat64()
        if snan64(p):
            continue
        v = f64(p)
        tok = '%016x' % p
        lines.append('c02x.float.send ' + tok)
        want.append(send(B.Float, v))
        lines.append('c02x.double.send ' + tok)
        want.append(send(B.Double, v))
        lines.append('c02x.cast32 ' + tok)
        want.append('ok ' + struct.pack('>f', ctypes.c_float(v).value).hex())
    for _ in range(ctx.scale(300, 4000)):
        n = rng.choice([4, 4, 4, 5, 8, 8, 9, 3, 0, 7])
        data = bytes(rng.getrandbits(8) for _ in range(n))
        if rng.random() < 0.3 and n >= 4:
            data = rng.choice([0, 0x80000000, 1, 0x007fffff, 0x00800000, 0x7f7fffff, 0x7f800000, 0xff800000, 0x7fc00000,
                               0xffc12345]).to_bytes(4, 'big') + data[4:]
        if len(data) < 4 or not snan32(int.from_bytes(data[:4], 'big')):
            lines.append('c02x.float.read ' + hx(data))
            want.append(read(B.Float, data, p64))
        if len(data) < 8 or not snan64(int.from_bytes(data[:8], 'big')):
            lines.append('c02x.double.read ' + hx(data))
            want.append(read(B.Double, data, p64))
    # ---- UUID
    HEX = '0123456789abcdef'

    def rnd_uuid_text():
        raw = ''.join(rng.choice(HEX) for _ in range(32))
        s = raw if rng.random() < 0.3 else '%s-%s-%s-%s-%s' % (raw[:8], raw[8:12], raw[12:16], raw[16:20], raw[20:])
        for _ in range(rng.choice([0, 0, 1, 1, 2, 3])):
            x = rng.random()
            if x < 0.12:
                s = s.upper()
            elif x < 0.22:
                s = '{' + s + '}' if rng.random() < 0.6 else rng.choice(['{', '}', '{{']) + s
            elif x < 0.32:
                s = rng.choice(['urn:uuid:', 'urn:', 'uuid:', 'URN:UUID:']) + s
            elif x < 0.5 and s:
                i = rng.randrange(len(s))
                s = s[:i] + rng.choice(['_', '-', ' ', '+', 'g', 'x', '0x', '\t', '.', 'G', '__']) + s[i + 1:]
            elif x < 0.65 and s:
                i = rng.randrange(len(s) + 1)
                s = s[:i] + rng.choice(['_', '-', ' ', '+', '0', 'f', '\n']) + s[i:]
            elif x < 0.8 and s:
                i = rng.randrange(len(s))
                s = s[:i] + s[i + 1:]
            elif x < 0.9:
                s = rng.choice([' ', '+', '-', '0x', '0X', '_']) + s[len(rng.choice(['', 'a', 'ab'])):]
            else:
                s = s[:rng.randrange(len(s) + 1)]
        return s
    for _ in range(ctx.scale(400, 6000)):
        s = rnd_uuid_text()
        lines.append('c02x.uuid.send ' + hx(s.encode('ascii')))
        want.append(send(B.UUID, s))
    for _ in range(ctx.scale(150, 2000)):
        data = bytes(rng.getrandbits(8) for _ in range(rng.choice([16, 16, 16, 17, 20, 15, 0, 8])))
        lines.append('c02x.uuid.read ' + hx(data))
        want.append(read(B.UUID, data, lambda v: hx(v.encode('utf-8'))))
    # ---- FixedPoint(base, bits)
    BASES = [('u8', B.UnsignedByte, 1), ('i8', B.Byte, 1), ('i16', B.Short, 2), ('u16', B.UnsignedShort, 2), ('i32', B.Integer, 4),
             ('i64', B.Long, 8), ('u64', B.UnsignedLong, 8)]
    for _ in range(ctx.scale(400, 6000)):
        name, cls, w = rng.choice(BASES)
        bits = rng.choice([0, 1, 3, 4, 5, 5, 8, 12, 20, 31, 52, 60, 64, 100, rng.randrange(0, 70)])
        t = B.FixedPoint(cls, bits)
        x = rng.random()
        if x < 0.5:          # around the representable range of the base type
            k = rng.choice([0, 1, -1, 2 ** (8 * w - 1) - 1, 2 ** (8 * w - 1), -2 ** (8 * w - 1), -2 ** (8 * w - 1) - 1, 2 ** (8 * w) - 1, 2 ** (8 * w),
                            rng.randrange(-2 ** (8 * w), 2 ** (8 * w))])
            v = float(Fraction(2 * k + rng.choice([-1, 0, 0, 1]), 2 ** (bits + 1)))
        elif x < 0.8:
            v = f64(rnd_pat64())
            if v != v or v in (float('inf'), float('-inf')):
                v = 0.5
        else:
            v = rng.choice([1.0, -1.0]) * 2.0 ** rng.choice([1003, 1004, 1018, 1019, 1023, -1074, -1022, -30, 53, 63, 64])
        fr = Fraction(v)
        lines.append('c02x.fixed.send %s %d %d %d' % (name, bits, fr.numerator, fr.denominator))
        want.append(send(t, v))
        data = bytes(rng.getrandbits(8) for _ in range(rng.choice([w, w, w, w + 1, w - 1, 0])))
        if rng.random() < 0.3 and len(data) >= w:
            data = rng.choice([b'\x00' * w, b'\xff' * w, b'\x80' + b'\x00' * (w - 1), b'\x7f' + b'\xff' * (w - 1)]) + data[w:]
        lines.append('c02x.fixed.read %s %d %s' % (name, bits, hx(data)))
        f = io.BytesIO(data)
        try:
            fr = Fraction(t.read(f))
            want.append(('frac', fr, hx(f.read())))
        except Exception as e:
            want.append(err(e))
    for line, mo, w in zip(lines, ctx.driver.ask(lines), want):
        op = line.split()[0]
        ctx.case(('c02x', line), sample={'op': op, 'request': line[:120], 'impl': str(w)[:80]} if rng.random() < 0.02 else None)
        if isinstance(w, tuple):           # equal as fractions: the model's pair is unreduced
            toks = mo.split()
            ok = len(toks) == 4 and toks[0] == 'ok' and toks[3] == w[2]
            try:
                ok = ok and int(toks[2]) != 0 and Fraction(int(toks[1]), int(toks[2])) == w[1]
            except ValueError:
                ok = False
            w = 'ok %d %d %s (as a fraction)' % (w[1].numerator, w[1].denominator, w[2])
            ctx.count('c02x.fixed.read.ok')
        else:
            ok = mo == w
            ctx.count('%s.%s' % (op, w.split()[0]))
        if not ok:
            ctx.disagree('%s vs the real type' % op, line[:300], mo[:300], w[:300])
    ctx.extra['c02exact_pairs'] = ctx.extra.get('c02exact_pairs', 0) + len(lines)


def replay(ctx, rp):
    for v in rp.get('violations', []):
        print(v)
    return not rp.get('violations')
