"""C15: a server that stops mid-conversation never hangs or spins the client.
(a) reader level: frame streams (plain / compressed / encrypted) cut at EVERY prefix length, real
    PacketReactor.read_packet loop vs Lean `frame.readall`; (b) end-to-end on sequential simnet:
    reference server conversations cut at every offset, real Connection + NetworkingThread.
Oracle: terminates within a read budget, outcome is an error or the documented status fallback,
only completely-sent packets are delivered, reads after end-of-stream stay bounded."""
import types
import zlib

import refcodec
from lib import hx
from corr.c01 import SegStream, ename

EXTRA_PROPS = ['C15Thread']

EXTRACT = ['gen.c15thread']

RULE = ("(a) 5 kinds of frame streams x every prefix length 0..N x {whole, bytewise, random} "
        "segmentation; (b) status / status-then-login / login+compression / login+encryption / play "
        "conversations from the reference server cut at every offset (quick: every offset of the short "
        "ones, strided for long ones); distinct by (stream, offset, segmentation)")


class BudgetStream(SegStream):
    budget = 0

    def read(self, n=-1):
        if self.reads > self.budget:
            raise RuntimeError('read budget exhausted')
        return super().read(n)


def reader_level(ctx):
    import minecraft.networking.connection as C
    from minecraft.networking import encryption as E
    from minecraft.networking.packets import Packet
    from minecraft.networking.types import TrailingByteArray
    rng = ctx.rng

    class Raw(Packet):
        definition = [{'payload': TrailingByteArray}]
        id = 7

    class Reactor(C.PacketReactor):
        get_clientbound_packets = staticmethod(lambda context: {Raw})
    saved = C.select
    C.select = types.SimpleNamespace(select=lambda r, w, x, t=None: (list(r), [], []))
    lines, impl = [], []
    try:
        streams = []
        for name, thr, enc in (('plain', None, False), ('thr-1', -1, False), ('thr0', 0, False),
                               ('thr16', 16, False), ('enc', None, True), ('enc+thr8', 8, True)):
            pk = [(7, b''), (7, b'ab'), (9, bytes(range(20))), (7, b'x' * 40), (300, b'\x00' * 3), (7, b'z')]
            if ctx.thorough:
                pk += [(7, bytes(rng.randrange(256) for _ in range(300))), (7, b'q' * 200)]
            frames = [refcodec.frame(refcodec.varint(i) + b, thr) for i, b in pk]
            streams.append((name, thr, enc, pk, frames))
        for name, thr, enc, pk, frames in streams:
            plain = b''.join(frames)
            secret = bytes(range(16, 32))
            wire = refcodec.CFB8(secret, encrypt=True).update(plain) if enc else plain
            ends, acc = [], 0
            for f in frames:
                acc += len(f)
                ends.append(acc)
            zmap = {}
            for (i, b), f in zip(pk, frames):
                payload = refcodec.varint(i) + b
                if thr is not None and thr >= 0 and len(payload) > thr:
                    zmap[zlib.compress(payload)] = payload
            zm = ','.join('%s:%s' % (hx(c), hx(p)) for c, p in zmap.items()) or '-'
            step = 1 if (len(wire) <= 200 or ctx.thorough or ctx.searching) else 3
            for k in list(range(0, len(wire) + 1, step)) + ends:
                for sname in ('whole', 'bytewise', 'random'):
                    data = wire[:k]
                    if sname == 'whole':
                        segs = [data]
                    elif sname == 'bytewise':
                        segs = [data[i:i + 1] for i in range(len(data))]
                    else:
                        segs, i = [], 0
                        while i < len(data):
                            n = rng.choice([1, 2, 3, 7, 30])
                            segs.append(data[i:i + n])
                            i += n
                    stream = BudgetStream(segs)
                    stream.budget = 4 * k + 50
                    fobj = stream
                    if enc:
                        fobj = E.EncryptedFileObjectWrapper(stream, E.create_AES_cipher(secret).decryptor())
                    conn = types.SimpleNamespace(
                        context=C.ConnectionContext(protocol_version=757),
                        options=types.SimpleNamespace(compression_enabled=thr is not None,
                                                      compression_threshold=-1 if thr is None else thr))
                    reactor = Reactor(conn)
                    got, end = [], None
                    for _ in range(len(pk) + 3):
                        try:
                            p = reactor.read_packet(fobj, timeout=0)
                        except BaseException as e:
                            end = 'budget' if 'read budget' in str(e) else ename(e)
                            break
                        got.append((p.id, getattr(p, 'payload', None)))
                    complete = sum(1 for e in ends if e <= k)
                    want = [(i, b if i == 7 else None) for i, b in pk[:complete]]
                    ctx.case((name, k, sname), sample={'stream': name, 'cut': k, 'segmentation': sname,
                                                        'delivered': len(got), 'end': end,
                                                        'reads_after_eof': stream.empties})
                    ctx.count('a.' + name)
                    ctx.count('a.end.' + str(end))
                    bad = None
                    if end == 'budget' or end is None:
                        bad = 'reader did not terminate within %d reads' % stream.budget
                    elif got != want:
                        bad = 'delivered %r, completely sent %d frames' % ([i for i, _ in got], complete)
                    elif end != 'eof':
                        bad = 'ended with %s instead of an end-of-stream error' % end
                    elif stream.empties > 2 + (1 if any(len(f) == 1 for f in frames) else 0):
                        bad = '%d reads after end of stream' % stream.empties
                    if bad:
                        ctx.violation('stream %s cut at byte %d (%s): %s' % (name, k, sname, bad),
                                      {'stream': name, 'cut': k, 'segmentation': sname, 'end': end},
                                      key={'stream': name, 'cut': k, 'seg': sname})
                    if sname != 'random' or k % 5 == 0:
                        psegs, i = [], 0
                        for s in segs:
                            psegs.append(plain[i:i + len(s)])
                            i += len(s)
                        lines.append('frame.readall %d zmap=%s %s' % (thr is not None, zm,
                                                                      ' '.join(hx(s) for s in psegs if s)))
                        shown = ' '.join('%d:%s' % (i, hx(pl if pl is not None else pk[j][1]))
                                         for j, (i, pl) in enumerate(got))
                        impl.append('ok %s%send=%s reads=%d eofreads=%d' % (
                            shown, ' ' if shown else '', end, stream.reads, stream.empties))
    finally:
        C.select = saved
    mo = ctx.driver.ask(lines)
    for line, m, g in zip(lines, mo, impl):
        if m != g:
            ctx.disagree('read_packet on a cut stream', line[:300], m[:300], g[:300])


def thread_tie(ctx):
    """Tie of Model/C15Thread.lean to the real code (ported from harness/xcheck/c15thread_xcheck.py):
    * `c15thread.run`: the REAL NetworkingThread.run, run synchronously on a real Connection whose socket / file
      object are stubs fed with a server byte stream (login with set-compression + encryption request + login
      success + play packets; login disconnect; status response; play disconnect) cut at byte offset k, in
      three segmentations.  Compared: ids handed to listeners, how the thread ended, number of read() calls on
      the raw file object and of those that returned b'', reactor class and compression flag at the end;
    * `c15thread.handle`: every row of the live `_handle_exception` table (gen/c15thread.py `_handle_rows`)."""
    import collections
    import json
    import minecraft.networking.connection as C
    import minecraft.networking.encryption as ENC
    from minecraft.networking import packets as P
    from minecraft.networking.packets import clientbound as CB
    import rsakeys
    from gen import c15thread as G
    rng = ctx.rng
    SECRET = bytes(range(16))
    varint, string = refcodec.varint, refcodec.string
    arr = lambda b: varint(len(b)) + b
    context = C.ConnectionContext(protocol_version=757)
    ids = {'sc': CB.login.SetCompressionPacket.get_id(context), 'enc': CB.login.EncryptionRequestPacket.get_id(context),
           'ok': CB.login.LoginSuccessPacket.get_id(context), 'dc': CB.login.DisconnectPacket.get_id(context),
           'pdc': CB.play.DisconnectPacket.get_id(context)}
    KN = {'LoginReactor': 'login', 'PlayingReactor': 'play', 'PlayingStatusReactor': 'pstatus', 'StatusReactor': 'status'}

    class Spin(BaseException):
        """the thread keeps reading a stream that has ended: the very thing C15 forbids"""

    class SegFile(SegStream):
        def read(self, n=-1):
            if self.empties > 200 or self.reads > 20000:
                raise Spin()
            return SegStream.read(self, n)

        def close(self):
            pass

    class StubSock(object):
        def send(self, d):
            return len(d)

        def shutdown(self, how):
            pass

        def close(self):
            pass

        def fileno(self):
            return 0

    def server_wire(script):
        """script: [(id, fields, effect)], effect in None | 'sc:<t>' | 'enc' -> wire bytes, zlib table"""
        thr, enc, wire, zmap = None, None, b'', []
        for pid, fields, eff in script:
            payload = varint(pid) + fields
            if thr is None:
                body = payload
            elif thr >= 0 and len(payload) > thr:
                comp = zlib.compress(payload)
                zmap.append((comp, payload))
                body = varint(len(payload)) + comp
            else:
                body = varint(0) + payload
            frame = varint(len(body)) + body
            if enc is not None:
                frame = enc.update(frame)
            wire += frame
            if eff and eff.startswith('sc:'):
                thr = int(eff[3:])
            elif eff == 'enc':
                enc = refcodec.CFB8(SECRET, encrypt=True)
        return wire, zmap

    def real_run(kind, segs):
        allowed = {757, 756} if kind == 'pstatus' else {757}
        events, delivered, calls = [], [], []
        conn = C.Connection('h', 1, username='u', allowed_versions=allowed, initial_version=340 if len(allowed) > 1 else None,
                            handle_exception=lambda e, i: events.append(('exc', type(e).__name__)),
                            handle_exit=lambda: events.append(('exit',)))
        conn.context.protocol_version = 757
        # EARLY listener = "handed to _react" (the model's notion of delivered): a late listener does not see the
        # packet whose reaction raises (login disconnect)
        conn.register_packet_listener(lambda p: delivered.append(p), P.Packet, early=True)
        f = SegFile(segs)
        conn.socket, conn.file_object, conn.connected = StubSock(), f, True
        conn._outgoing_packet_queue = collections.deque()
        conn.options.compression_enabled = False
        conn.options.compression_threshold = -1
        if kind == 'login':
            conn.reactor = C.LoginReactor(conn)
        elif kind == 'play':
            conn.reactor = C.PlayingReactor(conn)
        elif kind == 'pstatus':
            conn.reactor = C.PlayingStatusReactor(conn)
            conn.connect = lambda: calls.append(sorted(conn.allowed_proto_versions))
        else:
            conn.reactor = C.StatusReactor(conn, do_ping=False)
            conn.reactor.handle_status = lambda d: events.append(('status',))
        t = C.NetworkingThread(conn)
        conn.networking_thread = t
        try:
            t.run()
        except Spin:
            ctx.violation('the networking thread (%s reactor) keeps reading after the stream has ended: %d reads, %d of them '
                          'after end of stream' % (kind, f.reads, f.empties),
                          {'kind': kind, 'segments': [len(x) for x in segs][:20]}, key={'kind': 'spin', 'reactor': kind})
            return 'ids=? end=spin kind=%s comp=0 reads=%d eofreads=%d' % (kind, f.reads, f.empties)
        got = [p.id if type(p) is P.Packet else p.get_id(conn.context) for p in delivered]
        excs = [e[1] for e in events if e[0] == 'exc']
        if excs == ['EOFError'] and not calls:
            end = 'eof'
        elif kind == 'pstatus' and not excs and calls == [[340]]:
            end = 'eof'                      # swallowed, and the documented fallback connect(340)
        elif not excs and len(calls) == 1 and len(calls[0]) == 1:
            end = 'negotiated:%d' % calls[0][0]
        elif not excs and not calls and ('exit',) in events:
            end = 'interrupted'
        elif len(excs) == 1 and not calls:
            end = 'other'
        else:
            end = 'unclassified:%r:%r' % (events, calls)
        return 'ids=%s end=%s kind=%s comp=%d reads=%d eofreads=%d' % (
            ','.join(map(str, got)) or '-', end, KN.get(type(conn.reactor).__name__, type(conn.reactor).__name__),
            bool(conn.options.compression_enabled), f.reads, f.empties)

    def normal(reply):
        toks = reply.split()
        if not toks or toks[0] != 'ok':
            return reply
        lids = [t.split(':')[0] for t in toks[1:] if '=' not in t]
        return 'ids=%s %s' % (','.join(lids) or '-', ' '.join(t for t in toks[1:] if '=' in t))

    der = rsakeys.RSA_1024['der']
    login = [
        (4, varint(7) + string('ch') + b'xyz', None),
        (ids['sc'], varint(8), 'sc:8'),
        (0x7E, b'abcdefghijklmnop', None),          # unknown id in login state, above the threshold
        (4, varint(9) + string('c'), None),
        (ids['enc'], string('-') + arr(der) + arr(b'tokn'), 'enc'),
        (4, varint(1) + string('d') + b'q', None),
        (ids['ok'], bytes(16) + string('u'), None),
        (0x7E, b'abcdef', None),
        (0x7D, b'0123456789abcdefXYZ', None),
    ]
    rthr = rng.choice([0, 4, 64])
    refused = [(ids['sc'], varint(rthr), 'sc:%d' % rthr), (4, varint(2) + string('c') + b'0123', None),
               (ids['dc'], string('{"text":"no"}'), None), (0x7E, b'late', None)]
    status = [(0, string(json.dumps({'version': {'name': 'x', 'protocol': 757}})), None), (0x7E, b'more', None)]
    play = [(0x7E, b'abc', None), (ids['pdc'], string('{"text":"bye"}'), None), (0x7E, b'zzz', None)]
    cases = []
    every = ctx.thorough or ctx.searching
    for name, kind, script in (('login', 'login', login), ('login-refused', 'login', refused), ('pstatus', 'pstatus', status),
                               ('status', 'status', status), ('play', 'play', play)):
        wire, zmap = server_wire(script)
        ks = range(len(wire) + 1)
        if not every and len(wire) > 60:
            ks = sorted(set(rng.sample(range(len(wire) + 1), 60)) | {0, len(wire)})
        for k in ks:
            cut = wire[:k]
            a = k // 3
            segms = [('one', [cut])]
            if every or rng.random() < 0.25:
                segms.append(('bytes', [cut[i:i + 1] for i in range(len(cut))]))
            if every or rng.random() < 0.25:
                segms.append(('three', [cut[:a], b'', cut[a:2 * a + 1], cut[2 * a + 1:]]))
            if every or rng.random() < 0.5:
                rs, i = [], 0
                while i < len(cut):
                    n = rng.choice([1, 2, 3, 7, 30, 200])
                    rs.append(cut[i:i + n])
                    i += n
                segms.append(('random', rs))
            for segm, segs in segms:
                cases.append((name, kind, k, segm, segs, zmap))
    lines = ['c15thread.run %s sc=%d enc=%d ok=%d dc=%d pdc=%d neg=757 key=%s zmap=%s %s' % (
        kind, ids['sc'], ids['enc'], ids['ok'], ids['dc'], ids['pdc'], SECRET.hex(),
        ','.join('%s:%s' % (c.hex(), p.hex()) for c, p in zmap) or '-',
        ' '.join(hx(s) for s in segs)) for (_, kind, _, _, segs, zmap) in cases]
    saved = (C.select, ENC.generate_shared_secret)
    C.select = types.SimpleNamespace(select=lambda r, w, x, timeout=None: (list(r), [], []))
    ENC.generate_shared_secret = lambda: SECRET
    try:
        reals = [real_run(kind, segs) for (_, kind, _, _, segs, _) in cases]
    finally:
        C.select, ENC.generate_shared_secret = saved
    for (name, kind, k, segm, segs, _), line, mo, real in zip(cases, lines, ctx.driver.ask(lines), reals):
        ctx.case(('c15thread.run', name, k, segm, tuple(segs)))
        ctx.count('thread.' + name)
        ctx.count('thread.end.' + real.split('end=')[1].split()[0].split(':')[0])
        if normal(mo) != real:
            ctx.disagree('NetworkingThread.run on a cut server stream (%s cut at %d, %s)' % (name, k, segm),
                         line[:700], mo[:400], real)
    # ---- c15thread.handle: the model's prediction of every row of the live _handle_exception table
    Cg, X = G._modules()
    probed = G._probed(X)
    rows = G._handle_rows(Cg, probed, G._universe(probed))
    hl = ['c15thread.handle %d %d %d' % r[:3] for r in rows]
    for r, line, mo in zip(rows, hl, ctx.driver.ask(hl)):
        ctx.case(('c15thread.handle',) + r[:3])
        exp = 'ok %d %d %d %d' % r[3:]
        if mo != exp:
            ctx.disagree('Connection._handle_exception (reactor kind, exception class number, fallback fails)',
                         line, mo, exp)
    ctx.extra['c15thread_run_pairs'] = ctx.extra.get('c15thread_run_pairs', 0) + len(lines)
    ctx.extra['c15thread_handle_pairs'] = ctx.extra.get('c15thread_handle_pairs', 0) + len(hl)


def run(ctx):
    ctx.extra['rule'] = RULE
    reader_level(ctx)
    thread_tie(ctx)
    try:
        from corr import c15e2e
    except ImportError:
        ctx.notes.append('end-to-end layer not built yet')
        return
    c15e2e.run(ctx)


def replay(ctx, rp):
    for v in rp.get('violations', []):
        print(v)
    return not rp.get('violations')
