"""C15: a server that stops mid-conversation never hangs or spins the client.
(a) reader level: frame streams (plain / compressed / encrypted) cut at EVERY prefix length, real
    PacketReactor.read_packet loop vs Lean `frame.readall`; (b) end-to-end on sequential simnet:
    reference server conversations cut at every offset, real Connection + NetworkingThread.
Oracle: terminates within a read budget, outcome is an error or the documented status fallback,
only completely-sent packets are delivered, reads after end-of-stream stay bounded."""
import types
import zlib

import refcodec
from lib import hx
from corr.c01 import SegStream, ename

EXTRA_PROPS = ['C15Thread']

EXTRACT = ['gen.c15thread']

RULE = ("(a) 5 kinds of frame streams x every prefix length 0..N x {whole, bytewise, random} "
        "segmentation; (b) status / status-then-login / login+compression / login+encryption / play "
        "conversations from the reference server cut at every offset (quick: every offset of the short "
        "ones, strided for long ones); distinct by (stream, offset, segmentation)")


class BudgetStream(SegStream):
    budget = 0

    def read(self, n=-1):
        if self.reads > self.budget:
            raise RuntimeError('read budget exhausted')
        return super().read(n)


def reader_level(ctx):
    import minecraft.networking.connection as C
    from minecraft.networking import encryption as E
    from minecraft.networking.packets import Packet
    from minecraft.networking.types import TrailingByteArray
    rng = ctx.rng

    class Raw(Packet):
        definition = [{'payload': TrailingByteArray}]
        id = 7

    class Reactor(C.PacketReactor):
        get_clientbound_packets = staticmethod(lambda context: {Raw})
    saved = C.select
    C.select = types.SimpleNamespace(select=lambda r, w, x, t=None: (list(r), [], []))
    lines, impl = [], []
    try:
        streams = []
        for name, thr, enc in (('plain', None, False), ('thr-1', -1, False), ('thr0', 0, False),
                               ('thr16', 16, False), ('enc', None, True), ('enc+thr8', 8, True)):
            pk = [(7, b''), (7, b'ab'), (9, bytes(range(20))), (7, b'x' * 40), (300, b'\x00' * 3), (7, b'z')]
            if ctx.thorough:
                pk += [(7, bytes(rng.randrange(256) for _ in range(300))), (7, b'q' * 200)]
            frames = [refcodec.frame(refcodec.varint(i) + b, thr) for i, b in pk]
            streams.append((name, thr, enc, pk, frames))
        for name, thr, enc, pk, frames in streams:
            plain = b''.join(frames)
            secret = bytes(range(16, 32))
            wire = refcodec.CFB8(secret, encrypt=True).update(plain) if enc else plain
            ends, acc = [], 0
            for f in frames:
                acc += len(f)
                ends.append(acc)
            zmap = {}
            for (i, b), f in zip(pk, frames):
                payload = refcodec.varint(i) + b
                if thr is not None and thr >= 0 and len(payload) > thr:
                    zmap[zlib.compress(payload)] = payload
            zm = ','.join('%s:%s' % (hx(c), hx(p)) for c, p in zmap.items()) or '-'
            step = 1 if (len(wire) <= 200 or ctx.thorough or ctx.searching) else 3
            for k in list(range(0, len(wire) + 1, step)) + ends:
                for sname in ('whole', 'bytewise', 'random'):
                    data = wire[:k]
                    if sname == 'whole':
                        segs = [data]
                    elif sname == 'bytewise':
                        segs = [data[i:i + 1] for i in range(len(data))]
                    else:
                        segs, i = [], 0
                        while i < len(data):
                            n = rng.choice([1, 2, 3, 7, 30])
                            segs.append(data[i:i + n])
                            i += n
                    stream = BudgetStream(segs)
                    stream.budget = 4 * k + 50
                    fobj = stream
                    if enc:
                        fobj = E.EncryptedFileObjectWrapper(stream, E.create_AES_cipher(secret).decryptor())
                    conn = types.SimpleNamespace(
                        context=C.ConnectionContext(protocol_version=757),
                        options=types.SimpleNamespace(compression_enabled=thr is not None,
                                                      compression_threshold=-1 if thr is None else thr))
                    reactor = Reactor(conn)
                    got, end = [], None
                    for _ in range(len(pk) + 3):
                        try:
                            p = reactor.read_packet(fobj, timeout=0)
                        except BaseException as e:
                            end = 'budget' if 'read budget' in str(e) else ename(e)
                            break
                        got.append((p.id, getattr(p, 'payload', None)))
                    complete = sum(1 for e in ends if e <= k)
                    want = [(i, b if i == 7 else None) for i, b in pk[:complete]]
                    ctx.case((name, k, sname), sample={'stream': name, 'cut': k, 'segmentation': sname,
                                                        'delivered': len(got), 'end': end,
                                                        'reads_after_eof': stream.empties})
                    ctx.count('a.' + name)
                    ctx.count('a.end.' + str(end))
                    bad = None
                    if end == 'budget' or end is None:
                        bad = 'reader did not terminate within %d reads' % stream.budget
                    elif got != want:
                        bad = 'delivered %r, completely sent %d frames' % ([i for i, _ in got], complete)
                    elif end != 'eof':
                        bad = 'ended with %s instead of an end-of-stream error' % end
                    elif stream.empties > 2 + (1 if any(len(f) == 1 for f in frames) else 0):
                        bad = '%d reads after end of stream' % stream.empties
                    if bad:
                        ctx.violation('stream %s cut at byte %d (%s): %s' % (name, k, sname, bad),
                                      {'stream': name, 'cut': k, 'segmentation': sname, 'end': end},
                                      key={'stream': name, 'cut': k, 'seg': sname})
                    if sname != 'random' or k % 5 == 0:
                        psegs, i = [], 0
                        for s in segs:
                            psegs.append(plain[i:i + len(s)])
                            i += len(s)
                        lines.append('frame.readall %d zmap=%s %s' % (thr is not None, zm,
                                                                      ' '.join(hx(s) for s in psegs if s)))
                        shown = ' '.join('%d:%s' % (i, hx(pl if pl is not None else pk[j][1]))
                                         for j, (i, pl) in enumerate(got))
                        impl.append('ok %s%send=%s reads=%d eofreads=%d' % (
                            shown, ' ' if shown else '', end, stream.reads, stream.empties))
    finally:
        C.select = saved
    mo = ctx.driver.ask(lines)
    for line, m, g in zip(lines, mo, impl):
        if m != g:
            ctx.disagree('read_packet on a cut stream', line[:300], m[:300], g[:300])


def run(ctx):
    ctx.extra['rule'] = RULE
    reader_level(ctx)
    try:
        from corr import c15e2e
    except ImportError:
        ctx.notes.append('end-to-end layer not built yet')
        return
    c15e2e.run(ctx)


def replay(ctx, rp):
    for v in rp.get('violations', []):
        print(v)
    return not rp.get('violations')
