"""C16: connection lifecycle.  The real Connection / NetworkingThread run on real threads under the
baton scheduler; sockets are simnet's in-memory ones with the independent stand-in server.
(1) sequential call histories are replayed through the Lean model (`life.run`) and must agree;
(2) random interleavings of two user threads are judged by the oracle (I/O sections of different
networking threads never overlap, callers see only InvalidState / refusal, disconnect never raises,
interrupted threads terminate, the object stays reusable)."""
import collections
import threading
import types

import sched as SC
import simnet
from refserver import RefServer

EXTRA_PROPS = ['C16Live', 'C16Ends', 'C16Carry']

RULE = ("call histories of length <= 6 over {connect, status, disconnect, disconnect(immediate)} with "
        "optional reconnect-from-listener / reconnect-from-exception-handler budgets against per-attempt "
        "server behaviours {accept (silent), refuse, disconnect, fail}; sequential histories compared with "
        "the Lean model; two user threads under seeded random schedules judged by the oracle; distinct by "
        "(servers, budgets, programs, executed schedule)")


class World:
    """one Connection under the scheduler"""

    def __init__(self, C, servers, rl, rh, re_=0):
        from minecraft.networking import packets as P
        from minecraft.networking.packets import clientbound as cb
        self.C = C
        S = self.S = SC.Sched(None, step_limit=6000)
        self.io = []                 # (nt tid, kind) I/O events in global order
        self.nts = []
        self.attempt = [0]
        self.servers = list(servers)
        self.made = []               # the stand-in server of every accepted connection
        world = self

        def factory(sock):
            i = world.attempt[0] - 1
            beh = world.servers[i] if i < len(world.servers) else 'a'
            cfg = {'version': 757}
            if beh == 'a':
                cfg['status'] = 'silent'
                cfg['script'] = []
            elif beh == 'd':
                cfg['script'] = [('success',), ('play_disconnect', '{"text":"bye"}')]
            elif beh == 'p':          # logs the client in and then stays silent (play state)
                cfg['script'] = [('success',)]
            elif beh == 'f':
                cfg['status'] = 'close'
                cfg['script'] = [('close',)]
            elif beh == 's':          # answers a status request and the ping, like a real server; logs a client in silently
                cfg['status'] = ('json', '{"version":{"name":"x","protocol":757},"description":"s"}')
                cfg['script'] = [('success',)]
            elif beh == 'z':          # switches compression on, logs the client in and drops the TCP connection
                cfg['script'] = [('compress', 64), ('success',), ('close',)]
            elif beh == 'Z':          # switches compression on, logs the client in, then a play-state disconnect
                cfg['script'] = [('compress', 64), ('success',), ('play_disconnect', '{"text":"bye"}')]
            srv = RefServer(sock, cfg)
            world.made.append(srv)
            if beh == 'a':
                srv.on_status = lambda pid, payload: None
            return srv

        def refuse(i):
            world.attempt[0] = i + 1
            return i < len(world.servers) and world.servers[i] == 'r'
        self.net = simnet.Net(factory, refuse=refuse, sockets_only=True)
        self.net.__enter__()
        self.ILock = SC.make_lock_class(S)
        self.saved = (C.RLock, C.select, C.NetworkingThread)
        C.RLock = self.ILock
        net = self.net

        def select(r, w, x, timeout=None):
            me = S.before('sel', r)
            for f in r:
                if getattr(f, 'closed', False) or getattr(getattr(f, 'actual_file_object', f), 'closed', False):
                    raise ValueError('I/O operation on closed file')
            ready = [f for f in r if simnet.Net._inbox_of(f).ready()]
            S.emit('sel', int(bool(ready)))
            return ready, [], []
        C.select = types.SimpleNamespace(select=select, error=OSError)
        INT0 = SC.make_nt_class(S, C)

        class INT(INT0):
            def __init__(self, *a, **k):
                INT0.__init__(self, *a, **k)
                self.sched_tid = 100 + len(world.nts)
                world.nts.append(self)

            def start(self):
                S.add(self.sched_tid)
                threading.Thread.start(self)

            def join(self, timeout=None):
                if timeout is not None:
                    # a bounded wait may also end because the time is up: the waiting thread simply goes on, whether or not
                    # the thread waited for has ended (always enabled; the scheduler decides which of the two happened)
                    S.before('joint', self.sched_tid)
                    S.emit('joint', self.sched_tid, int(S.state.get(self.sched_tid) in ('done', None)))
                    return
                S.before('join', self.sched_tid)
                S.emit('join', self.sched_tid)

            def is_alive(self):
                return S.state.get(self.sched_tid) not in ('done', None)
        C.NetworkingThread = INT
        # `sel` of a thread whose inbox is not ready is only worth scheduling when something changed
        orig_enabled = S.enabled

        def enabled(t):
            if not orig_enabled(t):
                return False
            kind, obj = S.pending[t]
            if kind == 'rdi' and world.sequential:
                # the model's sequential histories park an idle networking thread BEFORE the read phase's
                # interrupt check (right after the write phase's release); use the same quiescent point
                own = [e[1] for e in S.log if e[0] == t][-2:]
                if own == ['rdi', 'rel']:
                    nt = [n for n in world.nts if n.sched_tid == t]
                    try:
                        f = world.conn.file_object
                        ready = f is not None and not getattr(f, 'closed', False) and simnet.Net._inbox_of(f).ready()
                    except Exception:
                        ready = True
                    return bool(ready or (nt and nt[0]._int))
                return True
            if kind == 'sel':
                try:
                    f = obj[0]
                    inner = getattr(f, 'actual_file_object', f)
                    if inner.closed or simnet.Net._inbox_of(f).ready():
                        return True
                except Exception:
                    return True
                nt = [n for n in world.nts if n.sched_tid == t]
                if nt and nt[0]._int:
                    return True
                # a select that finds nothing returns when its timeout expires; that only matters when
                # packets are waiting in the outgoing queue (the loop then goes on to write them)
                try:
                    return len(list(collections.deque.__iter__(world.conn._outgoing_packet_queue))) > 0
                except Exception:
                    return False
            return True
        S.enabled = enabled
        self.events = []
        self.sequential = False
        self.rl, self.rh, self.re = [rl], [rh], [re_]

        def on_exc(e, info):
            world.events.append(('exc', type(e).__name__, S.me()))
            if world.rh[0] > 0:
                world.rh[0] -= 1
                world.events.append(('handler-reconnect',))
                no_successor = world.conn.__dict__.get('_slot_newnt') is None
                try:
                    world.conn.connect()          # an exception raised here replaces the handled one
                except C.InvalidState:
                    # the connection has ended with an error and nothing has been started since: the documented
                    # reconnect-from-handler pattern must not be refused (judged in single-caller histories only)
                    world.events.append(('handler-reconnect-refused', no_successor and world.sequential))
                    raise
        class IConnection(C.Connection):
            # the two thread slots are shared state: make every access by a scheduled thread an atomic
            # action of its own, so the scheduler can interleave around them
            def _slot(name):
                def get(self):
                    if S.me() is not None:
                        S.before('slot')
                        S.emit('slot', 'r', name)
                    return self.__dict__.get('_slot_' + name)

                def set_(self, v):
                    if S.me() is not None:
                        S.before('slot')
                        S.emit('slot', 'w', name)
                    self.__dict__['_slot_' + name] = v
                return property(get, set_)
            networking_thread = _slot('nt')
            new_networking_thread = _slot('newnt')

            def _react(self, packet):
                # between `read_packet` returning and the reaction a real thread can be preempted: a scheduling point.
                # When the reacting thread has been interrupted meanwhile AND a later connect() has happened, the packet
                # (read from the OLD transport) is about to be handled by whatever reactor the object has NOW.
                me = S.me()
                if me is not None and me >= 100:
                    read_sess = len(world.net.connects)
                    S.before('react', getattr(packet, 'packet_name', None))
                    S.emit('react', getattr(packet, 'packet_name', None))
                    nt = [n for n in world.nts if n.sched_tid == me]
                    if nt and nt[0]._int and len(world.net.connects) > read_sess:
                        world.events.append(('stale-react', me, getattr(packet, 'packet_name', None), type(self.reactor).__name__))
                return C.Connection._react(self, packet)
        self.conn = IConnection('h', 1, username='u', allowed_versions={757}, handle_exception=on_exc,
                                handle_exit=lambda: on_exit())

        def on_exit():
            world.events.append(('exit',))
            if world.re[0] > 0:           # reconnect from inside the exit callback
                world.re[0] -= 1
                world.events.append(('exit-reconnect',))
                world.conn.connect()

        def on_pkt(p):
            if world.rl[0] > 0:
                world.rl[0] -= 1
                world.events.append(('listener-reconnect',))
                world.conn.connect()          # a refusal propagates out of the listener
        self.conn.register_packet_listener(on_pkt, cb.play.DisconnectPacket, cb.status.ResponsePacket)
        # I/O log: reads and sends with the acting scheduler thread
        net_log = self.net.log
        world_io = self.io

        class IOLog(list):
            def append(self, ev):
                list.append(self, ev)
                if ev[0] in ('send', 'read', 'read-eof', 'connect', 'close', 'shutdown', 'refused'):
                    world_io.append((S.me(), ev[0], ev[1]))
        self.net.log = IOLog(net_log)

    def close(self):
        C = self.C
        C.RLock, C.select, C.NetworkingThread = self.saved
        self.net.__exit__(None, None, None)

    def api(self, op, outcomes):
        from minecraft.exceptions import InvalidState
        conn = self.conn
        io_mark = len(self.io)
        try:
            if op == 'c':
                conn.connect()
            elif op == 's':
                conn.status(handle_status=False, handle_ping=False)
            elif op == 'sp':
                # a status query whose latency handler goes on to use the object (ping, then log in): by the time a handler
                # of a finished query runs, the object must accept a new connection
                world = self

                def on_ping(ms):
                    world.events.append(('ping-handler',))
                    try:
                        conn.connect()
                        world.events.append(('ping-handler-connected', len(world.net.connects)))
                    except InvalidState:
                        world.events.append(('ping-handler-refused',))
                        raise
                conn.status(handle_status=False, handle_ping=on_ping)
            elif op == 'd0':
                conn.disconnect()
            elif op == 'd1':
                conn.disconnect(immediate=True)
            outcomes.append('ok')
            if op in ('c', 's', 'sp'):
                self.events.append(('connected', len(self.S.log), len(self.net.connects)))
            else:
                self.events.append(('disconnect-call', len(self.S.log)))
        except InvalidState:
            outcomes.append('invalid')
            mine = [e for e in self.io[io_mark:] if e[0] == self.S.me() and e[1] in ('connect', 'refused', 'send', 'close')]
            if op in ('c', 's', 'sp') and mine:
                self.events.append(('disturbed', op, mine[:3]))
        except ConnectionRefusedError:
            outcomes.append('refused')
        except Exception as e:
            outcomes.append('raised:' + type(e).__name__)


def quiesce_choose(world, user_tids):
    """deterministic 'sequential' schedule: the (single) user thread runs one API call, then every
    networking thread runs to quiescence in creation order"""
    S = world.S

    def choose(en, n):
        nts = sorted(t for t in en if t >= 100)
        if nts:
            return nts[0]
        return sorted(en)[0]
    return choose


def run_world(C, servers, rl, rh, progs, mode, rng, re_=0):
    world = World(C, servers, rl, rh, re_)
    world.sequential = (mode == 'sequential')
    S = world.S
    outs = [[] for _ in progs]
    try:
        gate = {}

        def body(i, ops):
            def f():
                for op in ops:
                    S.before('call', op)          # one schedulable action per API call
                    S.emit('call', op)
                    world.api(op, outs[i])
            return f
        threads = [SC.user_thread(S, i + 1, body(i, ops)) for i, ops in enumerate(progs)]
        for t in threads:
            t.start()
        user_tids = [i + 1 for i in range(len(progs))]

        def all_tids():
            return user_tids + [n.sched_tid for n in world.nts]
        n = 0
        S.wait_all_parked(all_tids())
        stuck = None
        while True:
            tids = all_tids()
            en = [t for t in tids if S.enabled(t)]
            if not en:
                break
            if callable(mode):
                t = mode(en, S)
            elif mode == 'sequential':
                nts = sorted(t for t in en if t >= 100)
                t = nts[0] if nts else sorted(en)[0]
            else:
                t = rng.choice(en)
            try:
                S.step(t)
                S.wait_all_parked(all_tids())
            except SC.Deadlock as e:       # a thread blocks outside every scheduling point (e.g. waits for a thread that
                stuck = 'blocked: %s' % e  # is itself waiting to be scheduled): abandon the run, keep what was observed
                S.kill()
                break
            n += 1
            if n > 5000:
                stuck = 'step limit'
                break
        alive = [nt.sched_tid for nt in world.nts if S.state.get(nt.sched_tid) != 'done']
        res = dict(outs=outs, log=list(S.log), io=list(world.io), events=list(world.events),
                   conns=len(world.net.connects), threads=len(world.nts), alive=alive,
                   nt=world.conn.networking_thread is not None, newnt=world.conn.new_networking_thread is not None,
                   sock=world.conn.socket is not None, connected=bool(world.conn.connected), stuck=stuck,
                   errors=list(S.errors), ran=list(S.ran),
                   server_view=[(srv.handshake, srv.login_name, list(srv.errors)[:1], len(srv.frames)) for srv in world.made],
                   users_done=all(S.state.get(t) == 'done' for t in user_tids),
                   interrupted={nt.sched_tid: bool(nt._int) for nt in world.nts},
                   pending={t: S.pending.get(t, (None,))[0] for t in all_tids() if S.state.get(t) != 'done'})
        # ---- reusability probe: once every networking thread has terminated and all callers are done,
        # the object is not active, so one more connect() (to an accepting server) must not be refused
        res['probe'] = None
        if not alive and not stuck and res['users_done'] and not S.errors:
            world.servers = world.servers[:res['conns']] + ['a'] * 4
            world.rl[0] = world.rh[0] = world.re[0] = 0
            pout = []
            pt = SC.user_thread(S, 50, lambda: world.api('c', pout))
            pt.start()
            S.wait_all_parked(all_tids() + [50])
            k = 0
            while S.state.get(50) != 'done' and k < 400:
                en = [t for t in all_tids() + [50] if S.enabled(t)]
                if not en:
                    break
                S.step(50 if 50 in en else en[0])
                S.wait_all_parked(all_tids() + [50])
                k += 1
            res['probe'] = pout[0] if pout else 'did-not-return'
            try:
                world.conn.disconnect(immediate=True)
            except Exception:
                pass
            k = 0
            while k < 400:
                en = [t for t in all_tids() if S.enabled(t)]
                if not en:
                    break
                S.step(en[0])
                S.wait_all_parked(all_tids())
                k += 1
        return res
    finally:
        # let parked threads die: mark everything runnable and drain quickly
        world.close()


def oracle(ctx, servers, rl, rh, progs, r, label):
    bad = None
    key_kind = None
    # 1. I/O sections of different networking threads never overlap (A … B … A)
    seq = [t for t, kind, _ in r['io'] if t is not None and t >= 100 and kind in ('send', 'read', 'read-eof')]
    last_seen = {}
    order = []
    for t in seq:
        if order and order[-1] == t:
            continue
        if t in order:
            bad = 'networking threads %r perform I/O in overlapping sections: %r' % (sorted(set(order)), order + [t])
            key_kind = 'io-overlap'
            break
        order.append(t)
    # 2. callers only ever see ok / invalid-state / refusal; disconnect never raises
    for i, (ops, outs) in enumerate(zip(progs, r['outs'])):
        for op, o in zip(ops, outs):
            if o.startswith('raised') or (op in ('d0', 'd1') and o != 'ok'):
                bad = bad or '%s by user thread %d -> %s' % (op, i + 1, o)
                key_kind = key_kind or 'caller-exception'
    # 3. the run ends: user threads finish; every interrupted networking thread terminates
    if r['stuck'] or not r['users_done']:
        bad = bad or 'the system did not come to rest: %s pending=%r' % (r['stuck'], r['pending'])
        key_kind = key_kind or 'no-rest'
    for t in r['alive']:
        if r['interrupted'].get(t):
            bad = bad or 'interrupted networking thread %d never terminates (parked before %r)' % (t, r['pending'].get(t))
            key_kind = key_kind or 'no-termination'
    if r['errors']:
        bad = bad or 'a thread raised: %r' % (r['errors'][:2],)
        key_kind = key_kind or 'thread-raised'
    if not bad and r.get('probe') not in (None, 'ok'):
        bad = 'every networking thread has terminated and no call is in progress, yet one more connect() -> %s ' \
              '(slots at rest: networking_thread set=%s, new_networking_thread set=%s)' % (r['probe'], r['nt'], r['newnt'])
        key_kind = 'not-reusable'
    if not bad and any(e[0] == 'handler-reconnect-refused' and e[1] for e in r['events']):
        bad = 'connect() from the exception handler of a connection that has just ended with an error was refused ' \
              'with an invalid-state error although no other connection had been started'
        key_kind = 'handler-reconnect-refused'
    # every server that received anything can read the client's first frames as plain, uncompressed frames (none of the
    # stand-in servers announces compression or encryption before the login start)
    if not bad:
        for k, (hs, name, errs, nframes) in enumerate(r.get('server_view', [])):
            if errs or (nframes and (hs is None or hs.get('protocol') != 757 or hs.get('next') not in (1, 2))):
                stale = [e for e in r['events'] if e[0] == 'stale-react' and e[2] in ('set compression', 'encryption request')]
                if stale:
                    # an interrupted thread handled a packet it had read from the PREVIOUS transport after a later
                    # connect(): the reaction went to the new session's reactor
                    key_kind = 'stale-reaction-applied-to-new-session'
                    why = 'networking thread %d, already interrupted, reacted to the %r packet it had read from the previous transport ' \
                          'after a later connect() (reactor by then: %s)' % (stale[0][1], stale[0][2], stale[0][3])
                else:
                    key_kind = 'new-session-unreadable'
                    why = 'no stale reaction was observed'
                bad = 'the server of connection #%d cannot read the client\'s first frames (handshake %r, parse errors %r): %s' % (
                    k + 1, hs, errs, why)
                break
    if not bad and any(e[0] == 'ping-handler-refused' for e in r['events']):
        bad = 'connect() from the latency handler of a status query (the query is over: its pong has been received) was refused ' \
              'with an invalid-state error'
        key_kind = 'ping-handler-reconnect-refused'
    dist = [e for e in r['events'] if e[0] == 'disturbed']
    if dist and not bad:
        bad = 'a refused %s (InvalidState) nevertheless performed socket operations on behalf of the caller: %r' % (
            dist[0][1], dist[0][2])
        key_kind = 'refused-call-disturbs'
    # 4. a connection that was established last, to a server that accepts and stays silent, with no
    #    disconnect call and no reconnect afterwards, must still be up when the system comes to rest
    evs = r['events']
    stamped = [e for e in evs if e[0] in ('connected', 'disconnect-call')]
    if not bad and stamped and stamped[-1][0] == 'connected':
        _, at, attempt = stamped[-1]
        later_reconnects = [e for e in evs[evs.index(stamped[-1]) + 1:] if e[0] in ('listener-reconnect', 'handler-reconnect', 'exit-reconnect')]
        beh = servers[attempt - 1] if attempt - 1 < len(servers) else 'a'
        if beh == 'a' and not later_reconnects and attempt == r['conns'] and not (r['connected'] and r['sock'] and r['alive']):
            # who closed the socket of that last connection, and on which path?
            fd = 1000 + attempt - 1
            closer = next((t for t, kind, sfd in r['io'] if kind == 'close' and sfd == fd), None)
            owner = 100 + max(0, r['threads'] - 1)
            if closer is not None and closer >= 100 and closer != owner:
                path = 'exception-cleanup' if any(e[0] == 'exc' and len(e) > 2 and e[2] == closer for e in evs) \
                    else 'reaction-to-server-disconnect'
                by = 'predecessor networking thread (%s)' % path
                key_kind = 'new-connection-torn-down-by-predecessor-' + path
            else:
                by = 'thread %r' % (closer,)
                key_kind = 'new-connection-torn-down'
            bad = 'connect() returned normally (attempt %d, accepting server) and nobody disconnected afterwards, ' \
                  'yet at rest the connection is down (connected=%s socket=%s alive=%r): closed by %s' % (
                      attempt, r['connected'], r['sock'], r['alive'], by)
    if bad:
        ctx.violation('%s: %s' % (label, bad),
                      {'servers': servers, 'rl': rl, 'rh': rh, 'programs': progs, 'schedule': r['ran'][:200]},
                      key={'kind': key_kind} if key_kind.startswith('new-connection-torn-down-by-predecessor')
                      or key_kind == 'stale-reaction-applied-to-new-session' else
                      {'kind': key_kind, 'servers': servers, 'programs': progs, 'schedule': r['ran'][:200]})


def run(ctx):
    import minecraft.networking.connection as C
    ctx.extra['rule'] = RULE
    rng = ctx.rng
    lines, impl = [], []
    OPS = ['c', 'c', 's', 'd0', 'd1']
    # ------------------------------------------------------------------ sequential histories vs the model
    for i in range(ctx.scale(120, 1500)):
        n = rng.randrange(1, 7)
        ops = [rng.choice(OPS) for _ in range(n)]
        if i < 8:
            ops = [['d0'], ['d1', 'd0'], ['c', 'd0', 'd0'], ['c', 'c'], ['c', 'd1', 'c'], ['s', 'c'], ['c', 'd0', 'c', 'd1', 'c'],
                   ['d0', 'c', 'd0']][i]
        servers = [rng.choice('aaadfr') for _ in range(6)]
        rl = rng.choice([0, 0, 1, 2])
        rh = rng.choice([0, 0, 1, 2])
        r = run_world(C, servers, rl, rh, [ops], 'sequential', rng)
        got = 'ok %s conns=%d threads=%d alive=%d nt=%d sock=%d connected=%d' % (
            ','.join(r['outs'][0]) or '-', r['conns'], r['threads'], len(r['alive']), r['nt'], r['sock'], r['connected'])
        lines.append('life.run servers=%s rl=%d rh=%d %s' % (','.join(servers), rl, rh, ' '.join(ops)))
        impl.append(got)
        ctx.case(('seq', lines[-1]), sample={'history': lines[-1], 'impl': got})
        ctx.count('seq.len%d' % n)
        oracle(ctx, servers, rl, rh, [ops], r, 'sequential history')
        # reusable afterwards: once nothing is active, connect must not be refused as invalid
        # (checked inside the model comparison through the outcomes)
    for line, mo, g in zip(lines, ctx.driver.ask(lines), impl):
        if mo != g:
            ctx.disagree('lifecycle history', line, mo, g)
    flush_histories(ctx, C)
    undisturbed(ctx, C)
    # ------------------------------------------------------------------ two user threads, random schedules
    for i in range(ctx.scale(150, 2500)):
        progs = [[rng.choice(OPS) for _ in range(rng.randrange(1, 4))] for _ in range(2)]
        servers = [rng.choice('aaadfrzZ') for _ in range(8)]
        rl = rng.choice([0, 0, 1])
        rh = rng.choice([0, 0, 1])
        re_ = rng.choice([0, 0, 1])
        r = run_world(C, servers, rl, rh, progs, 'random', rng, re_)
        if re_:
            ctx.count('par.exit-reconnect-budget')
        ctx.case(('par', tuple(map(tuple, progs)), tuple(servers), re_, tuple(r['ran'])),
                 sample={'programs': progs, 'servers': servers, 'steps': len(r['ran']), 'outcomes': r['outs']})
        ctx.count('par.steps', len(r['ran']))
        oracle(ctx, servers, rl, rh, progs, r, 'two user threads')
    # ---- a session in which the server had switched compression on ends (TCP drop -> error, or a play-state disconnect) and
    # the application connects again from its exception handler / listener WITHOUT calling disconnect() first: the new
    # server, which has announced nothing, must be able to read the new session's handshake and login start as plain frames
    for i in range(ctx.scale(12, 60)):
        first = 'zZ'[i % 2]
        servers = [first, rng.choice('pa'), 'a', 'a']
        rl, rh = (0, 1) if first == 'z' else (1, 0)
        r = run_world(C, servers, rl, rh, [['c']], 'sequential' if i % 4 < 2 else 'random', rng)
        ctx.case(('compressed-then-reconnect', first, servers[1], i % 4 < 2, tuple(r['ran'])),
                 sample={'kind': 'compressed-then-reconnect', 'servers': servers, 'server_view': repr(r['server_view'])[:160]})
        ctx.count('compressed-then-reconnect.' + first)
        view = r['server_view']
        bad = None
        if len(view) < 2:
            bad = 'no second connection was made (events %r)' % (r['events'][:4],)
        else:
            hs, name, errs, nframes = view[1]
            if errs or hs is None or hs.get('protocol') != 757 or hs.get('next') not in (1, 2) or (hs.get('next') == 2 and name != 'u'):
                bad = 'the second server, which never announced compression, reads handshake=%r login name=%r parse errors=%r ' \
                      '(%d frames)' % (hs, name, errs, nframes)
        if bad:
            ctx.violation('first session with compression ends by %s, reconnect from the %s without disconnect(): %s'
                          % ('a dropped TCP connection' if first == 'z' else 'a play-state disconnect',
                             'exception handler' if first == 'z' else 'packet listener', bad),
                          {'servers': servers, 'schedule': r['ran'][:200]},
                          key={'kind': 'compressed-then-reconnect', 'first': first})
        oracle(ctx, servers, rl, rh, [['c']], r, 'compressed session then reconnect')
    # ---- directed schedules around the window between `read_packet` returning and the reaction: the networking thread is
    # held right before reacting to a packet of the given kind while the user thread runs disconnect() and connect() to
    # completion, then everything runs on.  (Random walks hardly ever hit this window.)
    for i in range(ctx.scale(12, 60)):
        first = 'zZdp'[i % 4]
        hold = ['set compression', 'login success', 'disconnect', 'set compression'][i % 4]
        servers = [first, rng.choice('ap'), 'a', 'a']
        ops = ['c', rng.choice(['d0', 'd1']), 'c']
        held = {'n': 0}

        def policy(en, S, hold=hold, held=held):
            waiting = [t for t in en if t >= 100 and S.pending.get(t, (None, None)) == ('react', hold)]
            users = [t for t in en if t < 100]
            if waiting and users and held['n'] < 400:
                held['n'] += 1
                return users[0]                      # keep the reaction pending while the user thread goes on
            nts = sorted(t for t in en if t >= 100)
            return nts[0] if nts else sorted(en)[0]
        r = run_world(C, servers, 0, 0, [ops], policy, rng)
        ctx.case(('held-reaction', first, hold, tuple(ops), tuple(r['ran'])),
                 sample={'kind': 'held-reaction', 'servers': servers, 'held_before': hold, 'ops': ops, 'outcomes': r['outs']})
        ctx.count('held-reaction.' + hold.replace(' ', '-'))
        oracle(ctx, servers, 0, 0, [ops], r, 'reaction to %r held back while the user thread disconnects and reconnects' % hold)
    # ---- a status query with a latency handler that logs in on the same object (ping, then connect): sequential and random
    for i in range(ctx.scale(10, 60)):
        servers = ['s', 'a', 'a', 'a']
        r = run_world(C, servers, 0, 0, [['sp']], 'sequential' if i % 2 == 0 else 'random', rng)
        ctx.case(('ping-then-connect', i % 2, tuple(r['ran'])), sample={'kind': 'ping-then-connect', 'outcomes': r['outs'], 'events': r['events'][:6]})
        ctx.count('ping-then-connect')
        evs = [e[0] for e in r['events']]
        if not r['stuck'] and 'ping-handler' in evs and 'ping-handler-refused' not in evs and \
                not (r['connected'] and r['sock'] and r['alive'] and r['conns'] == 2):
            ctx.violation('status() with a latency handler that calls connect(): the handler\'s connect() returned normally (accepting '
                          'server) but at rest the object is not connected (connected=%s socket=%s live threads=%r connections made=%d)'
                          % (r['connected'], r['sock'], r['alive'], r['conns']),
                          {'schedule': r['ran'][:200], 'events': r['events'][:8]}, key={'kind': 'ping-handler-connection-lost'})
        oracle(ctx, servers, 0, 0, [['sp']], r, 'status query whose latency handler connects')
    ends_tie(ctx)
    # ---- Model/C16Carry.lean: the object across sessions, operation by operation (corr/c16carry.py)
    from corr import c16carry
    c16carry.tie(ctx)


def ends_tie(ctx):
    """Tie of Model/C16Ends.lean (driver `ends.seq`, guard=1 = the current code) to a real Connection on a
    fake socket module.  The observation script replaces globals of minecraft.networking.connection for the
    whole life of its interpreter, hence a subprocess: harness/xcheck/c16ends_xcheck.py <N> <seed> prints
    `request<TAB>expected` lines (all randomness from the seed drawn here from ctx.rng)."""
    import os
    import subprocess
    import sys
    import lib
    script = os.path.join(os.path.dirname(os.path.dirname(os.path.abspath(__file__))), 'xcheck', 'c16ends_xcheck.py')
    n = ctx.scale(1500, 20000)
    seed = ctx.rng.getrandbits(48)
    env = dict(os.environ, PYCRAFT_REPO=lib.REPO, PYTHONDONTWRITEBYTECODE='1')
    p = subprocess.run([sys.executable, script, str(n), str(seed), '1'], capture_output=True, text=True, env=env, timeout=600)
    pairs = [l.split('\t') for l in p.stdout.splitlines()]
    if p.returncode != 0 or len(pairs) != n or any(len(x) != 2 for x in pairs):
        ctx.disagree('ends.seq: the real-code observation script could not run against this tree',
                     [script, n, seed], None, (p.stderr or p.stdout)[-1500:])
        return
    for (req, exp), mo in zip(pairs, ctx.driver.ask([q for q, _ in pairs])):
        ctx.case(('ends.seq', req))
        ctx.count('ends.seq.ops', len(req.split()) - 4)
        if mo != exp:
            ctx.disagree('ends.seq vs a real Connection on a fake socket module', req, mo, exp)
    ctx.extra['c16ends_pairs'] = ctx.extra.get('c16ends_pairs', 0) + len(pairs)


def flush_histories(ctx, C):
    """disconnect() with packets still queued while the peer has (or has not) gone away: the call must
    return normally, close the transport, end the networking thread and leave the object reusable"""
    from minecraft.networking.packets import serverbound as sb
    rng = ctx.rng
    for trial in range(ctx.scale(48, 400)):
        peer_gone = trial % 2 == 0
        immediate = trial % 4 >= 2
        nq = [0, 1, 3][trial // 4 % 3]
        when = ['idle', 'fresh'][trial // 12 % 2]      # after the login settled / right after connect() returned
        cfg = {'version': 757, 'script': [('success',)]}
        excs, outcome = [], None
        with simnet.Net(lambda s_: RefServer(s_, cfg)) as net:
            conn = C.Connection('h', 1, username='u', allowed_versions={757}, handle_exception=lambda e, i: excs.append(e))
            conn.connect()
            if when == 'idle':
                net.run_threads()
            if peer_gone:
                net.sockets[0].inbox.eof = True        # the peer has closed; the client has not read that yet
            for k in range(nq):
                conn.write_packet(sb.play.ChatPacket(message='bye %d' % k))
            calls = []
            for _ in range(2):
                try:
                    conn.disconnect(immediate=immediate)
                    calls.append('ok')
                except Exception as e:
                    calls.append(repr(e))
            sock_open = conn.socket is not None
            net.run_threads()
            slots_clear = conn.networking_thread is None and conn.new_networking_thread is None
            cfg['script'] = [('success',)]
            try:
                conn.connect()
                net.run_threads()
                again = 'ok' if type(conn.reactor).__name__ == 'PlayingReactor' and conn.connected else 'not in play state'
                conn.disconnect()
                net.run_threads()
            except Exception as e:
                again = repr(e)
        ctx.case(('flush', peer_gone, immediate, nq, when))
        ctx.count('flush-histories')
        bad = None
        if calls != ['ok', 'ok']:
            bad = 'disconnect(immediate=%s) twice -> %r' % (immediate, calls)
        elif sock_open:
            bad = 'the socket is still open after disconnect() returned'
        elif not slots_clear:
            bad = 'the networking thread did not end (slots %r / %r)' % (conn.networking_thread, conn.new_networking_thread)
        elif again != 'ok':
            bad = 'the object cannot connect again: %s' % again
        if bad:
            ctx.violation('%d packet(s) queued, peer %s, connection %s: %s' % (
                nq, 'has closed' if peer_gone else 'open', when, bad),
                {'queued': nq, 'peer_gone': peer_gone, 'immediate': immediate, 'when': when, 'calls': calls},
                key={'kind': 'disconnect-with-queue', 'peer_gone': peer_gone, 'immediate': immediate, 'queued': min(nq, 1), 'when': when})


def undisturbed(ctx, C):
    """connect()/status() refused on an ACTIVE connection must leave it working: the server's next
    keep-alive is still answered by the play-state reactor (real threads under the scheduler, because
    'active' means a live networking thread)"""
    import refcodec as rc
    import refproto as rp
    for trial in range(ctx.scale(8, 40)):
        calls_to_try = [['s'], ['c'], ['s', 'c', 's'], ['c', 's']][trial % 4]
        world = World(C, ['p'], 0, 0)
        world.sequential = True
        S = world.S
        outs = []
        try:
            def body():
                for op in ['c'] + calls_to_try:
                    S.before('call', op)
                    S.emit('call', op)
                    world.api(op, outs)
            ut = SC.user_thread(S, 1, body)
            ut.start()

            def tids():
                return [1] + [n.sched_tid for n in world.nts]

            def to_rest():
                S.wait_all_parked(tids())
                k = 0
                while k < 3000:
                    en = [t for t in tids() if S.enabled(t)]
                    if not en:
                        return True
                    nts = sorted(t for t in en if t >= 100)
                    S.step(nts[0] if nts else sorted(en)[0])
                    S.wait_all_parked(tids())
                    k += 1
                return False
            rest1 = to_rest()
            srv = world.net.sockets[0].server if world.net.sockets else None
            kas = []
            if srv is not None:
                srv.send_packet(rp.packet_id('keep_alive_cb', 757), rc.be(2, 8))
                rest2 = to_rest()
                kas = [f for f in srv.frames if f[0] == 'play' and f[1] == rp.packet_id('keep_alive_sb', 757)]
            reactor = type(world.conn.reactor).__name__
            nsock = len(world.net.sockets)
            errs = [e for e in world.events if e[0] == 'exc'] + list(S.errors)
        finally:
            S.kill()
            world.close()
        ctx.case(('undisturbed', tuple(calls_to_try)))
        bad = None
        if outs != ['ok'] + ['invalid'] * len(calls_to_try):
            bad = 'calls -> %r (an invalid-state error is documented for each call after the first)' % (outs,)
        elif nsock != 1:
            bad = 'a refused call opened another TCP connection'
        elif len(kas) != 1 or reactor != 'PlayingReactor' or errs:
            bad = 'after the refused calls the active connection answered %d of 1 keep-alive (reactor %s, errors %r)' % (
                len(kas), reactor, errs[:1])
        if bad:
            ctx.violation('connect, then %r on the active connection: %s' % (calls_to_try, bad),
                          {'calls': calls_to_try}, key={'kind': 'active-undisturbed', 'calls': calls_to_try})


def replay(ctx, rp):
    for v in rp.get('violations', []):
        print(v)
    return not rp.get('violations')
