"""C15 end-to-end layer: reference server conversations cut at byte offset k (then the server closes),
run against the real Connection + NetworkingThread on the sequential simnet under a read budget."""
import json

import simnet
from refserver import RefServer


def conversations():
    status = ('json', json.dumps({'version': {'name': '1.18.1', 'protocol': 757}, 'description': 'ref'}))
    play = [('keepalive', 1), ('poslook', 1.0, 2.0, 3.0, 0.0, 0.0, 0, 9), ('raw', 0x7E, b'abcdef'),
            ('keepalive', 300), ('raw', 0x0F, b'\x0d{"text":"hi"}\x00' + bytes(16)), ('keepalive', 2 ** 40)]
    return [
        ('status', dict(allowed={757, 756}, cfg={'version': 757, 'status': status, 'close_after_status': True,
                                                  'script': [('success',), ('close',)]})),
        # the fallback default is the caller's initial_version even when it is outside allowed_versions
        ('status-initial-outside', dict(allowed={757, 756}, initial=340,
                                        cfg={'version': 757, 'status': status, 'close_after_status': True,
                                             'script': [('success',), ('close',)]})),
        # the server is gone entirely after cutting the status stream: the fallback connect is refused
        ('status-server-gone', dict(allowed={757, 756}, refuse_after=1,
                                    cfg={'version': 757, 'status': status, 'close_after_status': True,
                                         'script': [('success',), ('close',)]})),
        # the stand-alone status() API (no fallback documented there): response + pong, and response only
        ('plain-status+ping', dict(allowed={757, 756}, api='status-ping',
                                   cfg={'version': 757, 'status': status, 'script': []})),
        ('plain-status', dict(allowed={757, 756}, api='status',
                              cfg={'version': 757, 'status': status, 'close_after_status': True, 'script': []})),
        ('status-then-login', dict(allowed={757, 756}, cfg={'version': 757, 'status': status,
                                                             'close_after_status': True,
                                                             'script': [('success',)] + play[:3] + [('close',)]})),
        ('login+compression', dict(allowed={757}, cfg={'version': 757,
                                                       'script': [('compress', 8), ('plugin', 3, 'ch', b'xyz'),
                                                                  ('success',)] + play + [('close',)]})),
        ('login+encryption', dict(allowed={757}, cfg={'version': 757,
                                                      'script': [('encrypt', 'srv', b'tokn'), ('compress', 16),
                                                                 ('success',)] + play[:4] + [('close',)]})),
        ('play', dict(allowed={757}, cfg={'version': 757, 'script': [('success',)] + play * 3 + [('close',)]})),
    ]


def run_one(C, P, allowed, cfg, cut, segment=None, initial=756, refuse_after=None, api='connect'):
    cfg = dict(cfg)
    cfg['script'] = list(cfg['script'])
    cfg['budget'] = {'left': cut}
    cfg['servers'] = []
    if segment:
        cfg['segment'] = segment
    events = []
    with simnet.Net(lambda s: RefServer(s, cfg), read_budget=20000, idle_limit=2,
                    refuse=(lambda i: i >= refuse_after) if refuse_after is not None else None) as net:
        conn = C.Connection('h', 1, username='u', allowed_versions=set(allowed), initial_version=initial if len(allowed) > 1 else None,
                            handle_exception=lambda e, i: events.append(('exc', type(e).__name__)),
                            handle_exit=lambda: events.append(('exit',)))
        delivered = []
        conn.register_packet_listener(lambda p: delivered.append(p), P.Packet)
        try:
            if api == 'connect':
                conn.connect()
            else:
                conn.status(handle_status=lambda d: events.append(('status',)),
                            handle_ping=(lambda ms: events.append(('ping',))) if api == 'status-ping' else False)
            net.run_threads()
        except Exception as e:
            events.append(('raised', type(e).__name__))
        return dict(budget_left=cfg['budget']['left'], events=events, delivered=delivered, stops=[k for _, k in net.stops], reads=net.reads,
                    eof_reads=net.eof_reads, servers=cfg['servers'], nconn=len(net.sockets),
                    thread_errors=[type(e).__name__ for e in net.thread_errors])


def run(ctx):
    import minecraft.networking.connection as C
    from minecraft.networking import packets as P
    for name, sc in conversations():
        # the uncut conversation: what is delivered, and how many bytes the server sends in total
        kw = dict(initial=sc.get('initial', 756), refuse_after=sc.get('refuse_after'), api=sc.get('api', 'connect'))
        probe = run_one(C, P, sc['allowed'], sc['cfg'], 10 ** 9, **kw)
        nfull = len(probe['delivered'])
        N = 10 ** 9 - probe['budget_left']
        step = 1 if (N <= 160 or ctx.thorough or ctx.searching) else max(1, N // 90)
        ks = sorted(set(list(range(0, N + 1, step)) + [N - 1, N]))
        ctx.extra.setdefault('e2e_stream_lengths', {})[name] = N
        for k in ks:
            for seg in (None, 1) if (k % 3 == 0 or N <= 160) else (None,):
                r = run_one(C, P, sc['allowed'], sc['cfg'], k, seg, **kw)
                ctx.case(('e2e', name, k, seg), sample={'conversation': name, 'cut': k, 'segment': seg,
                                                        'events': r['events'], 'delivered': len(r['delivered']),
                                                        'reads_after_eof': r['eof_reads']})
                ctx.count('b.' + name)
                bad = None
                if 'budget' in r['stops'] or 'stall' in r['stops']:
                    bad = 'networking thread did not terminate (%s) after %d reads' % (r['stops'], r['reads'])
                elif r['eof_reads'] > 3 * max(1, r['nconn']):
                    bad = '%d reads after end of stream' % r['eof_reads']
                elif r['nconn'] > 2:
                    bad = 'the client opened %d connections (one status query and at most one fallback login are documented)' % r['nconn']
                elif k < N and not [e for e in r['events'] if e[0] in ('exc', 'raised')] and not r['thread_errors'] and 'idle' not in r['stops']:
                    # the server never sends another byte: a fallback login ends in an error as well
                    bad = 'silent exit: no error reported (connections opened: %d)' % r['nconn']
                elif 'idle' in r['stops'] and k < N:
                    # idle = the client is waiting although the server has closed: a hang
                    closed_all = all(s.sock.inbox.eof for s in r['servers'])
                    if closed_all:
                        bad = 'client keeps waiting on a closed stream'
                if not bad and len(r['delivered']) > nfull:
                    bad = 'more packets delivered than the server ever sent'
                if not bad and k < N:
                    # every delivered packet must be one the uncut run also delivers, in the same order
                    names_cut = [type(p).__name__ + ':' + str(getattr(p, 'id', None)) for p in r['delivered']]
                    names_full = [type(p).__name__ + ':' + str(getattr(p, 'id', None)) for p in probe['delivered']]
                    if names_cut != names_full[:len(names_cut)]:
                        bad = 'delivered packets %r are not a prefix of the complete conversation' % names_cut[-3:]
                if bad:
                    ctx.violation('%s cut at byte %d%s: %s' % (name, k, ' (1-byte segments)' if seg else '', bad),
                                  {'conversation': name, 'cut': k, 'segment': seg, 'events': r['events']},
                                  key={'conversation': name, 'cut': k, 'segment': seg})
    server_goes_while_client_writes(ctx, C, P)


def server_goes_while_client_writes(ctx, C, P):
    """The server stops in the middle of the CLIENT's burst: it answers nothing more and closes after the n-th play-state frame
    it has received, while the client still has packets queued.  The client's next write fails (EPIPE), the read that follows
    hits the end of the stream: the thread must end and an error must be reported -- not a silent exit."""
    from minecraft.networking.packets import serverbound as sb
    rng = ctx.rng
    for trial in range(ctx.scale(24, 200)):
        nka = rng.randint(1, 3)
        extra = rng.randint(1, 4)
        close_at = rng.randint(1, nka + extra - 1) if trial % 4 else 1
        comp = trial % 3 == 1
        cfg = {'version': 757, 'script': ([('compress', 16)] if comp else []) + [('success',)] + [('keepalive', 10 + k) for k in range(nka)],
               'close_on_play_frame': close_at, 'servers': []}
        events = []
        with simnet.Net(lambda s: RefServer(s, cfg), read_budget=20000, idle_limit=2) as net:
            conn = C.Connection('h', 1, username='u', allowed_versions={757},
                                handle_exception=lambda e, i: events.append(('exc', type(e).__name__)),
                                handle_exit=lambda: events.append(('exit',)))
            fired = []

            def on_ka(p):
                if not fired:
                    fired.append(1)
                    for k in range(extra):
                        conn.write_packet(sb.play.ChatPacket(message='m%d' % k))
            conn.register_packet_listener(on_ka, P.clientbound.play.KeepAlivePacket)
            try:
                conn.connect()
                net.run_threads()
            except Exception as e:
                events.append(('raised', type(e).__name__))
            stops = [k for _, k in net.stops]
            terr = [type(e).__name__ for e in net.thread_errors]
            epipe = any(ev[0] == 'epipe' for ev in net.log)
            eof_reads = net.eof_reads
        ctx.case(('e2e-server-goes-while-writing', nka, extra, close_at, comp),
                 sample={'conversation': 'server goes while the client writes', 'keepalives': nka, 'queued': extra, 'close_at': close_at,
                         'events': events, 'write_failed': epipe})
        ctx.count('b.server-goes-while-writing' + ('.epipe' if epipe else ''))
        bad = None
        if 'budget' in stops or 'stall' in stops:
            bad = 'networking thread did not terminate (%s)' % (stops,)
        elif 'idle' in stops:
            bad = 'client keeps waiting on a closed stream'
        elif eof_reads > 3:
            bad = '%d reads after end of stream' % eof_reads
        elif not [e for e in events if e[0] in ('exc', 'raised')] and not terr:
            bad = 'silent exit: no error reported (events %r, a write had failed: %s)' % (events, epipe)
        if bad:
            ctx.violation('server closes after receiving play frame #%d of the client\'s burst (%d keep-alive replies + %d queued chat '
                          'packets%s): %s' % (close_at, nka, extra, ', compression on' if comp else '', bad),
                          {'keepalives': nka, 'queued': extra, 'close_at': close_at, 'events': events},
                          key={'kind': 'server-goes-while-writing', 'nka': nka, 'extra': extra, 'close_at': close_at, 'comp': comp})
