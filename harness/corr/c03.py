"""C03 correspondence + oracle: VarInt/VarLong bounded decode, terminating canonical encode."""
import io
import itertools
import signal

import refcodec
from lib import hx

EXTRA_PROPS = ['C03Nominal', 'C03Size']

EXTRACT = ['gen.c03nominal']

RULE = ("decode: every byte string of length<=2 (quick; <=3 with boundary third byte), every "
        "continuation-bit shape up to 13 bytes with boundary payloads, random longer, every "
        "truncation of sampled encodings; encode: every n below 2^16 (quick) / 2^21 (thorough), "
        "2^k and neighbours up to 2^90, negatives, seeded random; a case is non-trivial and "
        "distinct by (type, input)")


class Budget(Exception):
    pass


class budget:
    """Turns a hang into an observation (pure-Python loops only; main thread)."""

    def __init__(self, seconds):
        self.s = seconds

    def __enter__(self):
        def h(*a):
            raise Budget()
        self.old = signal.signal(signal.SIGALRM, h)
        signal.setitimer(signal.ITIMER_REAL, self.s)

    def __exit__(self, *a):
        signal.setitimer(signal.ITIMER_REAL, 0)
        signal.signal(signal.SIGALRM, self.old)
        return False


class CountingStream(io.BytesIO):
    def __init__(self, b):
        super().__init__(b)
        self.nreads = 0
        self.nbytes = 0

    def read(self, n=-1):
        self.nreads += 1
        r = super().read(n)
        self.nbytes += len(r)
        return r


class Sink:
    def __init__(self):
        self.b = bytearray()

    def send(self, d):
        self.b += d


def errname(e):
    if isinstance(e, EOFError):
        return 'eof'
    if isinstance(e, ValueError) and 'too long' in str(e):
        return 'toolong'
    if isinstance(e, ValueError):
        return 'value'
    if isinstance(e, Budget):
        return 'hang'
    if isinstance(e, MemoryError):
        return 'hang'
    return type(e).__name__


def impl_dec(T, bs):
    st = CountingStream(bs)
    try:
        with budget(5):
            v = T.read(st)
        return 'ok %d %s reads=%d' % (v, hx(bs[st.tell():]), st.nreads), v, st
    except Exception as e:
        return 'err:%s reads=%d' % (errname(e), st.nreads), None, st


HANGS = [0]


def impl_enc(T, n):
    s = Sink()
    if HANGS[0] >= 4 and n < 0:
        return 'err:hang', None   # already established; do not wait for every negative
    try:
        with budget(0.5):
            T.send(n, s)
        return 'ok ' + hx(s.b), bytes(s.b)
    except BaseException as e:
        if isinstance(e, (KeyboardInterrupt, SystemExit)):
            raise
        if errname(e) == 'hang':
            HANGS[0] += 1
        return 'err:' + errname(e), None


def impl_size(T, n):
    try:
        return 'ok %d' % T.size(n), T.size(n)
    except Exception as e:
        return 'err:' + errname(e), None


def dec_inputs(ctx):
    B = [0, 1, 0x7f, 0x80, 0x81, 0xfe, 0xff]
    yield b''
    for a in range(256):
        yield bytes([a])
    for a in range(256):
        for b in range(256):
            yield bytes([a, b])
    if ctx.thorough or ctx.searching:
        for a in range(256):
            for b in range(256):
                for c in B:
                    yield bytes([a, b, c])
    else:
        for a in B + [0x05, 0x40]:
            for b in range(256):
                for c in B:
                    yield bytes([a, b, c])
    # every continuation shape up to 13 bytes, boundary payloads
    rng = ctx.rng
    for L in range(1, 14):
        shapes = itertools.product([0, 0x80], repeat=L)
        if L > 11 and not (ctx.thorough or ctx.searching):
            shapes = (tuple(rng.choice([0, 0x80]) for _ in range(L)) for _ in range(1500))
        for sh in shapes:
            for pay in (0, 0x7f, None):
                yield bytes(c | (rng.randrange(128) if pay is None else pay) for c in sh)
    for _ in range(ctx.scale(3000, 40000)):
        L = rng.randrange(1, 40)
        p = rng.random()
        yield bytes((0x80 if rng.random() < p else 0) | rng.randrange(128) for _ in range(L))


def enc_inputs(ctx):
    rng = ctx.rng
    lim = 2 ** 21 if (ctx.thorough or ctx.searching) else 2 ** 16
    for n in range(lim):
        yield n
    if lim < 2 ** 21:
        for _ in range(20000):
            yield rng.randrange(2 ** 21)
    for k in range(0, 91):
        for d in (-2, -1, 0, 1, 2):
            if 2 ** k + d >= 0:
                yield 2 ** k + d
    for k in (32, 64):
        for _ in range(2000):
            yield rng.randrange(2 ** k)
    for n in (-1, -2, -127, -128, -129, -2 ** 31, -2 ** 31 - 1, -2 ** 63, -2 ** 64, -2 ** 70):
        yield n
    for _ in range(50):
        yield -rng.randrange(1, 2 ** 66)


def run(ctx):
    from minecraft.networking.types import basic
    ctx.extra['rule'] = RULE
    types = [('varint', basic.VarInt, 5, 2 ** 32), ('varlong', basic.VarLong, 10, 2 ** 64)]
    # an encode whose sink raises must leave no trace in the encodings that follow (any sink, any type)
    class Broken:
        def send(self, b):
            raise BrokenPipeError(32, 'Broken pipe')

    class Sink0:
        def __init__(self):
            self.b = b''

        def send(self, b):
            self.b += bytes(b)
    for T_, nm in ((basic.VarInt, 'varint'), (basic.VarLong, 'varlong')):
        for first in (0, 1, 127, 128, 300, 2 ** 21, 2 ** 31 - 1):
            try:
                T_.send(first, Broken())
            except Exception:
                pass
            for nxt in (0, 1, 127, 128, 16384, 2 ** 28):
                s_ = Sink0()
                try:
                    T_.send(nxt, s_)
                    got = s_.b
                except Exception as e:
                    got = repr(e).encode()
                want = b''
                v_ = nxt
                while True:
                    byte = v_ & 0x7f
                    v_ >>= 7
                    want += bytes([byte | (0x80 if v_ else 0)])
                    if not v_:
                        break
                ctx.case(('after-failed-send', nm, first, nxt))
                if got != want:
                    ctx.violation('%s.send(%d) right after a send of %d whose sink raised: %s, the canonical encoding is %s'
                                  % (nm, nxt, first, got.hex(), want.hex()), {'type': nm, 'n': nxt, 'after': first},
                                  key={'kind': 'after-failed-send', 'type': nm})
                    break
            else:
                continue
            break
    # the CLASS readers of Model/C03Nominal.lean (max_bytes pinned per class, decoder and read counter are
    # projections of one instrumented function): value / error, tell() and number of read() calls
    import io as _io
    for cname, T in (('VarInt', basic.VarInt), ('VarLong', basic.VarLong)):
        mo = ctx.driver.ask(['c03nominal.maxbytes ' + cname])[0]
        if mo != 'ok %s' % getattr(T, 'max_bytes', None):
            ctx.disagree('max_bytes of the class', cname, mo, getattr(T, 'max_bytes', None))
        ins = [bytes([0xff] * k + [t]) for k in range(0, 13) for t in (0x00, 0x01, 0x7f, 0x80)] + \
              [bytes(ctx.rng.randrange(256) for _ in range(ctx.rng.randrange(0, 14))) for _ in range(ctx.scale(300, 3000))]
        outs = ctx.driver.ask(['c03nominal.read %s %s' % (cname, hx(b)) for b in ins])
        for b, mo in zip(ins, outs):
            class Counting(_io.BytesIO):
                n = 0

                def read(self, k=-1):
                    Counting.n += 1
                    return _io.BytesIO.read(self, k)
            Counting.n = 0
            f = Counting(b)
            try:
                got = 'ok %d' % T.read(f)
            except EOFError:
                got = 'err:eof 0'
            except ValueError:
                got = 'err:tooLong 0'
            except Exception as e:
                got = 'err:other 0 (%r)' % (e,)
            got += ' tell=%d reads=%d' % (f.tell(), Counting.n)
            ctx.case(('class-read', cname, b))
            if mo != got:
                ctx.disagree('%s.read (class reader, reads counted)' % cname, hx(b), mo, got)
    # -------- decode
    for name, T, mx, _ in types:
        if getattr(T, 'max_bytes', None) != mx:
            ctx.disagree('max_bytes differs from the model', name, mx, getattr(T, 'max_bytes', None))
        ins = list(dec_inputs(ctx))
        outs = ctx.driver.ask(['varint.dec %d %s' % (mx, hx(b)) for b in ins])
        for bs, mo in zip(ins, outs):
            io_, v, st = impl_dec(T, bs)
            ctx.case((name, 'dec', bs), sample={'op': name + '.read', 'bytes': hx(bs), 'impl': io_})
            ctx.count('dec.' + io_.split()[0])
            if io_ != mo:
                ctx.disagree(name + '.read', hx(bs), mo, io_)
            # ---- property oracle (independent of the model)
            term = next((i for i, b in enumerate(bs[:mx + 1]) if b < 128), None)
            bad = None
            if 'err:hang' in io_:
                bad = 'decode did not terminate within the budget'
            elif st.nbytes > mx + 1:
                bad = 'read %d bytes, more than max_bytes+1=%d' % (st.nbytes, mx + 1)
            elif v is not None:
                if v < 0:
                    bad = 'negative result'
                elif term is None:
                    bad = 'returned a value although no terminating byte lies within max_bytes+1'
                elif st.tell() != term + 1:
                    bad = 'consumed %d bytes, terminator is byte %d' % (st.tell(), term + 1)
            elif term is not None:
                bad = 'raised although a terminated encoding of length <= max_bytes+1 is present'
            elif not io_.startswith(('err:eof', 'err:toolong')):
                bad = 'unexpected failure kind ' + io_
            if bad:
                ctx.violation('%s.read: %s' % (name, bad), {'type': name, 'bytes': hx(bs), 'impl': io_},
                              key={'op': name + '.read', 'bytes': hx(bs)})
    # -------- encode
    ns = list(enc_inputs(ctx))
    enc_model = ctx.driver.ask(['varint.enc %d' % n for n in ns])
    size_model = ctx.driver.ask(['varint.size %d' % n for n in ns])
    for name, T, mx, hi in types:
        for n, mo, smo in zip(ns, enc_model, size_model):
            ie, b = impl_enc(T, n)
            ctx.case((name, 'enc', n), sample={'op': name + '.send', 'n': n, 'impl': ie})
            ctx.count('enc.' + ie.split()[0])
            if ie != mo:
                ctx.disagree(name + '.send', n, mo, ie)
            bad = None
            if ie == 'err:hang':
                bad = 'encoding did not terminate'
            elif 0 <= n < hi:
                if b is None:
                    bad = 'encoding an in-range value failed: ' + ie
                elif b != refcodec.varint(n):
                    bad = 'encoding is not the canonical base-128 form %s' % refcodec.varint(n).hex()
                else:
                    io_, v, st = impl_dec(T, b + b'\x55')
                    if v != n or st.tell() != len(b):
                        bad = 'decoding the encoding gives %s' % io_
                    sz_s, sz = impl_size(T, n)
                    if sz != len(b):
                        bad = 'size() = %s but the encoding has %d bytes' % (sz_s, len(b))
            # size(): hard tie for n >= 0; for negatives (Props/C03Size: the table walk answers 1
            # although send raises) the comparison is RECORDED only -- the property says nothing about
            # size() of a negative, so a guard added there must not raise an alarm.
            sz_s, _ = impl_size(T, n)
            ctx.count('size.' + sz_s.split()[0] + ('.neg' if n < 0 else ''))
            if sz_s != smo:
                if 0 <= n:
                    ctx.disagree(name + '.size', n, smo, sz_s)
                else:
                    ctx.count('size.neg.differs-from-model(recorded, not judged)')
            if bad:
                ctx.violation('%s.send(%d): %s' % (name, n, bad), {'type': name, 'n': n, 'impl': ie},
                              key={'op': name + '.send', 'n': n})
    # -------- truncations of encodings: every strict prefix must raise eof
    for name, T, mx, hi in types:
        for n in [0, 127, 128, 300, 2 ** 14, 2 ** 21 - 1, 2 ** 28, 2 ** 31, hi - 1] + \
                [ctx.rng.randrange(hi) for _ in range(ctx.scale(200, 3000))]:
            b = refcodec.varint(n)
            for k in range(len(b)):
                io_, v, st = impl_dec(T, b[:k])
                ctx.case((name, 'trunc', n, k))
                if not io_.startswith('err:eof'):
                    ctx.violation('%s.read on a truncated encoding does not raise EOF' % name,
                                  {'n': n, 'prefix': hx(b[:k]), 'impl': io_},
                                  key={'op': name + '.trunc', 'bytes': hx(b[:k])})


def replay(ctx, rp):
    from minecraft.networking.types import basic
    ok = True
    for v in rp.get('violations', []):
        c = v['case']
        T = basic.VarLong if c.get('type') == 'varlong' else basic.VarInt
        if 'n' in c and 'prefix' not in c:
            print(c, '->', impl_enc(T, c['n'])[0])
        else:
            from lib import unhx
            print(c, '->', impl_dec(T, unhx(c.get('bytes', c.get('prefix', '-'))))[0])
        ok = False
    return ok
