"""C08: protocol version order and derived tables.  Tie: (1) Generated/Versions.lean (live records +
live tables) with `model_eq_live` checked in the kernel; (2) correspondence of the real initglobals
and ConnectionContext predicates with the Lean model on random record lists / extension histories."""
import itertools

EXTRACT = ['versions', 'gen.c08live']
EXTRA_PROPS = ['C08Live']

RULE = ("exhaustive: all ordered pairs of the known protocol numbers through the five real predicates "
        "(oracle) and all triples over a 40-version sample for in-range; sampled pairs/triples against the "
        "model; random record lists (duplicate protocols, repeated ids, mixed supported flags, release "
        "and snapshot ids incl. trailing-newline ids) and run-time extension histories followed by "
        "re-initialisation through the real initglobals (module state saved and restored); distinct by "
        "input")


def h(s):
    return s.encode('utf-8').hex() or '-'


def tables_line(m):
    def od(d):
        return ','.join('%s:%d' % (h(k), v) for k, v in d.items()) or '-'

    def nl(l):
        return ','.join(str(x) for x in l) or '-'
    return 'ok known=%s kp=%s sv=%s idx=%s sp=%s rv=%s rp=%s' % (
        od(m.KNOWN_MINECRAFT_VERSIONS), nl(m.KNOWN_PROTOCOL_VERSIONS), od(m.SUPPORTED_MINECRAFT_VERSIONS),
        ','.join('%d:%d' % kv for kv in m.PROTOCOL_VERSION_INDICES.items()) or '-',
        nl(m.SUPPORTED_PROTOCOL_VERSIONS), od(m.RELEASE_MINECRAFT_VERSIONS), nl(m.RELEASE_PROTOCOL_VERSIONS))


def run(ctx):
    import minecraft as m
    from minecraft.networking.connection import ConnectionContext
    ctx.extra['rule'] = RULE
    rng = ctx.rng
    kp = list(m.KNOWN_PROTOCOL_VERSIONS)
    idx = dict(m.PROTOCOL_VERSION_INDICES)
    # ------------------------------------------------------------------ oracle on the live order (exhaustive)
    ctxs = {v: ConnectionContext(protocol_version=v) for v in kp}
    bad = 0
    for a in kp:
        ca = ctxs[a]
        for b in kp:
            e, ee, l, le = ca.protocol_earlier(b), ca.protocol_earlier_eq(b), ca.protocol_later(b), ca.protocol_later_eq(b)
            ok = (e == (idx[a] < idx[b]) and ee == (e or a == b) and l == ctxs[b].protocol_earlier(a)
                  and le == (not e) and (e + l + (a == b)) == 1)
            if not ok:
                bad += 1
                ctx.violation('predicates inconsistent for (%d, %d): earlier=%s earlier_eq=%s later=%s later_eq=%s'
                              % (a, b, e, ee, l, le), {'a': a, 'b': b}, key={'pair': [a, b]})
    ctx.evaluations += len(kp) ** 2
    ctx.distinct.add(b'pairs')
    ctx.count('pairs_exhaustive', len(kp) ** 2)
    if kp != sorted(kp, key=lambda v: idx[v]) or sorted(idx.values()) != list(range(len(kp))):
        ctx.violation('index map is not the position in the known list', {}, key={'kind': 'index'})
    # chronological = numeric for ordinary numbers; list order for pre-release (2^30-flagged) numbers
    ordinary = [v for v in kp if v < 2 ** 30]
    if ordinary != sorted(ordinary):
        ctx.violation('ordinary protocol numbers are not in numeric order', {}, key={'kind': 'numeric'})
    sample = rng.sample(kp, 40)
    for v, s, e in itertools.product(sample[:20], sample, sample):
        got = ctxs[v].protocol_in_range(s, e)
        ctx.evaluations += 1
        if got != (idx[s] <= idx[v] < idx[e]):
            ctx.violation('protocol_in_range(%d; %d, %d) = %s' % (v, s, e, got), {'v': v, 's': s, 'e': e},
                          key={'range': [v, s, e]})
    # transitivity on sampled triples
    for a, b, c in itertools.product(sample[:25], repeat=3):
        ctx.evaluations += 1
        if ctxs[a].protocol_earlier(b) and ctxs[b].protocol_earlier(c) and not ctxs[a].protocol_earlier(c):
            ctx.violation('earlier is not transitive', {'a': a, 'b': b, 'c': c}, key={'trans': [a, b, c]})
    # ------------------------------------------------------------------ predicates vs model (sampled, small orders)
    lines, impl = [], []
    for _ in range(ctx.scale(400, 5000)):
        n = rng.randrange(1, 12)
        order = rng.sample(kp, n)
        pool = order + [rng.choice(kp), 999999]
        a, b, c = rng.choice(pool), rng.choice(pool), rng.choice(pool)
        pred = rng.choice(['earlier', 'earlier_eq', 'later', 'later_eq', 'range'])
        saved = dict(m.PROTOCOL_VERSION_INDICES)
        m.PROTOCOL_VERSION_INDICES.clear()
        m.PROTOCOL_VERSION_INDICES.update({v: i for i, v in enumerate(order)})
        try:
            cx = ConnectionContext(protocol_version=a)
            try:
                if pred == 'range':
                    r = cx.protocol_in_range(b, c)
                else:
                    r = getattr(cx, 'protocol_' + pred)(b)
                got = 'ok %d' % r
            except KeyError:
                got = 'err:other'
        finally:
            m.PROTOCOL_VERSION_INDICES.clear()
            m.PROTOCOL_VERSION_INDICES.update(saved)
        ks = ','.join(map(str, order))
        lines.append('ver.range %s %d %d %d' % (ks, a, b, c) if pred == 'range' else 'ver.cmp %s %s %d %d' % (ks, pred, a, b))
        impl.append(got)
        ctx.case(('pred', lines[-1]), sample={'request': lines[-1], 'impl': got})
        ctx.count('pred.' + pred)
    # ------------------------------------------------------------------ initglobals on random records / extensions
    saved_recs = list(m.KNOWN_MINECRAFT_VERSION_RECORDS)
    saved_list_object = m.KNOWN_MINECRAFT_VERSION_RECORDS
    ids_pool = ['1.8', '1.8.9', '1.9', '17w13a', '1.12-pre3', '1.16.5', '20w45a', '1.18\n', '1.x', '', 'é1.2',
                '1', '1.', '1.2.3.4', '21w37a', 'Combat Test 8c', 'b1.8.1', 'a1.2.6', '3D Shareware v1.34', 'rc-1.19.2']
    try:
        for trial in range(ctx.scale(150, 2000)):
            def rec():
                return m.Version(rng.choice(ids_pool), rng.choice([4, 5, 47, 340, 757, 758, m.PRE | 1, m.PRE | 2, rng.randrange(1000)]),
                                 rng.random() < 0.5)
            recs = [rec() for _ in range(rng.randrange(0, 9))]
            steps = [recs]
            for _ in range(rng.randrange(0, 3)):
                steps.append([rec() for _ in range(rng.randrange(1, 4))])
            cur = []
            for ext in steps:
                cur = cur + ext
                if trial % 4 == 3:
                    # the attribute is REBOUND to a new list (works as well as editing the list in place)
                    m.KNOWN_MINECRAFT_VERSION_RECORDS = list(cur)
                else:
                    m.KNOWN_MINECRAFT_VERSION_RECORDS[:] = cur
                m.initglobals(use_known_records=True)
                got1 = tables_line(m)
                m.initglobals(use_known_records=True)          # idempotence
                got2 = tables_line(m)
                m.initglobals()                                 # backward-compatible mode changes nothing
                got3 = tables_line(m)
                line = 'ver.init ' + ' '.join('%s:%d:%d' % (h(r.id), r.protocol, r.supported) for r in cur)
                lines.append(line.rstrip())
                impl.append(got1)
                ctx.case(('init', line), sample={'records': [(r.id, r.protocol, r.supported) for r in cur][:6], 'impl': got1[:120]})
                ctx.count('init.records', len(cur))
                # oracle: projections, first occurrence wins, idempotent
                protos = []
                for r in cur:
                    if r.protocol not in protos:
                        protos.append(r.protocol)
                sup = {}
                for r in cur:
                    if r.supported:
                        sup[r.id] = r.protocol
                supp = []
                for v in sup.values():
                    if v not in supp:
                        supp.append(v)
                badm = None
                if list(m.KNOWN_PROTOCOL_VERSIONS) != protos or dict(m.PROTOCOL_VERSION_INDICES) != {v: i for i, v in enumerate(protos)}:
                    badm = 'known protocols / indices are not the first-occurrence projection'
                elif dict(m.SUPPORTED_MINECRAFT_VERSIONS) != sup or list(m.SUPPORTED_PROTOCOL_VERSIONS) != supp:
                    badm = 'supported tables are not the projection of the supported records'
                elif got2 != got1 or got3 != got1:
                    badm = 're-initialising is not idempotent'
                else:
                    # release tables: the supported records whose id is a dotted number (digits '.' digits ...);
                    # ids with stray line ends are left to the model comparison
                    import re as _re
                    rel = {}
                    for r in cur:
                        if r.supported and '\n' not in r.id and _re.fullmatch(r'[0-9]+(\.[0-9]+)+', r.id):
                            rel[r.id] = r.protocol
                    relp = []
                    for v in rel.values():
                        if v not in relp:
                            relp.append(v)
                    if not any('\n' in r.id for r in cur) and (
                            dict(m.RELEASE_MINECRAFT_VERSIONS) != rel or list(m.RELEASE_PROTOCOL_VERSIONS) != relp):
                        badm = 'release tables %r / %r are not the projection of the supported dotted-number ids %r' % (
                            dict(m.RELEASE_MINECRAFT_VERSIONS), list(m.RELEASE_PROTOCOL_VERSIONS), rel)
                if not badm and protos:
                    # the predicates (other modules hold their own references to the tables) must follow
                    # the rebuilt order
                    from minecraft import utility as U
                    for _ in range(6):
                        a, b = rng.choice(protos), rng.choice(protos)
                        try:
                            r = (ConnectionContext(protocol_version=a).protocol_earlier(b),
                                 U.protocol_earlier_eq(a, b))
                        except KeyError as e:
                            r = 'KeyError(%s)' % e
                        if r != (protos.index(a) < protos.index(b), protos.index(a) <= protos.index(b)):
                            badm = 'after extension and re-initialisation, earlier(%d, %d) = %r' % (a, b, r)
                if badm:
                    ctx.violation(badm, {'records': [(r.id, r.protocol, r.supported) for r in cur]},
                                  key={'records': [(r.id, r.protocol, r.supported) for r in cur]})
    finally:
        m.KNOWN_MINECRAFT_VERSION_RECORDS = saved_list_object
        m.KNOWN_MINECRAFT_VERSION_RECORDS[:] = saved_recs
        m.initglobals(use_known_records=True)
    # ---- contexts created (and used) BEFORE a rebuild must follow the rebuilt order
    try:
        base = [m.Version('a', 10, True), m.Version('b', 20, True), m.Version('c', 30, True), m.Version('d', 40, True)]
        for trial in range(ctx.scale(30, 300)):
            m.KNOWN_MINECRAFT_VERSION_RECORDS[:] = base
            m.initglobals(use_known_records=True)
            olds = {v: ConnectionContext(protocol_version=v) for v in (10, 20, 30, 40)}
            for c in olds.values():
                c.protocol_later_eq(20), c.protocol_earlier(30)          # use them once
            ins = rng.randrange(0, 5)
            newv = rng.choice([15, 25, 35, 5, 45, m.PRE | 3])
            cur = base[:ins] + [m.Version('new', newv, rng.random() < 0.5)] + base[ins:]
            m.KNOWN_MINECRAFT_VERSION_RECORDS[:] = cur
            m.initglobals(use_known_records=True)
            order = []
            for r in cur:
                if r.protocol not in order:
                    order.append(r.protocol)
            ctx.case(('stale-context', ins, newv))
            for a in (10, 20, 30, 40):
                for b in order:
                    got = (olds[a].protocol_earlier(b), olds[a].protocol_later_eq(b),
                           olds[a].protocol_in_range(order[0], b))
                    want = (order.index(a) < order.index(b), order.index(a) >= order.index(b),
                            order.index(a) < order.index(b))
                    if got != want:
                        ctx.violation('a context for %d created before inserting %d and re-initialising answers %r '
                                      'for (earlier, later_eq, in_range) against %d; the rebuilt order gives %r'
                                      % (a, newv, got, b, want), {'order': order, 'a': a, 'b': b},
                                      key={'stale-context': [a, b, newv, ins]})
    finally:
        m.KNOWN_MINECRAFT_VERSION_RECORDS[:] = saved_recs
        m.initglobals(use_known_records=True)
    for line, mo, g in zip(lines, ctx.driver.ask(lines), impl):
        if mo != g:
            ctx.disagree('versions', line[:200], mo[:300], g[:300])
    verref_tie(ctx)


def verref_tie(ctx):
    """Tie of Model/C08Live.lean (driver `verref.run real ...`) to the live code: histories of run-time edits of
    the version records / re-initialisations / context-predicate calls, each performed on module state no other
    history has touched (harness/xcheck/c08verref_xcheck.py: one forked child per history importing the library
    anew, the first few also in a genuinely new interpreter; a subprocess because the histories rebuild the
    library's tables, and so that a hang ends in a timeout).  Compared: the answers of the predicate calls, the
    seven tables of `minecraft`, utility's index map, the four tables as `connection` shows them and the `is`
    tests between the modules' objects -- against the model imported with the history's records AND against the
    model imported with the shipped records followed by `R=<recs> I1` (two requests per history).  The fixed
    histories of gen/c08live.py plus random ones; all randomness from the seed drawn here from ctx.rng."""
    import os
    import subprocess
    import sys
    import lib
    script = os.path.join(os.path.dirname(os.path.dirname(os.path.abspath(__file__))), 'xcheck', 'c08verref_xcheck.py')
    n = ctx.scale(16, 300)
    fresh = ctx.scale(1, 6)
    budget = 10
    seed = ctx.rng.getrandbits(48)
    env = dict(os.environ, PYCRAFT_REPO=lib.REPO, PYTHONDONTWRITEBYTECODE='1')
    limit = 90 + 3 * budget + n
    try:
        p = subprocess.run([sys.executable, script, str(n), str(seed), str(fresh), str(budget)], capture_output=True,
                           text=True, env=env, timeout=limit)
    except subprocess.TimeoutExpired:
        ctx.disagree('verref.run: the real-code observation script did not finish in %d s' % limit,
                     [script, n, seed], None, 'timeout')
        return
    pairs = [l.split('\t') for l in p.stdout.splitlines()]
    if p.returncode != 0 or len(pairs) < 2 * n or any(len(x) != 2 for x in pairs):
        ctx.disagree('verref.run: the real-code observation script could not run against this tree',
                     [script, n, seed], None, (p.stderr or p.stdout)[-1500:])
        return
    for k, ((req, exp), mo) in enumerate(zip(pairs, ctx.driver.ask([q for q, _ in pairs]))):
        form = 'from-import' if k % 2 else 'records'
        ops = req.split(' ')[3:]
        ctx.case(('verref.run', req), sample={'op': 'verref.run', 'ops': ' '.join(ops)[:120], 'impl': exp[:120]} if k % 2 == 0 else None)
        ctx.count('verref.' + form)
        if k % 2 == 0:
            ctx.count('verref.ops', len(ops))
            ctx.count('verref.calls', sum(o.startswith('C=') for o in ops))
        if mo != exp:
            ctx.disagree('verref.run real (%s form) vs the live modules on untouched module state' % form,
                         req if len(req) < 1500 else req[:200] + ' ... ' + req[-1200:], mo[:1500], exp[:1500])
    ctx.extra['c08verref_pairs'] = ctx.extra.get('c08verref_pairs', 0) + len(pairs)
    ctx.extra['c08verref_histories'] = ctx.extra.get('c08verref_histories', 0) + len(pairs) // 2


def replay(ctx, rp):
    for v in rp.get('violations', []):
        print(v)
    return not rp.get('violations')
