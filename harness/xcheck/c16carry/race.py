import sys
sys.path[:0] = ['/tmp/mut/C16', '/verif/harness', '/root/carry_xcheck']
import xcheck
w = xcheck.World([340], 340, True)
c = w.conn
print(w.do('c')); print(w.do('f'))
t1 = c.networking_thread
w.push(('compress', 64))
packet = c.reactor.read_packet(c.file_object, timeout=0)     # networking thread: line 637 has returned
print('in flight:', packet.packet_name)
print(w.do('d'))                                              # user thread
print(w.do('c'))                                              # user thread: successor waits for t1
c._react(packet)                                              # networking thread t1 resumes at line 642
print('after stale _react : ce=%s ct=%s reactor=%s' % (c.options.compression_enabled, c.options.compression_threshold, type(c.reactor).__name__))
print(w.do('x'))                                              # t1 leaves _run
print(w.do('f'))                                              # new thread writes the handshake
srv2 = w.server()
print('server 2 handshake parsed:', srv2.handshake, 'errors:', srv2.errors, 'frames:', srv2.frames)
w.close()
