"""Drive the REAL Connection (clean checkout /tmp/mut/C16) operation by operation and print the same
state lines as the Lean command `carry.run`; compare.

The networking thread's control flow (NetworkingThread.run / _run) is stepped by hand here, one block
per operation, calling the library's own methods for every block (`_pop_packet`, `read_packet`,
`_react`, `_handle_exception`, `_handle_exit`, `connect`, `status`, `disconnect`, `write_packet`).
"""
import sys, random, subprocess, socket as realsocket
sys.path[:0] = ['/tmp/mut/C16', '/verif/harness']
import simnet
from refserver import RefServer
import minecraft.networking.connection as C
from minecraft.networking.connection import Connection
from minecraft.networking import encryption
from minecraft.networking.packets import Packet, serverbound
from minecraft.exceptions import LoginDisconnect, VersionMismatch, InvalidState


class Other(Exception):
    def __init__(self, n):
        self.n = n


def bit(b):
    return '1' if b else '0'


def commas(l):
    return ','.join(l) if l else '-'


class World:
    def __init__(self, allowed, dflt, has_exit):
        self.next_net = ''
        self.handler = (False, '')
        self.exit_rc = None
        self.exits = []
        self.sent = []
        self.thr_sess = {}
        self.exc_sess = {}
        self.cur_thread = None
        self.status_json = None
        self.cfg_version = dflt
        w = self

        def factory(sock):
            cfg = {'version': w.cfg_version, 'script': []}
            if w.status_json is not None:
                cfg['status'] = ('json', w.status_json)
            srv = RefServer(sock, cfg)
            sock.srv = srv
            return srv
        self.net = simnet.Net(factory, refuse=lambda i: w.next_net == 'r')
        self.net.__enter__()
        C.socket.getaddrinfo = self.getaddrinfo
        self.conn = Connection('h', 25565, username='u', allowed_versions=set(allowed),
                               initial_version=dflt, handle_exit=(self.on_exit if has_exit else None),
                               handle_exception=False)
        self.conn.register_exception_handler(self.on_exc)
        self.orig_write = Packet.write

        def write(pkt, sock, compression_threshold=None):
            r = w.orig_write(pkt, sock, compression_threshold)
            w.sent.append('%s@%d:%s:%s' % (w.pname(pkt), w.sess(),
                                            'n' if compression_threshold is None else compression_threshold,
                                            'e' if isinstance(sock, encryption.EncryptedSocketWrapper) else 'p'))
            return r
        Packet.write = write

    def close(self):
        Packet.write = self.orig_write
        self.net.__exit__()

    def getaddrinfo(self, host, port, fam=0, typ=0, *a):
        if self.next_net == 'x':
            raise realsocket.gaierror(-2, 'Name or service not known')
        return [(2, 1, 6, '', (host, port))]

    def sess(self):
        return sum(1 for s in self.net.sockets if s.connected)

    def on_exit(self):
        self.exits.append(self.thr_sess[self.cur_thread])
        if self.exit_rc is not None:
            self.next_net = self.exit_rc
            self.conn.connect()

    def on_exc(self, exc, exc_info):
        if self.handler[0]:
            self.conn.connect()

    # ---------------------------------------------------------------- printing
    def pname(self, p):
        n = type(p).__name__
        if n == 'HandShakePacket':
            return 'hs%d/%d' % (p.protocol_version, p.next_state)
        return {'LoginStartPacket': 'ls', 'RequestPacket': 'rq', 'PingPacket': 'pi',
                'EncryptionResponsePacket': 'er', 'PositionAndLookPacket': 'pl'}.get(n) or \
            ('pr%d' % p.message_id if n == 'PluginResponsePacket' else
             'ka%d' % p.keep_alive_id if n == 'KeepAlivePacket' else
             'tc%d' % p.teleport_id if n == 'TeleportConfirmPacket' else
             p.message if n == 'ChatPacket' else n)

    def kind(self, e):
        if isinstance(e, Other):
            return 'o%d' % e.n
        for cls, k in ((EOFError, 'eof'), (LoginDisconnect, 'login'), (VersionMismatch, 'version'),
                       (InvalidState, 'invalid'), (ConnectionRefusedError, 'refused'),
                       (realsocket.gaierror, 'resolve'), (AttributeError, 'attr'),
                       (NotImplementedError, 'notimpl'), (OSError, 'io')):
            if isinstance(e, cls):
                return k
        return type(e).__name__

    def note_threads(self):
        c = self.conn
        for t in (c.networking_thread, c.new_networking_thread):
            if t is not None and t not in self.thr_sess:
                self.thr_sess[t] = self.sess()

    def state(self, outcome, sent_before):
        c = self.conn
        self.note_threads()
        s = c.socket
        sock = '0' if s is None else 'e' if isinstance(s, encryption.EncryptedSocketWrapper) else \
            ('p' if s.connected else 'u')
        f = c.file_object
        if f is None:
            file = '0'
        elif isinstance(f, encryption.EncryptedFileObjectWrapper):
            file = 'ce' if f.actual_file_object.closed else 'e'
        else:
            file = 'cp' if f.closed else 'p'
        q = getattr(c, '_outgoing_packet_queue', None)
        qs = 'x' if q is None else commas([self.pname(p) for p in q])
        sp = getattr(c, 'spawned', None)
        r = c.reactor
        re_ = {'PacketReactor': 'base', 'LoginReactor': 'login', 'PlayingReactor': 'play',
               'PlayingStatusReactor': 'pstatus'}.get(type(r).__name__) or 'status' + bit(r.do_ping)
        e = c.exception
        exc = '-' if e is None else '%d:%s' % (self.exc_sess[id(e)], self.kind(e))

        def thr(t):
            return '-' if t is None else '%s@%d' % (bit(t.interrupt), self.thr_sess[t])
        return ('%s ce=%s ct=%d sock=%s file=%s q=%s conn=%s sp=%s re=%s exc=%s pv=%d al=%s nt=%s new=%s '
                'sess=%d exits=%s sent=%s') % (
            outcome, bit(c.options.compression_enabled), c.options.compression_threshold, sock, file, qs,
            bit(c.connected), 'x' if sp is None else bit(sp), re_, exc, c.context.protocol_version,
            commas([str(p) for p in sorted(c.allowed_proto_versions)]), thr(c.networking_thread),
            thr(c.new_networking_thread), self.sess(), commas([str(x) for x in self.exits]),
            commas(self.sent[sent_before:]))

    # ---------------------------------------------------------------- thread blocks
    def epilogue(self):
        c = self.conn
        with c._write_lock:
            c.networking_thread = None            # finally (610-611)
        n = c.new_networking_thread
        if n is not None:                         # prologue of the successor (598-603)
            with c._write_lock:
                c.networking_thread = n
                c.new_networking_thread = None

    def end_by_error(self, t, exc_thunk, h):
        c = self.conn
        self.handler = (h[0], h[1])
        self.next_net = h[1]
        self.cur_thread = t
        before = c.exception
        try:
            exc_thunk()
        except Exception as e:
            t.interrupt = True
            self.note_threads()
            try:
                c._handle_exception(e, sys.exc_info())
            except Exception:
                pass
            if c.exception is not before and c.exception is not None:
                self.exc_sess[id(c.exception)] = self.thr_sess[t]
                self.keep = getattr(self, 'keep', []) + [c.exception]
        finally:
            self.note_threads()
            self.epilogue()

    def arm_fail(self, k):
        s = self.conn.socket
        if s is None or k is None:
            return lambda: None
        base = getattr(s, 'actual_socket', s)
        orig = base.send
        cnt = [0]

        def send(data):
            if cnt[0] == 2 * k:
                raise BrokenPipeError(32, 'Broken pipe')
            cnt[0] += 1
            return orig(data)
        base.send = send

        def restore():
            base.send = orig
        return restore

    def server(self):
        s = self.conn.socket
        base = getattr(s, 'actual_socket', s)
        return base.srv

    def push(self, step):
        srv = self.server()
        srv.script = [step]
        srv.run_script()

    # ---------------------------------------------------------------- operations
    def do(self, tok):
        c = self.conn
        sent_before = len(self.sent)
        self.handler = (False, '')
        self.exit_rc = None
        out = 'ok'
        h, body = (False, ''), tok
        # split a handler suffix
        for i, ch in enumerate(tok):
            if i > 0 and ch in '+-' and not (tok[0] in 'zr' and i == 1):
                body, h = tok[:i], (ch == '+', tok[i + 1:])
                break
        k = tok[0]
        t = c.networking_thread
        if k == 'c':
            self.next_net = tok[1:]
            try:
                c.connect()
            except Exception as e:
                out = 'exc:' + self.kind(e)
        elif k == 's':
            self.next_net = tok[2:]
            try:
                c.status(handle_status=lambda d: None,
                         handle_ping=(lambda ms: None) if tok[1] == '1' else False)
            except Exception as e:
                out = 'exc:' + self.kind(e)
        elif k == 'w':
            try:
                c.write_packet(serverbound.play.ChatPacket(message='u' + tok[1:]))
            except Exception as e:
                out = 'exc:' + self.kind(e)
        elif k == 'd':
            fail = int(tok[2:]) if tok[1:2] == '!' else None
            restore = self.arm_fail(fail)
            c.disconnect(immediate=(tok == 'di'))
            restore()
        elif k == 'f':
            if t is None or t.interrupt:
                out = 'skip'
            else:
                a, _, b = tok[1:].partition('!')
                n = int(a) if a else 300
                restore = self.arm_fail(int(b) if b else None)
                with c._write_lock:
                    try:
                        num = 0
                        while not t.interrupt and num < n and c._pop_packet():     # 619-622 (budget first)
                            num += 1
                    except IOError:
                        out = 'exc:io'
                restore()
        elif k == 'E':
            if t is None:
                out = 'skip'
            else:
                kind = body[1:]
                exc = {'eof': EOFError('x'), 'io': OSError(5, 'x'), 'login': LoginDisconnect('x'),
                       'version': VersionMismatch('x'), 'attr': AttributeError('x')}.get(kind) or Other(int(kind[1:]))

                def thunk():
                    raise exc
                self.end_by_error(t, thunk, h)
                out = 'exc:' + kind
        elif k == 'x':
            if t is None or not t.interrupt:
                out = 'skip'
            else:
                self.cur_thread = t
                if tok[1:2] == '+':
                    self.exit_rc = tok[2:]
                raised = []

                def thunk():
                    try:
                        c._handle_exit()
                    except Exception as e:
                        raised.append(e)
                        raise
                    raise StopIteration      # marker: normal return
                try:
                    c._handle_exit()
                    self.note_threads()
                    self.epilogue()
                except Exception as e:
                    out = 'exc:' + self.kind(e)
                    self.end_by_error(t, lambda: (_ for _ in ()).throw(e), (False, ''))
        else:       # incoming packet
            if t is None or t.interrupt:
                out = 'skip'
            else:
                pv = c.context.protocol_version
                re_ = type(c.reactor).__name__
                arg = body[1:]
                restore = lambda: None
                if k == 'z':
                    self.push(('compress', int(arg)) if re_ == 'LoginReactor' else ('play_compress', int(arg)))
                elif k == 'e':
                    self.push(('encrypt', '-', b'tokn'))
                elif k == 'l':
                    self.push(('success',))
                elif k == 'g':
                    self.push(('plugin', int(arg), 'a:b', b''))
                elif k == 'k':
                    self.push(('keepalive', int(arg)))
                elif k == 'p':
                    self.push(('poslook', 1.0, 2.0, 3.0, 0.0, 0.0, 0, int(arg)))
                elif k == 'D':
                    if re_ == 'LoginReactor':
                        self.push(('disconnect', '{"text":"no"}'))
                    else:
                        self.push(('play_disconnect', '{"text":"bye"}'))
                        restore = self.arm_fail(int(arg[1:]) if arg[:1] == '!' else None)
                elif k == 'r':
                    # the response is already in the inbox (the server answers the request at once)
                    net = arg.lstrip('-0123456789')
                    self.next_net = net
                elif k == 'o':
                    pass
                elif k == 'u':
                    self.push(('raw', 0x7e, b''))
                try:
                    packet = c.reactor.read_packet(c.file_object, timeout=0)
                except Exception as e:
                    raise AssertionError('read_packet raised %r (another packet was pending)' % e)
                assert packet, 'nothing to read for ' + tok
                want = {'z': 'set compression', 'e': 'encryption request', 'l': 'login success',
                        'g': 'login plugin request', 'k': 'keep alive', 'p': 'player position and look',
                        'D': 'disconnect', 'r': 'response', 'o': 'ping'}.get(k)
                assert want is None or packet.packet_name == want, \
                    'read %r instead of %r' % (packet.packet_name, want)
                try:
                    c._react(packet)
                    restore()
                except Exception as e:
                    restore()
                    out = 'exc:' + self.kind(e)
                    nn = self.next_net
                    self.end_by_error(t, lambda: (_ for _ in ()).throw(e), h if (h[0] or h[1]) else (False, nn if k == 'r' else ''))
        ep = sum(1 for e in self.net.log if e[0] == 'epipe')
        assert ep == getattr(self, 'epipes', 0), 'the scripted server had closed: unplanned EPIPE'
        return self.state(out, sent_before)


def real_trace(allowed, dflt, has_exit, toks, status_json=None, version=None):
    w = World(allowed, dflt, has_exit)
    w.status_json = status_json
    if version is not None:
        w.cfg_version = version
    try:
        return [w.do(t) for t in toks]
    finally:
        w.close()


def lean_traces(lines):
    p = subprocess.run(['lake', 'env', 'lean', '--run', '/root/carry_xcheck/Run.lean'], cwd='/root/lean_carry',
                       input='\n'.join(lines) + '\n', capture_output=True, text=True)
    assert p.returncode == 0, p.stderr
    return p.stdout.splitlines()


# ---------------------------------------------------------------- random feasible histories
def gen(rng, allowed, dflt, srv_version):
    """A history that the scripted server can actually play.  Tracks just enough (mirrors nothing of
    the model's fields that are under test: only which packets may be sent now)."""
    toks = []
    st = {'reactor': None, 'live': False, 'flushed': False, 'enc': False, 'one': len(allowed) == 1,
          'intr': False, 'thread': False, 'pinged': False, 'pv': max(allowed)}

    def start(net, kind):
        if net == '':
            st.update(reactor=kind, live=True, flushed=False, enc=False, intr=False, thread=True, pinged=False)

    for _ in range(rng.randint(4, 22)):
        opts = []
        if not st['live']:
            opts += ['connect'] * 4 + ['status', 'write', 'disc']
            if st['thread']:
                opts += ['exit'] * 4
        else:
            opts += ['flush'] * 3 + ['write', 'disc', 'error', 'badconnect']
            if st['flushed']:
                opts += ['recv'] * 6
        o = rng.choice(opts)
        if o == 'connect':
            net = rng.choice(['', '', '', 'r', 'x'])
            toks.append('c' + net)
            if net == '':
                if st['thread']:
                    toks.append('x')       # let the interrupted predecessor finish first
                start(net, 'login' if st['one'] else 'pstatus')
        elif o == 'badconnect':
            toks.append('c')
        elif o == 'status':
            ping = rng.choice('01')
            net = rng.choice(['', '', 'r'])
            toks.append('s' + ping + net)
            start(net, 'status' + ping)
        elif o == 'write':
            if toks and not (st['reactor'] == 'login' and st['live']):
                toks.append('w%d' % rng.randint(0, 9))
        elif o == 'disc':
            toks.append(rng.choice(['d', 'd', 'di', 'd!0', 'd!1']))
            if st['live']:
                st['live'] = False
                st['intr'] = True
        elif o == 'flush':
            tok = rng.choice(['f', 'f', 'f', 'f1', 'f2', 'f!0', 'f3!1'])
            # a failing write makes the conversation unusable for the scripted server: end the session
            toks.append(tok)
            if '!' in tok:
                toks.append('Eio' + rng.choice(['', '+', '+r']))
                ended(st, toks[-1], start)
            elif tok in ('f', 'f2') or st['flushed']:
                st['flushed'] = True
            elif tok == 'f1':
                pass
        elif o == 'error':
            toks.append('E' + rng.choice(['eof', 'io', 'o7', 'login']) + rng.choice(['', '', '+', '+r', '+x']))
            ended(st, toks[-1], start)
        elif o == 'exit':
            rc = rng.choice(['x', 'x', 'x', 'x+', 'x+r'])
            toks.append(rc)
            st['thread'] = False
            if rc == 'x+':
                pass   # (only reconnects when the callback runs; tracked conservatively below)
            # after an exit we do not know cheaply whether a successor runs: stop generating recv
            st['live'] = False
            return toks + tail(rng)
        elif o == 'recv':
            r = st['reactor']
            if r == 'login':
                c = ['z%d' % rng.choice([0, 1, 64, 256, 70000]), 'l', 'D' + rng.choice(['', '+', '+r'])]
                if not st['enc']:
                    c.append('e')
                if st['pv'] >= 385:
                    c.append('g%d' % rng.randint(0, 5))
                p = rng.choice(c)
                toks.append(p)
                if p == 'e':
                    st['enc'] = True
                elif p == 'l':
                    st['reactor'] = 'play'
                elif p[0] == 'D':
                    ended(st, p, start)
            elif r == 'play':
                c = ['k%d' % rng.randint(0, 99), 'p%d' % rng.randint(0, 9), 'D', 'D', 'u']
                if st['pv'] <= 47:
                    c.append('z%d' % rng.choice([0, 64, 300]))
                p = rng.choice(c)
                toks.append(p)
                if p[0] == 'D':
                    st['live'] = False
                    st['intr'] = True
            elif r == 'pstatus':
                net = rng.choice(['', '', '', 'r'])
                p = 'r%d%s' % (srv_version, net)
                toks.append(p)
                if srv_version in allowed:
                    st['one'] = True
                    st['pv'] = srv_version
                    if net == '':
                        # the old thread is interrupted; a successor waits: finish the old thread
                        toks.append('x')
                        start('', 'login')
                    else:
                        st['live'] = False
                        st['thread'] = False
                else:
                    st['live'] = False
                    st['thread'] = False
            elif r in ('status0', 'status1'):
                if not st['pinged']:
                    toks.append('r%d' % srv_version)
                    if r == 'status0':
                        st['live'] = False
                        st['intr'] = True
                    else:
                        st['pinged'] = True
                        st['flushed'] = False
                else:
                    toks.append('o')
                    st['live'] = False
                    st['intr'] = True
    return toks


def ended(st, tok, start):
    """the session ended by an error; did a handler start a successor?"""
    st['live'] = False
    st['thread'] = False
    if tok.endswith('+'):
        start('', 'login' if st['one'] else 'pstatus')


def tail(rng):
    return rng.choice([[], ['c', 'f'], ['c', 'f', 'l', 'D', 'x'], ['di', 'c']])


FIXED = [
    ([340], 340, 340, 'c f z64 Eeof+ f'),
    ([47], 47, 47, 'c f Elogin c f l D x'),
    ([340], 340, 340, 'c f z64 e l k5 p3 w1 f D x c f'),
    ([340], 340, 340, 'c f z256 e l k5 di c f e l p1 Eio+ f z0 l D x+ f'),
    ([47], 47, 47, 'c f l z64 k1 f D c x f l'),
    ([340], 340, 340, 'w1 d c w2 di cr w3 d c f'),
    ([340], 340, 340, 'c f D+ f l k1 D x'),
    ([340], 340, 340, 'c f Eo1+r c f Eo2+x c f l D x'),
    ([340, 47], 340, 340, 'c f r340 x f l D x'),
    ([340, 47], 340, 340, 'c f Eeof f l D x'),
    ([340, 47], 340, 340, 'c f Eeof-r c f l D x'),
    ([340], 340, 340, 's1 f r340 f o x c f'),
    ([340], 340, 340, 's0 f r340 x s0r c f l w3 w4 d!1 x'),
    ([340], 340, 340, 'c f l w1 w2 w3 f2!1 D x'),
    ([340], 340, 340, 'c f z64 l D x+ f z1 l D x+r'),
]


STATS = dict(ops=0, skip=0, sess=0, ce=0, enc=0, exc=0, exits=0)

def main():
    n = int(sys.argv[1]) if len(sys.argv) > 1 else 200
    seed = int(sys.argv[2]) if len(sys.argv) > 2 else 1
    rng = random.Random(seed)
    cases = list(FIXED)
    for _ in range(n):
        allowed, dflt = rng.choice([([340], 340), ([47], 47), ([404], 404), ([340, 47], 340), ([754, 340, 47], 754)])
        srv_version = rng.choice(allowed)
        cases.append((allowed, dflt, srv_version, ' '.join(gen(rng, allowed, dflt, srv_version))))
    lines = ['carry.run real allowed=%s dflt=%d exit=1 %s' % (','.join(map(str, sorted(a))), d, t) for a, d, v, t in cases]
    lean = lean_traces(lines)
    bad = 0
    crashed = 0
    for (a, d, v, t), ll in zip(cases, lean):
        try:
            real = real_trace(a, d, True, t.split(), version=v)
        except AssertionError as e:
            crashed += 1
            if '-v' in sys.argv:
                print('INFEASIBLE', a, t, e)
            continue
        want = 'ok ' + ' | '.join(real)
        STATS['ops'] += len(real); STATS['skip'] += sum(1 for r in real if r.startswith('skip'))
        STATS['sess'] += int(real[-1].split('sess=')[1].split()[0]) if real else 0
        STATS['ce'] += sum(1 for r in real if ' ce=1' in r); STATS['enc'] += sum(1 for r in real if 'sock=e' in r)
        STATS['exc'] += sum(1 for r in real if r.startswith('exc')); STATS['exits'] += sum(1 for r in real[-1:] if 'exits=-' not in r)
        if want != ll:
            bad += 1
            print('MISMATCH allowed=%s dflt=%d server=%d : %s' % (a, d, v, t))
            rs, ls = real, ll[3:].split(' | ')
            for i, (x, y) in enumerate(zip(rs, ls)):
                if x != y:
                    print('  op %d (%s)\n    real: %s\n    lean: %s' % (i, t.split()[i], x, y))
                    break
    print(STATS)
    print('cases=%d infeasible=%d mismatches=%d' % (len(cases), crashed, bad))


if __name__ == '__main__':
    main()
