"""End-to-end: the REAL NetworkingThread.run() (simnet.run_threads), scripted servers; final state vs the model."""
import sys, subprocess
sys.path[:0] = ['/tmp/mut/C16', '/verif/harness']
import simnet
from refserver import RefServer
from minecraft.networking.connection import Connection
from minecraft.networking import encryption
sys.path.insert(0, '/root/carry_xcheck')

def run(scripts, reconnect_in_handler, user_reconnects=0, version=340):
    made = []
    def factory(sock):
        cfg = {'version': version, 'script': list(scripts[len(made)])}
        srv = RefServer(sock, cfg); made.append(srv); return srv
    exits = []
    with simnet.Net(factory) as net:
        c = Connection('h', 25565, username='u', allowed_versions={version}, handle_exit=lambda: exits.append(len(made)),
                       handle_exception=False)
        if reconnect_in_handler:
            c.register_exception_handler(lambda e, ei: c.connect() if len(made) < len(scripts) else None)
        else:
            c.register_exception_handler(lambda e, ei: None)
        c.connect()
        net.run_threads()
        for _ in range(user_reconnects):
            c.connect()
            net.run_threads()
        s = c.socket
        sock = '0' if s is None else 'e' if isinstance(s, encryption.EncryptedSocketWrapper) else 'p'
        return dict(ce=c.options.compression_enabled, ct=c.options.compression_threshold, sock=sock,
                    q=[type(p).__name__ for p in c._outgoing_packet_queue], conn=c.connected, sp=c.spawned,
                    re=type(c.reactor).__name__, exc=type(c.exception).__name__, exits=exits,
                    frames=[[(f[0], f[1], f[3], f[4]) for f in m.frames] for m in made],
                    errors=[m.errors for m in made], stops=[k for _, k in net.stops])

print('A', run([[('compress', 64), ('encrypt', '-', b'tokn'), ('close',)], [('success',), ('keepalive', 7)]], True))
print('B', run([[('disconnect', '{"text":"no"}')], [('compress', 1), ('success',), ('play_disconnect', '{"text":"bye"}')]], False, 1))
