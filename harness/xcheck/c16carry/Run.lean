import PyCraft.Drive.C16Carry
open PyCraft PyCraft.Drive
partial def loop (h : IO.FS.Stream) (out : IO.FS.Stream) : IO Unit := do
  let line ← h.getLine
  if line.isEmpty then return ()
  let toks := (line.trimAscii.toString.splitOn " ").filter (· ≠ "")
  out.putStrLn ((c16carry toks).getD "bad-op")
  loop h out
def main : IO Unit := do
  let out ← IO.getStdout
  loop (← IO.getStdin) out
  out.flush
