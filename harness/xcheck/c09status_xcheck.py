# SUPERSEDED: this comparison now runs inside `./check` (corr/c09.py statusx_tie), through the driver binary and seeded from ctx.rng.
# The stand-alone version below is kept for reference only: it depends on scratch files under /tmp and on a Lean main that no longer exists.
"""Cross-check of PyCraft/Drive/C09Status.lean against the real code (read-only on /repo).
usage: PYTHONPATH=/repo /venv/bin/python xcheck.py [N]   (prints disagreements; exit 0 iff none)"""
import sys, json, math, random, subprocess, types, builtins
sys.path.insert(0, '/repo'); sys.path.insert(0, '/verif/harness')
import refcodec as rc, simnet
import minecraft
import minecraft.networking.connection as C
from minecraft.exceptions import VersionMismatch

N = int(sys.argv[1]) if len(sys.argv) > 1 else 400
rng = random.Random(20260927)
SUP = list(minecraft.SUPPORTED_PROTOCOL_VERSIONS)
KNOWN_NAMES = dict(minecraft.KNOWN_MINECRAFT_VERSIONS)

def hx(s):
    return s.encode('utf-8').hex() or '-'

def clist(xs):
    xs = list(xs)
    return ','.join(str(x) for x in xs) if xs else '-'

# ------------------------------------------------------------------ JSON values
def toks(v):
    if v is None: return ['n']
    if v is True: return ['t']
    if v is False: return ['f']
    if isinstance(v, int): return ['i%d' % v]
    if isinstance(v, float):
        if math.isnan(v): return ['Fn']
        if math.isinf(v): return ['Fx']
        return ['Fi%d' % int(v)] if v == int(v) else ['Ff']
    if isinstance(v, str): return ['s' + hx(v)]
    if isinstance(v, list):
        return ['a%d' % len(v)] + [t for x in v for t in toks(x)]
    if isinstance(v, dict):
        return ['o%d' % len(v)] + [t for k, x in v.items() for t in [hx(k)] + toks(x)]
    raise TypeError(v)

def atom(v):
    if isinstance(v, list): return 'a'
    if isinstance(v, dict): return 'o'
    return toks(v)[0]

def strings_in(v, out):
    if isinstance(v, str): out.add(v)
    elif isinstance(v, list):
        for x in v: strings_in(x, out)
    elif isinstance(v, dict):
        for k, x in v.items():
            out.add(k); strings_in(x, out)

def gen_scalar(allowed):
    return rng.choice([None, True, False, 0, 1, -3, rng.choice(allowed), rng.choice(SUP), 99999, 2 ** 40,
                       float(rng.choice(allowed)), float(rng.choice(SUP)), 5.5, float('nan'), float('inf'), float('-inf'),
                       1e300, -0.0, '47', '', 'protocol', 'version', 'xx'])

def gen_any(allowed, depth=2):
    r = rng.random()
    if depth == 0 or r < 0.5:
        return gen_scalar(allowed)
    if r < 0.75:
        return [gen_any(allowed, depth - 1) for _ in range(rng.randrange(0, 3))] + rng.choice([[], ['version'], ['protocol']])
    return {rng.choice(['a', 'name', 'protocol', 'version', 'q']): gen_any(allowed, depth - 1) for _ in range(rng.randrange(0, 3))}

def gen_name(allowed):
    return rng.choice([None, '1.8.9', '1.12.2', 'zzz', rng.choice(list(KNOWN_NAMES)), 7, True, 2.5, [1, 2], {'a': 1}, {}, []])

def gen_version(allowed):
    r = rng.random()
    if r < 0.7:
        d = {}
        if rng.random() < 0.85:
            d['protocol'] = gen_any(allowed, 1) if rng.random() < 0.3 else gen_scalar(allowed)
            if rng.random() < 0.4:
                d['protocol'] = rng.choice([rng.choice(allowed), rng.choice(SUP), None, None])
        if rng.random() < 0.6:
            d['name'] = gen_name(allowed)
        if rng.random() < 0.3:
            d['z'] = 1
        items = list(d.items()); rng.shuffle(items)
        return dict(items)
    if r < 0.8:
        return rng.choice([[], ['protocol'], ['x', 'protocol'], [['protocol']], [1]])
    if r < 0.9:
        return rng.choice(['', 'protocol', 'xprotocolx', 'proto', 'x'])
    return gen_scalar(allowed)

def gen_status(allowed):
    r = rng.random()
    if r < 0.7:
        d = {}
        if rng.random() < 0.85:
            d['version'] = gen_version(allowed)
        if rng.random() < 0.5:
            d['description'] = 'x'
        items = list(d.items()); rng.shuffle(items)
        return dict(items)
    if r < 0.8:
        return rng.choice([[], ['version'], ['a', 'version'], [['version']], [1, None]])
    if r < 0.9:
        return rng.choice(['', 'version', 'xversionx', 'versio', 'x'])
    return gen_any(allowed)

def err_name(e):
    for cls, nm in ((TypeError, 'type'), (ValueError, 'value'), (OverflowError, 'other'), (KeyError, 'other'), (AttributeError, 'other')):
        if isinstance(e, cls):
            return nm
    return 'UNEXPECTED:' + type(e).__name__

def lean_msg_expressible(sp, sv):
    return (sp is None or type(sp) in (int, bool)) and (sv is None or isinstance(sv, str))

def real_eval(allowed, default, kind, status):
    conn = C.Connection('h', 1, username='u', allowed_versions=set(allowed), initial_version=default)
    calls, hf = [], []
    conn.connect = lambda: calls.append(set(conn.allowed_proto_versions))
    conn.disconnect = lambda immediate=False: None
    r = C.PlayingStatusReactor(conn)
    orig = r.handle_failure
    def hfail():
        hf.append(1)
        return orig()
    r.handle_failure = hfail
    exc = None
    if kind == 'json':
        try:
            r.handle_status(status)
        except Exception as e:
            exc = e
    elif kind == 'closed':
        exc = EOFError('Unexpected end of message.')
    elif kind == 'ioerror':
        exc = ConnectionResetError(104, 'Connection reset by peer')
    else:
        try:
            json.loads('{bad')
        except Exception as e:
            exc = e
    if exc is not None:
        # Connection._handle_exception l.505: the reactor's handler first
        if r.handle_exception(exc, None):
            exc = None
    if exc is None:
        (s,) = calls
        (v,) = s
        if type(v) is float:
            return 'ok connectfloat %d' % int(v)
        return 'ok connect %d fb=%d' % (int(v), bool(hf))
    if isinstance(exc, VersionMismatch):
        sp, sv = exc.server_protocol, exc.server_version
        msg = str(exc).encode().hex() if lean_msg_expressible(sp, sv) else '?'
        return 'ok raised mismatch %s %s supported=%d msg=%s' % (atom(sp), atom(sv), 'not supported' not in str(exc), msg)
    if isinstance(exc, EOFError):
        return 'ok raised eof'
    if isinstance(exc, json.JSONDecodeError):
        return 'ok raised json'
    if isinstance(exc, IOError) and 'Invalid server status' in str(exc):
        return 'ok raised invalid'
    if isinstance(exc, OSError):
        return 'ok raised os'
    return 'ok raised py:' + err_name(exc)

lines, want = [], []
kinds = {}
for i in range(N):
    allowed = rng.sample(SUP, rng.randrange(2, 5))
    default = rng.choice(allowed + [rng.choice(SUP)])
    kind = rng.choice(['json'] * 12 + ['closed', 'ioerror', 'badjson'])
    status = gen_status(allowed) if kind == 'json' else None
    got = real_eval(allowed, default, kind, status)
    names = set()
    strings_in(status, names)
    kn = ','.join('%s:%d' % (hx(k), KNOWN_NAMES[k]) for k in sorted(names) if k in KNOWN_NAMES) or '-'
    line = 'negx.eval sp=%s kn=%s allowed=%s default=%d test=eof reply=%s' % (clist(SUP), kn, clist(allowed), default, kind)
    if kind == 'json':
        line += ' ' + ' '.join(toks(status))
    lines.append(line); want.append((got, repr(status)))
    k = ' '.join(got.split()[1:3]) if 'raised' in got else got.split()[1]
    kinds[k] = kinds.get(k, 0) + 1

# ------------------------------------------------------------------ plain status query on the simnet
class PushServer:
    """sends a fixed sequence of clientbound status-state frames as soon as the client connects"""
    def __init__(self, sock, frames):
        self.sock = sock
        for f in frames:
            sock.inbox.feed(f)
    def on_bytes(self, data):
        pass

def frame(pid, body):
    return rc.frame(rc.varint(pid) + body, None)

slines, swant = [], []
saved_timeit = C.timeit
real_print = builtins.print
for i in range(N):
    hs = rng.choice('dcx'); hp = rng.choice('dcx'); ex = rng.choice([0, 1])
    n = rng.randrange(0, 7)
    clock = sorted(rng.randrange(0, 10 ** 6) for _ in range(8)) if rng.random() < 0.8 else [rng.randrange(0, 10 ** 6) for _ in range(8)]
    items, frames, objs = [], [], {}
    for j in range(n):
        r = rng.random()
        if r < 0.35:
            text = json.dumps({'n': j, 'description': rng.choice(['a', 'b'])})
            items.append('r:' + hx(text)); frames.append(frame(0, rc.string(text)))
        elif r < 0.45:
            items.append('b'); frames.append(frame(0, rc.string('{bad')))
        elif r < 0.75:
            t = rng.choice(clock + [0, -5, 2 ** 62, rng.randrange(0, 10 ** 6)])
            items.append('p:%d' % t); frames.append(frame(1, t.to_bytes(8, 'big', signed=True)))
        else:
            items.append('o'); frames.append(frame(rng.choice([2, 5, 0x7f]), b'\x01\x02'))
    it = iter(clock)
    C.timeit = types.SimpleNamespace(default_timer=lambda: next(it) / 1000.0 + 0.0004)
    log = []
    printed = []
    try:
        with simnet.Net(lambda s: PushServer(s, frames)) as net:
            conn = C.Connection('h', 25565, handle_exception=lambda e, info: log.append('exc:' + err_name(e)),
                                handle_exit=(lambda: log.append('exit')) if ex else None)
            user_s = lambda d: log.append(('status', 'U', d))
            user_p = lambda ms: log.append('latency:U:%d' % ms)
            kw = {}
            if hs != 'd': kw['handle_status'] = user_s if hs == 'c' else False
            if hp != 'd': kw['handle_ping'] = user_p if hp == 'c' else False
            if hp == 'd': kw['handle_ping'] = None
            conn.status(**kw)
            # instrument what the reactor will call, without replacing any of it
            def who(fn, user):
                if fn is user: return 'U'
                if getattr(fn, '__func__', None) in (C.StatusReactor.handle_status, C.StatusReactor.handle_ping): return 'P'
                return 'N' if getattr(fn, '__name__', '') == '<lambda>' else '?'
            os_, op_ = conn.reactor.handle_status, conn.reactor.handle_ping
            ws, wp = who(os_, user_s), who(op_, user_p)
            def wrap_s(d):
                if ws != 'U': log.append(('status', ws, d))
                np_ = len(printed); res = os_(d)
                if ws == 'P' and (len(printed) != np_ + 1 or printed[-1] != (d,)): log.append('PRINT-MISSING')
                if ws == 'N' and len(printed) != np_: log.append('NOOP-PRINTED')
                return res
            def wrap_p(ms):
                if wp != 'U': log.append('latency:%s:%d' % (wp, ms))
                np_ = len(printed); res = op_(ms)
                if wp == 'P' and (len(printed) != np_ + 1 or printed[-1] != ('Ping: %d ms' % ms,)): log.append('PRINT-MISSING')
                return res
            conn.reactor.handle_status, conn.reactor.handle_ping = wrap_s, wrap_p
            real_wp, real_dc = conn.write_packet, conn.disconnect
            def wp_(packet, force=False):
                if packet.packet_name == 'ping': log.append('ping:%d' % packet.time)
                return real_wp(packet, force)
            def dc_(immediate=False):
                log.append('discimm' if immediate else 'disc')
                return real_dc(immediate)
            conn.write_packet, conn.disconnect = wp_, dc_
            builtins.print = lambda *a, **k: printed.append(a)
            try:
                net.run_threads()
            finally:
                builtins.print = real_print
            ended = int(not net.stops)
            connected = int(conn.connected)
            thread_errors = list(net.thread_errors)
    finally:
        C.timeit = saved_timeit
    acts = []
    for a in log:
        if isinstance(a, tuple):
            text = json.dumps(a[2])
            acts.append('status:%s:%s' % (a[1], hx(text)))
        else:
            acts.append(a)
    err = '-'
    for a in acts:
        if a.startswith('exc:'): err = a[4:]
    swant.append('ok acts=%s connected=%d ended=%d err=%s' % (','.join(acts) or '-', connected, ended, err))
    slines.append('statusx.run hs=%s hp=%s exit=%d script=%s clock=%s' % (hs, hp, ex, ','.join(items) or '-', clist(clock)))
    if thread_errors:
        swant[-1] += ' THREAD-ERRORS %r' % thread_errors

out = subprocess.run(['lake', 'env', 'lean', '--run', '/tmp/mut/c09status_run.lean'], cwd='/verif/lean',
                     input='\n'.join(lines + slines) + '\n', capture_output=True, text=True)
res = out.stdout.split('\n')
bad = 0
for line, (g, st), mo in zip(lines, want, res[:len(lines)]):
    if mo != g:
        bad += 1
        if bad < 15: print('DISAGREE negx\n  status', st, '\n  line', line[-200:], '\n  lean', mo[:200], '\n  real', g[:200])
for line, g, mo in zip(slines, swant, res[len(lines):]):
    if mo != g:
        bad += 1
        if bad < 15: print('DISAGREE statusx\n  line', line, '\n  lean', mo, '\n  real', g)
print('negx outcome classes:', kinds)
print('cases', len(lines), '+', len(slines), 'disagreements', bad, out.stderr[:300])
sys.exit(1 if bad else 0)
