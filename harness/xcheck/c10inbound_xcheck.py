# SUPERSEDED: this comparison now runs inside `./check` (corr/c10.py inbound_tie), through the driver binary and seeded from ctx.rng.
# The stand-alone version below is kept for reference only: it depends on scratch files under /tmp and on a Lean main that no longer exists.
"""Cross-check of the Lean inbound login model against the REAL pyCraft client (read-only on /repo).
For each case: an independent reference server produces the login byte stream; the real client's
read loop (read_packet on connection.file_object + _react, exactly the two calls of
NetworkingThread._run) consumes it over a socketpair; the same bytes and tick list are given to the
Lean model through the driver command c10in.read; the two observations are compared.  c10in.wire is
compared with the reference server's bytes."""
import os, socket, subprocess, sys, zlib, json, select
sys.path.insert(0, '/repo')
sys.dont_write_bytecode = True
from cryptography.hazmat.primitives.asymmetric import rsa
from cryptography.hazmat.primitives import serialization
from cryptography.hazmat.primitives.ciphers import Cipher, algorithms, modes
from cryptography.hazmat.backends import default_backend
import minecraft
from minecraft.networking import connection as conn_mod, encryption
from minecraft.networking.connection import Connection, LoginReactor, PlayingReactor
from minecraft.exceptions import LoginDisconnect, VersionMismatch

KEY = rsa.generate_private_key(public_exponent=65537, key_size=1024, backend=default_backend())
PUB = KEY.public_key().public_bytes(serialization.Encoding.DER,
                                    serialization.PublicFormat.SubjectPublicKeyInfo)

def varint(n):
    out = b''
    while True:
        b = n & 0x7f
        n >>= 7
        if n:
            out += bytes([b | 0x80])
        else:
            return out + bytes([b])

def s(x):
    b = x.encode('utf-8')
    return varint(len(b)) + b

def arr(b):
    return varint(len(b)) + b

def ids(ver):
    known = list(minecraft.KNOWN_PROTOCOL_VERSIONS)
    i = known.index(ver)
    ge = lambda v: i >= known.index(v)
    if ge(391):
        return dict(disc=0, enc=1, succ=2, comp=3, plug=4, uuid=ge(707))
    if ge(385):
        return dict(disc=1, enc=2, succ=3, comp=4, plug=0, uuid=False)
    return dict(disc=0, enc=1, succ=2, comp=3, plug=None, uuid=False)

def fields(I, p):
    k = p[0]
    if k == 'enc':
        return I['enc'], s(p[1]) + arr(p[2]) + arr(p[3])
    if k == 'comp':
        return I['comp'], varint(p[1])
    if k == 'plug':
        return I['plug'], varint(p[1]) + s(p[2]) + p[3]
    if k == 'succ':
        u = p[1] if isinstance(p[1], bytes) else s(p[1])
        return I['succ'], u + s(p[2])
    if k == 'disc':
        return I['disc'], s(p[1])
    if k == 'unk':
        return p[1], p[2]
    raise ValueError(k)

def frame(thr, pid, fl):
    payload = varint(pid) + fl
    if thr is not None:
        if len(payload) > thr:
            payload = varint(len(payload)) + zlib.compress(payload)
        else:
            payload = varint(0) + payload
    return varint(len(payload)) + payload

def stream(I, secret, thr, script):
    if not script:
        return b''
    p = script[0]
    pid, fl = fields(I, p)
    fr = frame(thr, pid, fl)
    thr2 = p[1] if p[0] == 'comp' else thr
    tail = stream(I, secret, thr2, script[1:])
    if p[0] == 'enc':
        tail = Cipher(algorithms.AES(secret), modes.CFB8(secret), backend=default_backend()).encryptor().update(tail)
    return fr + tail

def hx(b):
    return b.hex() if b else '-'

def tok(p):
    k = p[0]
    if k == 'enc':
        return 'enc:%s:%s:%s' % (hx(p[1].encode()), hx(p[2]), hx(p[3]))
    if k == 'comp':
        return 'comp:%d' % p[1]
    if k == 'plug':
        return 'plug:%d:%s:%s' % (p[1], hx(p[2].encode()), hx(p[3]))
    if k == 'succ':
        if isinstance(p[1], bytes):
            return 'succ:b:%s:%s' % (hx(p[1]), hx(p[2].encode()))
        return 'succ:s:%s:%s' % (hx(p[1].encode()), hx(p[2].encode()))
    if k == 'disc':
        return 'disc:%s' % hx(p[1].encode())
    if k == 'unk':
        return 'unk:%d:%s' % (p[1], hx(p[2]))

def real_client(ver, secret, wire, ticks, close):
    encryption.generate_shared_secret = lambda: secret
    c = Connection('localhost', 25565, username='u', initial_version=ver)
    c.context.protocol_version = ver
    a, b = socket.socketpair()
    c.socket = a
    c.file_object = a.makefile('rb', 0)
    c.options.compression_enabled = False
    import collections
    c._outgoing_packet_queue = collections.deque()
    c.reactor = LoginReactor(c)
    b.sendall(wire)
    if close:
        b.shutdown(socket.SHUT_WR)
    seen, ioerr, err = [], 'none', 'none'
    dead = False
    for t in ticks:
        if dead:
            break
        try:
            if t == 'f':
                with c._write_lock:
                    while c._pop_packet():
                        pass
            else:
                if not isinstance(c.reactor, LoginReactor):
                    continue           # the model stops interpreting in play state
                pkt = c.reactor.read_packet(c.file_object, timeout=0.3)
                if pkt is None:
                    ioerr = 'notready'
                    dead = True
                    continue
                name = pkt.packet_name
                if name == 'encryption request':
                    seen.append('enc:%s:%s:%s' % (hx(pkt.server_id.encode()), hx(pkt.public_key), hx(pkt.verify_token)))
                elif name == 'set compression':
                    seen.append('comp:%d' % pkt.threshold)
                elif name == 'login plugin request':
                    seen.append('plug:%d:%s:%s' % (pkt.message_id, hx(pkt.channel.encode()), hx(pkt.data)))
                elif name == 'login success':
                    seen.append('succ')
                elif name == 'disconnect':
                    seen.append('disc:%s' % hx(pkt.json_data.encode()))
                try:
                    c._react(pkt)
                except LoginDisconnect as e:
                    err = 'login'
                    dead = True
                except VersionMismatch as e:
                    err = 'mismatch:%s' % hx(str(e.server_version).encode())
                    dead = True
        except Exception as e:
            m = {EOFError: 'eof', zlib.error: 'zlib', AssertionError: 'assertion',
                 UnicodeDecodeError: 'decode'}
            import struct
            m[struct.error] = 'struct'
            ioerr = m.get(type(e)) or ('toolong' if 'too long' in str(e) else 'value' if isinstance(e, ValueError) else type(e).__name__)
            dead = True
    # layers
    fo, layers = c.file_object, 0
    while isinstance(fo, encryption.EncryptedFileObjectWrapper):
        layers += 1
        fo = fo.actual_file_object
    a.setblocking(False)
    rest = b''
    try:
        while True:
            d = a.recv(65536)
            if not d:
                break
            rest += d
    except BlockingIOError:
        pass
    state = 'play' if isinstance(c.reactor, PlayingReactor) else 'login'
    thr = str(c.options.compression_threshold) if c.options.compression_enabled else 'none'
    enc = 1 if isinstance(c.socket, encryption.EncryptedSocketWrapper) else 0
    a.close(); b.close()
    return dict(seen=','.join(seen) or '-', state=state, thr=thr, enc=str(enc), layers=str(layers),
                ioerr=ioerr, err=err, rest=hx(rest))

def lean(lines):
    p = subprocess.run(['lake', 'env', 'lean', '--run', '/tmp/c10in/drv.lean'], cwd='/verif/lean',
                       input='\n'.join(lines) + '\n', capture_output=True, text=True)
    if p.returncode != 0:
        print(p.stderr); raise SystemExit(1)
    return p.stdout.strip().split('\n')

def parse(reply):
    d = {}
    for t in reply.split(' ')[1:]:
        k, _, v = t.partition('=')
        d[k] = v
    return d

UU = bytes(range(16))
CASES = []
def case(ver, script, ticks, close=True, secret=bytes(range(1, 17)), texts=()):
    CASES.append((ver, script, ticks, close, secret, texts))

enc = ('enc', 'srv', PUB, b'\x01\x02\x03\x04')
encoff = ('enc', '-', PUB, b'\x09')
for ver in (47, 340, 385, 390, 391, 706, 707, 757):
    I = ids(ver)
    succ = ('succ', UU if I['uuid'] else '0123-uuid', 'bob')
    plug = [('plug', 300, 'ch:a', b'\x01\x02')] if I['plug'] is not None else []
    for thr in (256, 2 ** 31 - 1):
        case(ver, [enc, ('comp', 64)] + plug + [succ, ('unk', 0x26, b'\x01\x02')], 'frrrrrf')
        case(ver, [('comp', thr)] + plug + [encoff] + plug + [succ], 'frfrfrfrfrf')
        case(ver, plug + [encoff, ('comp', thr), ('disc', '{"text": "Outdated server! I\'m still on 1.8.9"}')], 'frrrrf',
             texts=[('{"text": "Outdated server! I\'m still on 1.8.9"}', "Outdated server! I'm still on 1.8.9")])
    case(ver, [enc, ('unk', 0x55, b'zz'), ('disc', '{"text": "no"}')], 'frrrf', texts=[('{"text": "no"}', 'no')])
    case(ver, [succ], 'frf')
    case(ver, [enc, ('comp', 100)], 'frrrf')            # server closes mid-login: EOF
    case(ver, [enc, encoff, succ], 'rrrf')               # two encryption requests: nested wrappers
    case(ver, [('comp', 300), enc, ('comp', 70), succ], 'rfrrrf')

lines, meta = [], []
for ver, script, ticks, close, secret, texts in CASES:
    I = ids(ver)
    w = stream(I, secret, None, script)
    cb = 'cb=%d,%d,%d,%d,%s' % (I['disc'], I['enc'], I['succ'], I['comp'], '-' if I['plug'] is None else I['plug'])
    uu = 'uuid=%d' % (1 if I['uuid'] else 0)
    lines.append('c10in.wire %s %s secret=%s %s' % (cb, uu, hx(secret), ' '.join(tok(p) for p in script)))
    tx = ' '.join('%s=%s' % (hx(j.encode()), hx(t.encode())) for j, t in texts)
    lines.append('c10in.read %s %s token=0 secret=%s ticks=%s segs=%s %s' % (cb, uu, hx(secret), ticks, hx(w), tx))
    meta.append((ver, script, ticks, close, secret, w))
out = lean(lines)
bad = 0
for i, (ver, script, ticks, close, secret, w) in enumerate(meta):
    lw, lr = out[2 * i], out[2 * i + 1]
    if lw != 'ok wire=%s' % hx(w):
        bad += 1
        print('WIRE MISMATCH', ver, [p[0] for p in script], '\n  lean', lw[:200], '\n  ref ', hx(w)[:200])
    real = real_client(ver, secret, w, ticks, close)
    L = parse(lr)
    lerr = L['err'].split(':')[0] if L['err'].startswith('login') else L['err']
    cmp = dict(seen=L['seen'], state=L['state'], thr=L['thr'], enc=L['enc'], layers=L['layers'],
               ioerr=L['ioerr'], err=lerr, rest=L['rest'])
    if cmp != real:
        bad += 1
        print('READ MISMATCH', ver, [p[0] for p in script], ticks)
        for k in cmp:
            if cmp[k] != real[k]:
                print('   ', k, 'lean', cmp[k][:160], '| real', real[k][:160])
print('cases', len(meta), 'mismatches', bad)
print('example request :', lines[1][:400])
print('example reply   :', out[1][:600])
