import sys, io, random, subprocess
sys.path.insert(0,'/tmp/fix1/repo_clean')
from fractions import Fraction
from minecraft.networking.types import basic as B
rng=random.Random(12345)
BASES=[('u8',B.UnsignedByte,1),('i8',B.Byte,1),('i16',B.Short,2),('u16',B.UnsignedShort,2),('i32',B.Integer,4),('i64',B.Long,8),('u64',B.UnsignedLong,8)]
lines=[];want=[]
def add(name,cls,bits,data):
    lines.append('c02x.fixed.read %s %d %s'%(name,bits,data.hex() or '-'))
    f=io.BytesIO(data)
    try:
        fr=Fraction(cls and B.FixedPoint(cls,bits).read(f))
        want.append((fr,f.read().hex() or '-'))
    except Exception as e:
        want.append(type(e).__name__)
add('i64',B.Long,0,bytes.fromhex('0020000000000001'))
for _ in range(4000):
    if rng.random()<0.75:
        name,cls,w=rng.choice(BASES[5:])
    else:
        name,cls,w=rng.choice(BASES)
    bits=rng.choice([0,1,3,5,12,20,52,53,60,63,64,100,1000,1021,1022,1023,1024,1060,1070,1074,1075,1076,1080,1100,1130,1137,1138,1139,1140,1200,rng.randrange(0,1300)])
    k=rng.random()
    if k<0.4:
        v=rng.getrandbits(8*w)
    elif k<0.7: # ties / near ties
        hi=rng.getrandbits(53)|(1<<52)
        sh=rng.randrange(0,12)
        v=((hi<<sh) + rng.choice([0,1<<(sh-1) if sh else 0, (1<<(sh-1))+1 if sh else 1, (1<<(sh-1))-1 if sh else 0, 1, -1]))&((1<<8*w)-1)
        if rng.random()<0.5: v=(-v)&((1<<8*w)-1)
    else:
        v=rng.choice([0,1,(1<<8*w)-1,1<<(8*w-1),(1<<(8*w-1))-1,(1<<53)+1,(1<<53)+3,(1<<54)+2,(1<<54)+6, rng.getrandbits(rng.randrange(1,8*w+1))])&((1<<8*w)-1)
    data=v.to_bytes(w,'big')+bytes(rng.getrandbits(8) for _ in range(rng.choice([0,0,1,2])))
    if rng.random()<0.03: data=data[:w-1]
    add(name,cls,bits,data)
drv=sys.argv[1]
out=subprocess.run([drv],input='\n'.join(lines)+'\n',capture_output=True,text=True).stdout.splitlines()
assert len(out)==len(lines),(len(out),len(lines))
bad=0;n64=0;inexact=0
for l,o,w in zip(lines,out,want):
    if isinstance(w,str):
        ok = o.startswith('err:')
    else:
        t=o.split()
        ok = len(t)==4 and t[0]=='ok' and Fraction(int(t[1]),int(t[2]))==w[0] and t[3]==w[1]
        p=l.split()
        if p[1] in('i64','u64'):
            n64+=1
            raw=int.from_bytes(bytes.fromhex(p[3])[:8],'big',signed=p[1]=='i64')
            if Fraction(raw,2**int(p[2]))!=w[0]: inexact+=1
    if not ok:
        bad+=1
        if bad<10: print('DISAGREE',l,o,w)
print('cases',len(lines),'64-bit',n64,'inexact(real float != exact fraction)',inexact,'disagreements',bad)
print(lines[0],'->',out[0])
