# SUPERSEDED: this comparison now runs inside `./check` (corr/c15.py thread_tie), through the driver binary and seeded from ctx.rng.
# The stand-alone version below is kept for reference only: it depends on scratch files under /tmp and on a Lean main that no longer exists.
"""Cross-check of the Lean model `C15Thread.runThread` (driver command `c15thread.run`,
lean/PyCraft/Drive/C15Thread.lean) against the REAL `NetworkingThread.run` of /repo, run synchronously
on a real `Connection` whose socket / file object are stubs fed with a reference server's byte stream
(login with set-compression, encryption request, login success, play packets; status response; play
disconnect) cut at EVERY byte offset k, in three segmentations.  Compared per case: ids of the packets
handed to listeners, how the thread ended (EOFError reported / swallowed + fallback connect(340) /
LoginDisconnect / clean exit), number of read() calls on the raw file object, number of them that
returned b'', reactor class and compression flag at the end.  Read-only with respect to /repo.

Run:  cd /tmp && /venv/bin/python /verif/harness/xcheck/c15thread_xcheck.py      (prints `cases N mismatches 0`)
Until `Drive.c15thread` is wired into Driver.lean the script drives the model through an ad-hoc
`main` written to a temporary file and run with `lake env lean --run`."""
import sys, io, zlib, struct, subprocess, json, os, tempfile
sys.dont_write_bytecode = True
sys.path.insert(0, '/repo')
sys.path.insert(0, '/verif/harness')
import minecraft.networking.connection as C
import minecraft.networking.encryption as ENC
from minecraft.networking import packets as P
from cryptography.hazmat.primitives.ciphers import Cipher, algorithms, modes
from cryptography.hazmat.backends import default_backend
import rsakeys

DRIVE_MAIN = r'''import PyCraft.Drive.C15Thread
open PyCraft PyCraft.Drive

partial def loop (h : IO.FS.Stream) (out : IO.FS.Stream) : IO Unit := do
  let line ← h.getLine
  if line.isEmpty then return ()
  let toks := (line.trimAscii.toString.splitOn " ").filter (· ≠ "")
  out.putStrLn ((c15thread toks).getD "bad-op")
  loop h out

def main : IO Unit := do
  let out ← IO.getStdout
  loop (← IO.getStdin) out
  out.flush
'''

SECRET = bytes(range(16))
ENC.generate_shared_secret = lambda: SECRET
C.select.select = lambda r, w, x, timeout=None: (list(r), [], [])

def varint(n):
    out = bytearray()
    while True:
        b = n & 0x7F; n >>= 7
        out.append(b | (0x80 if n else 0))
        if not n: return bytes(out)

def string(s):
    b = s.encode(); return varint(len(b)) + b

def arr(b): return varint(len(b)) + b

class SegFile(object):
    def __init__(self, segs):
        self.segs = [bytearray(s) for s in segs]; self.reads = 0; self.empties = 0
    def read(self, n=-1):
        self.reads += 1
        while self.segs and not self.segs[0]:
            self.segs.pop(0)
        if not self.segs or n == 0:
            self.empties += 1 if n != 0 else 0
            if n == 0: self.empties += 1
            return b''
        seg = self.segs[0]
        out = bytes(seg[:n]); del seg[:n]
        return out
    def close(self): pass

class StubSock(object):
    def __init__(self): self.sent = b''
    def send(self, d): self.sent += bytes(d); return len(d)
    def shutdown(self, how): pass
    def close(self): pass
    def fileno(self): return 0

def server_wire(script):
    """script: list of (id, fields, effect) ; effect in None,'sc:<t>','enc' ; returns wire, zmap, ids"""
    thr = None; enc = None; wire = b''; zmap = []
    for pid, fields, eff in script:
        payload = varint(pid) + fields
        if thr is None:
            body = payload
        elif thr >= 0 and len(payload) > thr:   # mimic a vanilla server: compress at >= thr; use > like pyCraft's writer, irrelevant for the reader
            comp = zlib.compress(payload)
            zmap.append((comp, payload))
            body = varint(len(payload)) + comp
        else:
            body = varint(0) + payload
        frame = varint(len(body)) + body
        if enc is not None:
            frame = enc.update(frame)
        wire += frame
        if eff and eff.startswith('sc:'):
            thr = int(eff[3:])
        elif eff == 'enc':
            enc = Cipher(algorithms.AES(SECRET), modes.CFB8(SECRET), backend=default_backend()).encryptor()
    return wire, zmap

def real_run(kind, segs):
    allowed = {757, 756} if kind in ('pstatus',) else {757}
    events = []
    conn = C.Connection('h', 1, username='u', allowed_versions=allowed, initial_version=340 if len(allowed) > 1 else None,
                        handle_exception=lambda e, i: events.append(('exc', type(e).__name__)),
                        handle_exit=lambda: events.append(('exit',)))
    conn.context.protocol_version = 757
    delivered = []
    conn.register_packet_listener(lambda p: delivered.append(p), P.Packet)
    conn.socket = StubSock(); f = SegFile(segs); conn.file_object = f; conn.connected = True
    conn._outgoing_packet_queue = __import__('collections').deque()
    conn.options.compression_enabled = False; conn.options.compression_threshold = -1
    calls = []
    if kind == 'login': conn.reactor = C.LoginReactor(conn)
    elif kind == 'play': conn.reactor = C.PlayingReactor(conn)
    elif kind == 'pstatus':
        conn.reactor = C.PlayingStatusReactor(conn)
        def fake_connect():
            calls.append(sorted(conn.allowed_proto_versions))
        conn.connect = fake_connect
    elif kind == 'status':
        conn.reactor = C.StatusReactor(conn, do_ping=False)
        conn.reactor.handle_status = lambda d: events.append(('status',))
    t = C.NetworkingThread(conn); conn.networking_thread = t
    t.run()
    ids = [getattr(p, 'id', None) if not hasattr(p, 'get_id') or type(p) is P.Packet else p.get_id(conn.context) for p in delivered]
    return dict(ids=ids, events=events, reads=f.reads, empties=f.empties, kind=type(conn.reactor).__name__,
                comp=conn.options.compression_enabled, calls=calls)

KN = {'LoginReactor': 'login', 'PlayingReactor': 'play', 'PlayingStatusReactor': 'pstatus', 'StatusReactor': 'status'}

def lean_line(kind, segs, zmap, neg=757):
    zm = 'zmap=' + (','.join('%s:%s' % (c.hex(), p.hex()) for c, p in zmap) if zmap else '-')
    return 'c15thread.run %s sc=3 enc=1 ok=2 dc=0 pdc=26 neg=%d key=%s %s %s' % (
        kind, neg, SECRET.hex(), zm, ' '.join(s.hex() if s else '-' for s in segs))

def main():
    der = rsakeys.RSA_1024['der']
    login = [
        (4, varint(7) + string('ch') + b'xyz', None),
        (3, varint(8), 'sc:8'),
        (0x7E, b'abcdefghijklmnop', None),          # unknown id in login state, above the threshold
        (4, varint(9) + string('c') , None),
        (1, string('-') + arr(der) + arr(b'tokn'), 'enc'),
        (4, varint(1) + string('d') + b'q', None),
        (2, bytes(16) + string('u'), None),
        (0x7E, b'abcdef', None),
        (0x7D, b'0123456789abcdefXYZ', None),
    ]
    status = [(0, string(json.dumps({'version': {'name': 'x', 'protocol': 757}})), None)]
    play = [(0x7E, b'abc', None), (0x1A, string('{"text":"bye"}'), None), (0x7E, b'zzz', None)]
    cases = []
    for name, kind, script in (('login', 'login', login), ('pstatus', 'pstatus', status), ('status', 'status', status), ('play', 'play', play)):
        wire, zmap = server_wire(script)
        for k in range(len(wire) + 1):
            for segm in ('one', 'bytes', 'three'):
                cut = wire[:k]
                if segm == 'one': segs = [cut]
                elif segm == 'bytes':
                    if k % 5: continue
                    segs = [cut[i:i+1] for i in range(len(cut))]
                else:
                    if k % 7: continue
                    a = k // 3
                    segs = [cut[:a], b'', cut[a:2*a+1], cut[2*a+1:]]
                cases.append((name, kind, k, segm, segs, zmap))
    lines = [lean_line(kind, segs, zmap) for (_, kind, _, _, segs, zmap) in cases]
    with tempfile.NamedTemporaryFile('w', suffix='.lean', delete=False) as tf:
        tf.write(DRIVE_MAIN)
    proc = subprocess.run(['lake', 'env', 'lean', '--run', tf.name], cwd='/verif/lean',
                          input='\n'.join(lines) + '\n', capture_output=True, text=True)
    os.unlink(tf.name)
    outs = proc.stdout.strip().split('\n')
    assert len(outs) == len(cases), (len(outs), len(cases), proc.stderr[:500])
    bad = 0
    for (name, kind, k, segm, segs, zmap), out in zip(cases, outs):
        r = real_run(kind, segs)
        # parse lean
        toks = out.split()
        assert toks[0] == 'ok', out
        kv = dict(t.split('=', 1) for t in toks if '=' in t and ':' not in t.split('=')[0])
        lids = [int(t.split(':')[0]) for t in toks[1:] if '=' not in t]
        end = kv['end']
        # real ending
        excs = [e for e in r['events'] if e[0] == 'exc']
        if end == 'interrupted':
            real_end_ok = (not excs) and ('exit',) in r['events']
        elif end.startswith('negotiated'):
            real_end_ok = (not excs) and r['calls'] == [[int(end.split(':')[1])]]
        elif end == 'eof':
            if kind == 'pstatus':
                real_end_ok = (not excs) and r['calls'] == [[340]]      # swallowed + fallback
            else:
                real_end_ok = excs == [('exc', 'EOFError')]
        elif end == 'other':
            real_end_ok = len(excs) == 1 and excs[0][1] not in ('EOFError',)
        else:
            real_end_ok = False
        ok = (lids == r['ids'] and real_end_ok and int(kv['reads']) == r['reads'] and int(kv['eofreads']) == r['empties']
              and kv['kind'] == KN[r['kind']] and (kv['comp'] == '1') == bool(r['comp']))
        if not ok:
            bad += 1
            if bad < 10:
                print('MISMATCH', name, k, segm, '\n  lean:', out, '\n  real:', r)
    print('cases', len(cases), 'mismatches', bad)

main()
