"""Real-code observations for the driver commands `keys.run`, `kstack`, `kchan`
(lean/PyCraft/Drive/C18Keys.lean).

usage:  /venv/bin/python harness/xcheck/c18keys_xcheck.py <N> <seed>
prints `request<TAB>expected reply` lines: N `keys.run` scenarios, then N `kstack` stacks (each stack of
depth 1 also as `kchan`); corr/c18.py (`keys_tie`) feeds the requests to the driver binary.  All randomness
comes from <seed>.

Runs as a SUBPROCESS because it replaces `os.urandom` (process-wide) and
`minecraft.networking.encryption.generate_verification_hash` while a scenario runs (both restored in
`finally`), and so that a hang of the code under test ends in the caller's timeout.

keys.run, real side: a `Connection` object whose socket / file object are recorders, `os.urandom` replaced
by a table of draws (call i of the process returns draws[i]; `n0` calls are deemed made before), the REAL
`LoginReactor` fed random login scripts (0-3 encryption requests under 1024/2048-bit keys, set-compression,
plugin requests, login disconnect, success) in the schedule `schedule cap` (flush, up to cap reads, flush,
..., last flush; the run stops at the first exception, as the networking thread does).  Observed: every
chunk handed to the real socket's `send` in call order, the number of `os.urandom` calls, the `join`
arguments, the reactor class, the exception, and the secrets recovered from the encryption responses with
the RAW RSA private-key operation (the `keys=` field: what the key holder gets must be the installed key).
The RSA ciphertexts the real code produced (random padding) are handed to the model as its `rsa=` table.

kstack / kchan, real side: the real wrapper classes stacked 0-3 deep around recorders, random
send / recv / read calls (a recv / read asks for at least as much as the real socket / raw file returns, often
more: one call must consume exactly one returned chunk); a secret of a length other than 16 must make
`create_AES_cipher` raise ValueError.

Every stub has a budget (number of sends, of urandom calls, of queue pops): code that keeps calling ends in
an observation `spin:...`, never in a hang.  Exceptions of the code under test become `raised:<Type>`.
"""
import collections
import json
import os
import random
import re
import sys
import warnings

warnings.simplefilter('ignore')
sys.dont_write_bytecode = True
HERE = os.path.dirname(os.path.abspath(__file__))
sys.path.insert(0, os.path.dirname(HERE))
sys.path.insert(0, os.environ.get('PYCRAFT_REPO', '/repo'))
import rsakeys                                                        # noqa: E402
import minecraft                                                      # noqa: E402
from minecraft.networking import encryption                           # noqa: E402
from minecraft.networking import connection as C                      # noqa: E402
from minecraft.networking.packets import clientbound, serverbound     # noqa: E402

REAL_URANDOM = os.urandom
SEND_BUDGET = 400
DRAW_BUDGET = 64
POP_BUDGET = 400


class Spin(BaseException):
    """the code under test keeps calling a stub: ends the scenario with an observation"""


class RawSock(object):
    def __init__(self):
        self.sent, self.inq = [], []

    def send(self, d):
        if len(self.sent) >= SEND_BUDGET:
            raise Spin('send')
        self.sent.append(bytes(d))
        return len(d)

    def recv(self, n):
        return self.inq.pop(0)          # IndexError when the code reads more often than it was fed

    def fileno(self):
        return -1

    def shutdown(self, *a, **k):
        pass

    def close(self):
        pass


class RawFile(object):
    def __init__(self):
        self.inq = []

    def read(self, n):
        return self.inq.pop(0)

    def fileno(self):
        return -1

    def close(self):
        pass


class Tok(object):
    def __init__(self):
        self.joins = []

    def join(self, h):
        self.joins.append(h)


def hx(b):
    b = bytes(b)
    return b.hex() if b else '-'


def clean(s):
    return re.sub(r'\s', '_', str(s))


DISC = ['{"text":"bye"}', '{"text":""}', '{"text":5}', '{"text":null}', '{"tex":"x"}', 'not json', '[1]', '"str"', '{}',
        '{"text":"Outdated client! Please use 1.12.2"}', '{"text":"Outdated server! I\'m still on 1.8.9"}',
        '{"text":"Outdated client! Please use 9.9"}', '{"text":"Outdated client!  Please use 1.9"}',
        'Outdated server! I\'m still on 1.16.4', '{"text":"Outdated client! Please use 1.9 "}', '{"text":"J\\u00fcrgen"}',
        '{"text":"Outdated client! Please use 1.9\\n"}', '{"text":"Outdated client! Please use 1.9\\n\\n"}',
        '{"text":"xOutdated client! Please use 1.9"}', '{"text":"Outdated client! Please use 1.9 2"}']


def scenario(rnd, protos):
    proto = rnd.choice([47, 340, 385, 390, 391, 578, 754]) if rnd.random() < 0.5 else rnd.choice(protos)
    n0 = rnd.randrange(0, 4)
    draws = [bytes(rnd.randrange(256) for _ in range(16)) for _ in range(n0 + 4)]
    if rnd.random() < 0.1:
        draws[n0] = rnd.choice([bytes(16), b'\xff' * 16, bytes(range(16))])
    nreq = rnd.choice([0, 1, 1, 1, 2, 2, 3])
    evs = []
    for i in range(nreq):
        sid = rnd.choice(['-', '-', 'srv', '', 'a-b', '--', 'J\xfcrgen'])
        key = rnd.choice([rsakeys.RSA_1024, rsakeys.RSA_2048])
        tok = bytes([i + 1]) + bytes(rnd.randrange(256) for _ in range(rnd.randrange(0, 8)))
        evs.append(('enc', sid, key, tok))
    has_plug = C.ConnectionContext(protocol_version=proto).protocol_later_eq(385)
    for i in range(rnd.randrange(0, 4)):
        if has_plug:
            evs.append(('plug', rnd.randrange(0, 400), 'ch', bytes(rnd.randrange(256) for _ in range(rnd.randrange(0, 4)))))
    for i in range(rnd.randrange(0, 3)):
        evs.append(('comp', rnd.choice([-1, 1000, 5000])))
    rnd.shuffle(evs)
    k = rnd.random()
    if k < 0.6:
        evs.insert(rnd.randrange(len(evs) + 1) if rnd.random() < 0.3 else len(evs), ('succ',))
    elif k < 0.8:
        evs.insert(rnd.randrange(len(evs) + 1) if rnd.random() < 0.4 else len(evs), ('disc', rnd.choice(DISC)))
    cap = rnd.choice([0, 1, 1, 2, 3, 50])
    return proto, n0, draws, evs, cap, rnd.random() < 0.5


def run_real(proto, n0, draws, evs, cap, has_tok):
    """-> (conn, raw socket, urandom call sizes, [(ct_secret, ct_token)], joins, err)"""
    conn = C.Connection('localhost', 1, initial_version=proto)
    conn.context.protocol_version = proto
    raw, rawf = RawSock(), RawFile()
    conn.socket, conn.file_object = raw, rawf
    tok = Tok() if has_tok else None
    conn.auth_token = tok
    conn.options.compression_enabled = False
    conn.options.compression_threshold = -1
    conn.reactor = C.LoginReactor(conn)
    conn._outgoing_packet_queue = collections.deque()
    calls, rsa = [], []

    def fake(n):
        if len(calls) >= DRAW_BUDGET:
            raise Spin('urandom')
        calls.append(n)
        i = n0 + len(calls) - 1
        d = draws[i] if i < len(draws) else bytes(16)      # the model's oracle: zero bytes beyond the list
        return (d + bytes(n))[:n]

    conn.register_packet_listener(lambda p: rsa.append((bytes(p.shared_secret), bytes(p.verify_token))),
                                  serverbound.login.EncryptionResponsePacket, outgoing=True)
    old_hash = encryption.generate_verification_hash
    encryption.generate_verification_hash = lambda sid, sec, pk: '%s.%s.%s' % (hx(sid.encode('utf-8')), hx(sec), hx(pk))
    os.urandom = fake
    err = 'none'
    try:
        def flush():
            for _ in range(POP_BUDGET):
                if not conn._pop_packet():
                    return
            raise Spin('pop')

        def mk(e):
            if e[0] == 'enc':
                p = clientbound.login.EncryptionRequestPacket()
                p.server_id, p.public_key, p.verify_token = e[1], e[2]['der'], e[3]
            elif e[0] == 'plug':
                p = clientbound.login.PluginRequestPacket()
                p.message_id, p.channel, p.data = e[1], e[2], e[3]
            elif e[0] == 'comp':
                p = clientbound.login.SetCompressionPacket()
                p.threshold = e[1]
            elif e[0] == 'disc':
                p = clientbound.login.DisconnectPacket()
                p.json_data = e[1]
            else:
                p = clientbound.login.LoginSuccessPacket()
            p.context = conn.context
            return p
        try:
            i = 0
            while True:                                   # bounded: i grows in every round
                flush()
                if i >= len(evs):
                    break
                k = 0
                while i < len(evs) and k < max(cap, 1):
                    if type(conn.reactor).__name__ == 'LoginReactor':
                        conn._react(mk(evs[i]))
                    i += 1
                    k += 1
        except Spin as e:
            err = 'spin:%s' % e.args[0]
        except Exception as e:
            n = type(e).__name__
            if n == 'VersionMismatch':
                err = 'mismatch:%s' % hx(str(getattr(e, 'server_version', None)).encode('utf-8'))
            elif n == 'LoginDisconnect':
                msg, pre, suf = str(e), 'The server rejected our login attempt with: "', '".'
                err = 'login:%s' % hx(msg[len(pre):len(msg) - len(suf)].encode('utf-8')) \
                    if msg.startswith(pre) and msg.endswith(suf) else 'login?%s' % clean(msg)[:80]
            else:
                err = 'raised:%s' % n
    finally:
        os.urandom = REAL_URANDOM
        encryption.generate_verification_hash = old_hash
    return conn, raw, calls, rsa, (tok.joins if tok is not None else []), err


def disc_tok(j):
    try:
        t = json.loads(j)['text']
        tx = hx(t.encode('utf-8')) if isinstance(t, str) else '!'
    except (ValueError, TypeError, KeyError):
        tx = '~'
    return 'disc:%s:%s' % (hx(j.encode('utf-8')), tx)


def reached_requests(evs):
    out = []
    for e in evs:
        if e[0] in ('succ', 'disc'):
            break
        if e[0] == 'enc':
            out.append(e)
    return out


def keys_case(rnd, protos):
    sc = scenario(rnd, protos)
    proto, n0, draws, evs, cap, has_tok = sc
    conn, raw, calls, rsa, joins, err = run_real(*sc)
    reqs = reached_requests(evs)
    try:
        encid = serverbound.login.EncryptionResponsePacket.get_id(conn.context)
        plugid = serverbound.login.PluginResponsePacket.get_id(conn.context) \
            if conn.context.protocol_later_eq(385) else 99
    except Exception as e:
        encid, plugid, err = 1, 99, 'raised-id:%s' % type(e).__name__
    toks, table = [], []
    for e in evs:
        if e[0] == 'enc':
            toks.append('enc:%s:%s:%s' % (hx(e[1].encode('utf-8')), hx(e[2]['der']), hx(e[3])))
        elif e[0] == 'plug':
            toks.append('plug:%d:%s:%s' % (e[1], hx(e[2].encode('utf-8')), hx(e[3])))
        elif e[0] == 'comp':
            toks.append('comp:%d' % e[1])
        elif e[0] == 'disc':
            toks.append(disc_tok(e[1]))
        else:
            toks.append('succ')
    # the k-th reached request used draw n0+k: the model's RSA is the table message -> what the real code sent
    for k, (ct_secret, ct_tok) in enumerate(rsa[:len(reqs)]):
        table.append('%s:%s' % (hx(draws[n0 + k]), hx(ct_secret)))
        table.append('%s:%s' % (hx(reqs[k][3]), hx(ct_tok)))
    line = 'keys.run encid=%d plugid=%d token=%d n0=%d draws=%s rsa=%s cap=%d %s' % (
        encid, plugid, 1 if has_tok else 0, n0, ','.join(hx(d) for d in draws),
        ','.join(table) if table else '-', cap, ' '.join(toks))
    # independent recovery of the secrets the key holder gets: raw RSA + EME parse
    keys = []
    for k, (cs, ct) in enumerate(rsa):
        try:
            K = reqs[k][2]
            klen = (K['n'].bit_length() + 7) // 8
            em = pow(int.from_bytes(cs, 'big'), K['d'], K['n']).to_bytes(klen, 'big')
            z = em.index(0, 2)
            if len(cs) != klen or em[0] != 0 or em[1] != 2 or z < 10:
                raise ValueError('padding')
            keys.append(hx(em[z + 1:]))
        except Exception as e:
            keys.append('?%s' % type(e).__name__)
    state = {'LoginReactor': 'login', 'PlayingReactor': 'play'}.get(type(conn.reactor).__name__, type(conn.reactor).__name__)
    want = 'ok wire=%s keys=%s ndraws=%d joins=%s state=%s err=%s' % (
        ','.join(hx(c) for c in raw.sent) or '-', ','.join(keys) or '-', n0 + len(calls),
        ','.join(clean(j) for j in joins) or '-', state, err)
    if any(c != 16 for c in calls):
        want += ' !urandom-sizes=%s' % ','.join(map(str, calls))
    return line, want


def stack_case(rnd):
    depth = rnd.choice([0, 1, 1, 2, 2, 3])
    secrets = [bytes(rnd.randrange(256) for _ in range(16)) for _ in range(depth)]
    if depth and rnd.random() < 0.12:
        secrets[rnd.randrange(depth)] = bytes(rnd.randrange(256) for _ in range(rnd.choice([0, 1, 15, 17, 24, 32])))
    elif depth and rnd.random() < 0.1:
        secrets[rnd.randrange(depth)] = rnd.choice([bytes(16), b'\xff' * 16])
    raw, rawf = RawSock(), RawFile()
    sock, fo = raw, rawf
    ops, outs, exp = [], [], None
    try:
        for s in secrets:
            ci = encryption.create_AES_cipher(s)
            e, d = ci.encryptor(), ci.decryptor()
            sock = encryption.EncryptedSocketWrapper(sock, e, d)
            fo = encryption.EncryptedFileObjectWrapper(fo, d)
    except ValueError:
        exp = 'err:value'
    except Exception as e:
        exp = 'raised:%s' % type(e).__name__
    for _ in range(rnd.randrange(1, 9)):
        kind = rnd.choice('srf')
        data = bytes(rnd.randrange(256) for _ in range(rnd.choice([0, 1, 15, 16, 17, rnd.randrange(0, 20), rnd.randrange(0, 70)])))
        ops.append('%s:%s' % (kind, hx(data)))
        # a short read, as on a real socket: the call asks for more than the real socket / raw file returns
        ask = len(data) + rnd.choice([0, 0, 1, 7, 4096])
        if exp is not None:
            continue
        try:
            if kind == 's':
                before = len(raw.sent)
                sock.send(data)
                got = raw.sent[before:]
                outs.append(hx(got[0]) if len(got) == 1 else 'sends=%d' % len(got))
            elif kind == 'r':
                raw.inq.append(data)
                outs.append(hx(sock.recv(ask)))
            else:
                rawf.inq.append(data)
                outs.append(hx(fo.read(ask)))
        except Spin as e:
            outs.append('spin:%s' % e.args[0])
        except Exception as e:
            outs.append('raised:%s' % type(e).__name__)
        if raw.inq or rawf.inq:
            outs[-1] += '!unread'
            raw.inq, rawf.inq = [], []
    if exp is None:
        exp = ' '.join(['ok'] + outs)
    res = []
    if secrets != [b'']:        # `kstack - ...` is the EMPTY stack in the driver's syntax, not one empty secret
        res.append(('kstack %s %s' % (','.join(hx(s) for s in secrets) or '-', ' '.join(ops)), exp))
    if depth == 1:
        res.append(('kchan %s %s' % (hx(secrets[0]), ' '.join(ops)), exp))
    return res


def main():
    N, seed = int(sys.argv[1]), sys.argv[2]
    rnd = random.Random('c18keys/%s' % seed)
    protos = sorted(minecraft.SUPPORTED_PROTOCOL_VERSIONS)
    out = []
    for _ in range(N):
        out.append('%s\t%s' % keys_case(rnd, protos))
    for _ in range(N):
        for rq, exp in stack_case(rnd):
            out.append('%s\t%s' % (rq, exp))
    assert os.urandom is REAL_URANDOM
    sys.stdout.write('\n'.join(out) + '\n')


if __name__ == '__main__':
    main()
