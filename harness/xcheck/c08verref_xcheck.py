"""Real-code observations for the driver command `verref.run real …` (lean/PyCraft/Drive/C08Live.lean).

usage:  /venv/bin/python harness/xcheck/c08verref_xcheck.py <N> <seed> [fresh=1] [per-history budget in s=10]
prints `request<TAB>expected reply` lines, TWO per history (the fixed histories of harness/gen/c08live.py
`HISTORIES`, then N random ones drawn from <seed>):
  * `verref.run real <recs> <ops>`                      the model imported with the history's records;
  * `verref.run real <shipped recs> R=<recs> I1 <ops>`  literally what the live side does: the library is
    imported with the records it ships, then the history's records are installed in place and initglobals runs.
corr/c08.py (`verref_tie`) feeds the requests to the driver binary.

Every history is observed on module state that no earlier history has touched.  One interpreter per history
(harness/gen/c08live.py `observe`) costs 0.3 s each, so this script batches them: it imports the library once
(only to have its third-party dependencies loaded and to read the shipped records), removes every `minecraft*`
entry from sys.modules, and then FORKS one child per history; the child imports `minecraft`,
`minecraft.networking.connection`, `minecraft.utility` anew (their module bodies run again: the tables and the
references between the three modules are built exactly as in a new interpreter), performs the history through
the public objects and sends the observation back through a pipe.  The first <fresh> histories are ALSO run in
a genuinely new interpreter (`--one`), and the two observations must be equal (else the expected reply carries
`!fresh-differs` and cannot match the model).

Bounded: the parent waits at most the per-history budget for a child, then kills it (expected reply `timeout`;
after two timeouts the remaining histories are not run and say so);
exceptions of the code under test other than the modelled KeyError become `raised:<Type>`.
"""
import json
import os
import random
import select
import signal
import subprocess
import sys
import time

sys.dont_write_bytecode = True
HERE = os.path.dirname(os.path.abspath(__file__))
HARNESS = os.path.dirname(HERE)
REPO = os.environ.get('PYCRAFT_REPO', '/repo')
PRE = 1 << 30
PREDS = ('earlier', 'earlier_eq', 'later', 'later_eq', 'in_range')


def purge():
    for k in [k for k in sys.modules if k == 'minecraft' or k.startswith('minecraft.')]:
        del sys.modules[k]


def observe_here(recs, ops):
    """the history on THIS process's module state (which must be untouched): imports the library"""
    if REPO not in sys.path:
        sys.path.insert(0, REPO)
    import minecraft as m
    import minecraft.networking.connection as c
    import minecraft.utility as u
    V = m.Version
    at = 'install'
    try:
        m.KNOWN_MINECRAFT_VERSION_RECORDS[:] = [V(r[0], r[1], bool(r[2])) for r in recs]
        m.initglobals(use_known_records=True)
        ctxs, answers = [], []
        for n, op in enumerate(ops):
            k = op[0]
            at = 'op %d (%s)' % (n, k)
            if k == 'R':
                m.KNOWN_MINECRAFT_VERSION_RECORDS[:] = [V(r[0], r[1], bool(r[2])) for r in op[1]]
            elif k == 'S':
                m.SUPPORTED_MINECRAFT_VERSIONS[op[1]] = op[2]
            elif k == 'I':
                m.initglobals(use_known_records=bool(op[1]))
            elif k == 'N':
                ctxs.append(c.ConnectionContext(protocol_version=op[1]))
            elif k == 'P':
                if op[1] < len(ctxs):
                    ctxs[op[1]].protocol_version = op[2]
            elif k == 'C':
                if op[1] < len(ctxs):
                    ctx, pred, a, b = ctxs[op[1]], op[2], op[3], op[4]
                    try:
                        r = ctx.protocol_in_range(a, b) if pred == 'in_range' else getattr(ctx, 'protocol_' + pred)(a)
                        answers.append(1 if r is True else 0 if r is False else 'ret:%s' % type(r).__name__)
                    except KeyError:
                        answers.append('K')
                    except Exception as e:
                        answers.append('raised:%s' % type(e).__name__)
            else:
                raise AssertionError(op)
        at = 'tables'
        return {
            'answers': answers,
            'known': list(m.KNOWN_MINECRAFT_VERSIONS.items()),
            'kp': list(m.KNOWN_PROTOCOL_VERSIONS),
            'sv': list(m.SUPPORTED_MINECRAFT_VERSIONS.items()),
            'idx': list(m.PROTOCOL_VERSION_INDICES.items()),
            'sp': list(m.SUPPORTED_PROTOCOL_VERSIONS),
            'rv': list(m.RELEASE_MINECRAFT_VERSIONS.items()),
            'rp': list(m.RELEASE_PROTOCOL_VERSIONS),
            'uidx': list(u.PROTOCOL_VERSION_INDICES.items()),
            'cknown': list(c.KNOWN_MINECRAFT_VERSIONS.items()),
            'csv': list(c.SUPPORTED_MINECRAFT_VERSIONS.items()),
            'csp': list(c.SUPPORTED_PROTOCOL_VERSIONS),
            'cidx': list(c.PROTOCOL_VERSION_INDICES.items()),
            'usame': u.PROTOCOL_VERSION_INDICES is m.PROTOCOL_VERSION_INDICES,
            'csame': (c.KNOWN_MINECRAFT_VERSIONS is m.KNOWN_MINECRAFT_VERSIONS
                      and c.SUPPORTED_MINECRAFT_VERSIONS is m.SUPPORTED_MINECRAFT_VERSIONS
                      and c.SUPPORTED_PROTOCOL_VERSIONS is m.SUPPORTED_PROTOCOL_VERSIONS
                      and c.PROTOCOL_VERSION_INDICES is m.PROTOCOL_VERSION_INDICES),
        }
    except Exception as e:
        return {'failed': 'raised:%s at %s' % (type(e).__name__, at)}


def observe_forked(recs, ops, budget):
    """-> observation dict | {'failed': ...}; the child starts from a process in which no `minecraft*` module exists"""
    rfd, wfd = os.pipe()
    sys.stdout.flush()
    pid = os.fork()
    if pid == 0:
        code = 1
        try:
            os.close(rfd)
            try:
                data = json.dumps(observe_here(recs, ops))
            except BaseException as e:                      # incl. SystemExit / KeyboardInterrupt of the code under test
                data = json.dumps({'failed': 'raised:%s' % type(e).__name__})
            data = data.encode()
            while data:
                data = data[os.write(wfd, data):]
            code = 0
        finally:
            os._exit(code)
    os.close(wfd)
    deadline = time.time() + budget
    chunks, timed_out = [], False
    try:
        while True:
            left = deadline - time.time()
            if left <= 0:
                timed_out = True
                break
            ready, _, _ = select.select([rfd], [], [], left)
            if not ready:
                timed_out = True
                break
            b = os.read(rfd, 65536)
            if not b:
                break
            chunks.append(b)
    finally:
        os.close(rfd)
        if timed_out:
            try:
                os.kill(pid, signal.SIGKILL)
            except OSError:
                pass
        os.waitpid(pid, 0)
    if timed_out:
        return {'failed': 'timeout'}
    try:
        return json.loads(b''.join(chunks).decode())
    except ValueError:
        return {'failed': 'child-died'}


def observe_fresh(recs, ops, budget):
    """the same history in a genuinely new interpreter"""
    try:
        p = subprocess.run([sys.executable, os.path.abspath(__file__), '--one'], input=json.dumps({'recs': recs, 'ops': ops}),
                           capture_output=True, text=True, timeout=budget,
                           env=dict(os.environ, PYCRAFT_REPO=REPO, PYTHONDONTWRITEBYTECODE='1'))
    except subprocess.TimeoutExpired:
        return {'failed': 'timeout'}
    try:
        return json.loads(p.stdout.strip().splitlines()[-1])
    except (ValueError, IndexError):
        return {'failed': 'child-died'}


IDS = ['1.1', '1.2', '1.2.3', '20w01a', '1.3-pre1', 'x', '1.4\n', '', '1', '1.', '1.2.3.4', '\xe91.2', '1.18-rc4', 'Combat Test 8c',
       '1.x', '01.2', '1.2 ', '1.16.5']
POOL = [10, 20, 30, 40, 50, PRE | 1, PRE | 2, 0, 47, 757]


def random_history(rng):
    """as gen.c08live.random_history, over more ids (release / snapshot / malformed / empty / non-ASCII) and numbers"""
    ids = IDS if rng.random() < 0.6 else IDS[:7]
    pool = POOL if rng.random() < 0.5 else POOL[:7]

    def recs():
        return [[rng.choice(ids), rng.choice(pool), rng.random() < 0.6] for _ in range(rng.randrange(0, 7))]
    ops, nctx = [], 0
    for _ in range(rng.randrange(3, 12)):
        k = rng.choice('RSIINPCCCC')
        if k == 'R':
            ops.append(['R', recs()])
        elif k == 'S':
            ops.append(['S', rng.choice(ids), rng.choice(pool)])
        elif k == 'I':
            ops.append(['I', rng.random() < 0.7])
        elif k == 'N':
            ops.append(['N', rng.choice(pool + [None])])
            nctx += 1
        elif k == 'P':
            ops.append(['P', rng.randrange(0, nctx + 1), rng.choice(pool + [None])])
        else:
            ops.append(['C', rng.randrange(0, nctx + 1), rng.choice(PREDS), rng.choice(pool), rng.choice(pool)])
    return recs(), ops


def main():
    if sys.argv[1:2] == ['--one']:
        job = json.load(sys.stdin)
        print(json.dumps(observe_here(job['recs'], job['ops'])))
        return
    N, seed = int(sys.argv[1]), sys.argv[2]
    fresh = int(sys.argv[3]) if len(sys.argv) > 3 else 1
    budget = float(sys.argv[4]) if len(sys.argv) > 4 else 10.0
    if HARNESS not in sys.path:
        sys.path.insert(0, HARNESS)
    from gen import c08live as G            # request / reply rendering and the fixed histories (stdlib only)
    rng = random.Random('c08verref/%s' % seed)
    hs = [(r, o) for r, o in G.HISTORIES] + [random_history(rng) for _ in range(N)]
    # preload: the library's dependencies, and the records it ships; then forget the library itself
    sys.path.insert(0, REPO)
    import minecraft as m
    import minecraft.networking.connection  # noqa: F401
    import minecraft.utility                # noqa: F401
    ship = [[r.id, r.protocol, bool(r.supported)] for r in m.KNOWN_MINECRAFT_VERSION_RECORDS]
    del m
    purge()
    out, timeouts = [], 0
    for i, (recs, ops) in enumerate(hs):
        assert not any(k == 'minecraft' or k.startswith('minecraft.') for k in sys.modules)
        if timeouts >= 2:           # overall bound: do not wait <budget> for every remaining history
            o = {'failed': 'not-run: two earlier histories timed out'}
        else:
            o = observe_forked(recs, ops, budget)
            timeouts += o.get('failed') == 'timeout'
        exp = o['failed'] if 'failed' in o else G.reply(o)
        if i < fresh:
            o2 = observe_fresh(recs, ops, budget + 10)
            if o2 != o:
                exp += ' !fresh-differs:%s' % json.dumps(o2)[:300]
        exp = exp.replace('\t', ' ').replace('\n', ' ')
        out.append('%s\t%s' % (G.request('real', recs, ops), exp))
        out.append('%s\t%s' % (G.request('real', ship, [['R', recs], ['I', True]] + ops), exp))
    sys.stdout.write('\n'.join(out) + '\n')


if __name__ == '__main__':
    main()
