# SUPERSEDED: this comparison now runs inside `./check` (corr/c01.py dispatch_tie), through the driver binary and seeded from ctx.rng.
# The stand-alone version below is kept for reference only: it depends on scratch files under /tmp and on a Lean main that no longer exists.
import sys, random, types, zlib, struct, subprocess
sys.path.insert(0, '/repo')
import minecraft.networking.connection as C
from minecraft.networking.packets import Packet
import minecraft.networking.packets as P
from minecraft.networking.types import basic as B

rng = random.Random(int(sys.argv[1]) if len(sys.argv) > 1 else 1)
hx = lambda b: bytes(b).hex() or '-'
TY = {'varint': B.VarInt, 'string': B.String, 'bool': B.Boolean, 'i16': B.Short, 'bytesv': B.VarIntPrefixedByteArray,
      'trailing': B.TrailingByteArray, 'i64': B.Long, 'u8': B.UnsignedByte}

def varint(n):
    out = bytearray()
    while True:
        b = n & 0x7F; n >>= 7
        out.append(b | (0x80 if n else 0))
        if not n: return bytes(out)

def rndval(t):
    if t == 'varint': return rng.choice([0, 1, 127, 128, 300, 2**31 - 1])
    if t == 'string': return rng.choice(['', 'hi', u'héllo', u'€'])
    if t == 'bool': return rng.random() < .5
    if t == 'i16': return rng.randrange(-2**15, 2**15)
    if t == 'i64': return rng.randrange(-2**63, 2**63)
    if t == 'u8': return rng.randrange(256)
    return bytes(rng.randrange(256) for _ in range(rng.randrange(0, 5)))

def showval(v):
    if isinstance(v, bool): return 'T' if v else 'F'
    if isinstance(v, int): return 'i%d' % v
    if isinstance(v, str): return 's' + v.encode('utf-8').hex()
    return 'x' + bytes(v).hex()

def ename(e):
    if isinstance(e, EOFError): return 'eof'
    if isinstance(e, AssertionError): return 'assertion'
    if isinstance(e, zlib.error): return 'zlib'
    if isinstance(e, UnicodeDecodeError): return 'decode'
    if isinstance(e, ValueError) and 'too long' in str(e): return 'toolong'
    if isinstance(e, struct.error): return 'struct'
    if isinstance(e, ValueError): return 'value'
    if isinstance(e, TypeError): return 'type'
    return 'other:' + type(e).__name__

class Sock:
    def __init__(self): self.sends = []
    def send(self, d): self.sends.append(bytes(d)); return len(d)

class SegStream:
    def __init__(self, segs): self.segs = [s for s in segs if s]; self.reads = 0; self.empties = 0
    def read(self, n=-1):
        self.reads += 1
        if n == 0 or not self.segs:
            self.empties += 1; return b''
        s = self.segs[0]
        if n < 0 or n >= len(s): self.segs.pop(0); return s
        self.segs[0] = s[n:]; return s[:n]
    def fileno(self): return 7

made = []
orig = P.PacketBuffer
class Spy(orig):
    def __init__(self, *a, **k):
        orig.__init__(self, *a, **k); made.append(self)
P.PacketBuffer = Spy
C.select = types.SimpleNamespace(select=lambda r, w, x, t=None: (list(r), [], []))
ctx = C.ConnectionContext(protocol_version=757)

reqs, want = [], []
for case in range(int(sys.argv[2]) if len(sys.argv) > 2 else 150):
    # table
    ids = rng.sample([0, 1, 2, 3, 0x21, 0x7f, 0x80, 300, 2**21], rng.randrange(0, 5))
    table = {}
    for i in ids:
        n = rng.randrange(0, 4)
        tys = [rng.choice(['varint', 'string', 'bool', 'i16', 'bytesv', 'i64', 'u8']) for _ in range(n)]
        if rng.random() < .3: tys.append('trailing')
        table[i] = tys
    classes = {}
    for i, tys in table.items():
        classes[i] = type('K%d' % i, (Packet,), {'id': i, 'definition': [{'f%d' % k: TY[t]} for k, t in enumerate(tys)]})
    class Reactor(C.PacketReactor):
        get_clientbound_packets = staticmethod(lambda context, cs=classes: set(cs.values()))
    enabled = rng.random() < .6
    thr = rng.choice([-1, 0, 1, 4, 64, -3])
    zmap = {}
    wire = b''
    for _ in range(rng.randrange(0, 6)):
        kind = rng.choice(['known', 'known', 'unknown', 'unknown', 'bad'])
        if kind != 'unknown' and not table: kind = 'unknown'
        if kind == 'unknown':
            pid = rng.choice([x for x in [4, 5, 0x55, 129, 16384, 2**28] ])
            fields = bytes(rng.randrange(256) for _ in range(rng.randrange(0, 9)))
        else:
            pid = rng.choice(sorted(table))
            buf = orig()
            for t in table[pid]:
                TY[t].send(rndval(t), buf)
            fields = buf.get_writable()
            if kind == 'bad':
                fields = fields[:rng.randrange(0, len(fields) + 1)] if rng.random() < .6 else fields + b'\xff\xfe'
        p = Packet(); p.id = pid; p.definition = [{'payload': B.TrailingByteArray}]; p.payload = fields; p.context = ctx
        s = Sock()
        if enabled: p.write(s, thr)
        else: p.write(s)
        wire += b''.join(s.sends)
        payload = varint(pid) + fields
        if enabled and thr != -1 and len(payload) > thr:
            zmap[zlib.compress(payload)] = payload
    if rng.random() < .15 and wire: wire = wire[:-1]
    # segmentation
    segs, i = [], 0
    while i < len(wire):
        n = rng.choice([1, 1, 2, 3, 5, 8, 40]); segs.append(wire[i:i + n]); i += n
    if rng.random() < .3: segs = [wire]
    conn = types.SimpleNamespace(context=ctx, options=C._ConnectionOptions(compression_enabled=enabled, compression_threshold=thr))
    reactor = Reactor(conn)
    stream = SegStream(segs)
    items, end = [], None
    for _ in range(12):
        del made[:]
        try:
            p = reactor.read_packet(stream, timeout=0)
        except Exception as e:
            end = ename(e); break
        unread = made[0].read()
        if type(p) is Packet:
            items.append('b:%d:%s' % (p.id, hx(unread)))
        else:
            vals = [getattr(p, n) for f in type(p).definition for n in f]
            items.append('k:%d:%s:%s' % (p.id, ';'.join(showval(v) for v in vals) or '-', hx(unread)))
    zm = ','.join('%s:%s' % (hx(c), hx(pl)) for c, pl in zmap.items()) or '-'
    tab = '|'.join('%d=%s' % (i, ';'.join(t) or '-') for i, t in sorted(table.items())) or '-'
    reqs.append('dispatch.readall %d zmap=%s tab=%s %s' % (enabled, zm, tab, ' '.join(hx(s) for s in segs if s)))
    want.append('ok %send=%s reads=%d eofreads=%d' % (''.join(i + ' ' for i in items), end, stream.reads, stream.empties))

# conn.write vs the real _write_packet
for case in range(60):
    enabled = rng.random() < .5
    thr = rng.choice([-1, 0, 1, 3, 64, -3, 1000])
    pid = rng.choice([0, 5, 0x7f, 300]); fields = bytes(rng.randrange(256) for _ in range(rng.randrange(0, 70)))
    conn = C.Connection('localhost', 25565); conn.socket = Sock()
    conn.options.compression_enabled = enabled; conn.options.compression_threshold = thr
    p = Packet(); p.id = pid; p.definition = [{'payload': B.TrailingByteArray}]; p.payload = fields; p.context = conn.context
    conn._write_packet(p)
    payload = varint(pid) + fields
    zm = '%s:%s' % (hx(zlib.compress(payload)), hx(payload))
    reqs.append('conn.write %d %d zmap=%s %s' % (enabled, thr, zm, hx(payload)))
    want.append('ok ' + ' '.join(hx(s) for s in conn.socket.sends))

# opts.run vs the real handlers
from minecraft.networking.packets import clientbound
class FS:
    def __init__(self, *a): pass
    def connect(self, a): pass
    def makefile(self, *a): return None
fake = types.SimpleNamespace(AF_INET=2, AF_INET6=10, SOCK_STREAM=1, socket=FS, getaddrinfo=lambda *a: [(2, 1, 6, '', ('127.0.0.1', 25565))])
for case in range(60):
    conn = C.Connection('localhost', 25565, initial_version=47); conn.context.protocol_version = 47
    e0 = rng.random() < .5; t0 = rng.choice([-1, 0, 256, 7])
    conn.options.compression_enabled = e0; conn.options.compression_threshold = t0
    evs = []
    for _ in range(rng.randrange(0, 5)):
        r = rng.random()
        if r < .3:
            sv = C.socket; C.socket = fake
            try: conn._connect()
            finally: C.socket = sv
            evs.append('connect')
        else:
            t = rng.choice([-1, 0, 256, 5, -9])
            if r < .65: C.LoginReactor(conn).react(clientbound.login.SetCompressionPacket(threshold=t))
            else: C.PlayingReactor(conn).react(clientbound.play.SetCompressionPacket(threshold=t))
            evs.append('setc/%d' % t)
    o = conn.options
    # what the writer would pass / the reader would test, observed on the real code
    seen = {}
    pk = types.SimpleNamespace(write=lambda sock, thr='none': seen.setdefault('w', thr))
    conn.socket = Sock(); conn._write_packet(pk)
    reqs.append('opts.run %d %d %s' % (e0, t0, ' '.join(evs)))
    want.append('ok %d %d writer=%s reader=%d' % (o.compression_enabled, o.compression_threshold, seen['w'], bool(o.compression_enabled)))

out = subprocess.run(['lake', 'env', 'lean', '--run', '/tmp/c01d/drv.lean'], cwd='/verif/lean', input='\n'.join(reqs) + '\n',
                     capture_output=True, text=True)
got = out.stdout.splitlines()
bad = 0
for r, w, g in zip(reqs, want, got):
    if w != g:
        bad += 1
        if bad < 6: print('MISMATCH\n  req ', r[:300], '\n  real', w[:300], '\n  lean', g[:300])
print('requests', len(reqs), 'replies', len(got), 'mismatches', bad, out.stderr[:300])
from collections import Counter
print(Counter(w.split('end=')[1].split()[0] for w in want if 'end=' in w))
print('bare', sum(w.count(' b:') + w.startswith('ok b:') for w in want), 'known', sum(w.count('k:') for w in want))
