import sys; sys.dont_write_bytecode=True; sys.path.insert(0,'/repo')
from minecraft.networking.connection import ConnectionContext
from minecraft.networking.packets import PacketBuffer
from minecraft.networking.packets.clientbound.play import SoundEffectPacket
P=SoundEffectPacket.Pitch; E=SoundEffectPacket.EffectPosition
def rt(ctx, raw):
    pb=PacketBuffer(); pb.send(raw); pb.reset_cursor()
    v=P.read_with_context(pb, ctx)
    out=PacketBuffer()
    try: P.send_with_context(v, out, ctx)
    except Exception as e: return v, repr(e)
    return v, bytes(out.get_writable())
for pv in (110, 47):
    ctx=ConnectionContext(protocol_version=pv)
    bad=[]
    for b in range(256):
        raw=bytes([b]); v,o=rt(ctx, raw)
        if o!=raw: bad.append((b, v, o))
    print(pv, 'byte pitch read->send mismatches:', len(bad), bad[:6])
# effect position
import struct, random
bad=0
for w in [0,1,-1,7,-7,2**31-1,-2**31]+[random.randrange(-2**31,2**31) for _ in range(20000)]:
    raw=struct.pack('>iii', w, -w if w>-2**31 else 0, 5)
    pb=PacketBuffer(); pb.send(raw); pb.reset_cursor()
    v=E.read(pb); out=PacketBuffer(); E.send(v, out)
    if bytes(out.get_writable())!=raw: bad+=1
print('effpos mismatches', bad)
