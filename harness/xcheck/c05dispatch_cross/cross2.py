# SUPERSEDED: this comparison now runs inside `./check` (corr/c05.py registry_tie), through the driver binary and seeded from ctx.rng.
# The stand-alone version below is kept for reference only: it depends on scratch files under /tmp and on a Lean main that no longer exists.
import sys, subprocess, struct
sys.dont_write_bytecode = True
sys.path.insert(0, '/repo'); sys.path.insert(0, '/verif/harness')
import minecraft
from minecraft.networking.connection import ConnectionContext
from minecraft.networking import packets
from minecraft.networking.packets import Packet, PacketBuffer
from minecraft.networking.types import VarInt
from gen import c05dispatch as G
uuidhex = '000102030405060708090a0b0c0d0e0f'
def d64(x): return str(struct.unpack('>Q', struct.pack('>d', x))[0])
def toks(key, ctx):
    if key == 'map': return '3 1 1 0 [5:12:-1:1:6869] 2 1 3:4 aabb'
    if key == 'pli': return '0 [a:%s:6162:[6e/76/73]:1:20:6869]' % uuidhex
    if key == 'spawn':
        f = ctx.protocol_later_eq(100)
        xyz = ' '.join(d64(float(v)) if f else str(v) for v in (1, 2, 3))
        return '1 %s 5 %s 64 128 1 1 2 3' % (uuidhex, xyz)
    if key == 'combat': return 'dead:1:2:78'
    if key == 'face': return '0 %s %s %s 7 1' % (d64(1.0), d64(2.0), d64(3.0))
    if key == 'plug': return '1 1 6162'
tabs = {'map': 'cbPlay', 'pli': 'cbPlay', 'spawn': 'cbPlay', 'combat': 'cbPlay', 'face': 'cbPlay', 'plug': 'sbLogin'}
reqs, exp = [], []
for key, cls, mk in G.hand_samples():
    t = tabs[key]
    d, s = ('clientbound', 'play') if t == 'cbPlay' else ('serverbound', 'login')
    gp = getattr(getattr(packets, d), s).get_packets
    for pv in minecraft.KNOWN_PROTOCOL_VERSIONS:
        ctx = ConnectionContext(protocol_version=pv)
        if cls not in gp(ctx): continue
        p = mk(ctx)
        pb = PacketBuffer()
        try:
            VarInt.send(p.id, pb); idb = bytes(pb.get_writable()); pb2 = PacketBuffer(); p.write_fields(pb2)
            e = 'ok %s %s' % (idb.hex(), bytes(pb2.get_writable()).hex() or '-')
            body = idb + bytes(pb2.get_writable())
        except Exception as ex:
            e = 'err:' + type(ex).__name__; body = None
        reqs.append('c05d.enc %s %d %s %s' % (t, pv, cls.__name__, toks(key, ctx))); exp.append(e)
        if body is not None:
            reqs.append('c05d.dec %s %d %s' % (t, pv, body.hex())); exp.append('known %s ok' % cls.__name__)
out = subprocess.run(['lake','env','lean','--run','/tmp/c05d/drv.lean'], cwd='/verif/lean', input='\n'.join(reqs)+'\n', capture_output=True, text=True)
lines = out.stdout.splitlines()[-len(reqs):]
bad = 0
for r, e, l in zip(reqs, exp, lines):
    ok = (l == e) if r.startswith('c05d.enc') else (l.startswith(e) and l.endswith('rest=-'))
    if not ok:
        bad += 1
        if bad < 8: print('MISMATCH', r, '\n   model:', l, '\n   real :', e)
print(len(reqs), 'mismatches', bad)
print(lines[1]); print(lines[-1])
