import PyCraft.Drive.C05Dispatch
open PyCraft.Drive
partial def loop (h : IO.FS.Stream) (out : IO.FS.Stream) : IO Unit := do
  let line ← h.getLine
  if line.isEmpty then return
  let s := (line.dropRightWhile (fun c => c == (Char.ofNat 10) || c == (Char.ofNat 13)))
  out.putStrLn ((c05dispatch (s.splitOn " ")).getD "NONE")
  loop h out
def main : IO Unit := do
  loop (← IO.getStdin) (← IO.getStdout)
